"""Mutants for C15 (automata wiring / grammars), based on /repo at 3497bfa (NFA::optional allocates fresh states).
     python3 selftest/run.py C15
edits: (file, old text occurring exactly once, new text)."""

A = "src/automata.rs"
D = "src/decoder.rs"

_MANY_OLD = """    pub fn many(self) -> Self {
        // add offset of 2 to state ids
        let (mut states, ends) = Self::merge_states(once(self), 2);
        let (from, to) = ends[0];

        let start = NFAStateId(0);
        let stop = NFAStateId(1);
        let mut start_state = NFAState::new();
        start_state.epsilons.insert(from);
        start_state.epsilons.insert(stop);
        if let Some(to_state) = states.get_mut(&to) {
            to_state.epsilons.insert(stop);
            to_state.epsilons.insert(from);
        }
        states.insert(start, start_state);
        states.insert(stop, NFAState::new());

        Self {
            start,
            stop,
            states,
        }
    }
"""

_MANY_INPLACE = """    pub fn many(mut self) -> Self {
        if let Some(last) = self.states.get_mut(&self.stop) {
            last.epsilons.insert(self.start);
        }
        if let Some(first) = self.states.get_mut(&self.start) {
            first.epsilons.insert(self.stop);
        }
        self
    }
"""

_MANY_RENAMED = """    pub fn many(self) -> Self {
        let (mut merged, ends) = Self::merge_states(once(self), 2);
        let (inner_start, inner_stop) = ends[0];

        let new_start = NFAStateId(0);
        let new_stop = NFAStateId(1);
        let mut entry = NFAState::new();
        entry.epsilons.insert(new_stop);
        entry.epsilons.insert(inner_start);
        if let Some(last) = merged.get_mut(&inner_stop) {
            last.epsilons.insert(inner_start);
            last.epsilons.insert(new_stop);
        }
        merged.insert(new_stop, NFAState::new());
        merged.insert(new_start, entry);

        Self {
            start: new_start,
            stop: new_stop,
            states: merged,
        }
    }
"""

_OPTIONAL_CUR = """    pub fn optional(self) -> Self {
        // fresh start and stop states are required: adding `start -> stop` in place
        // accepts prefixes that re-enter `start` (`(a+ b)?` would accept `a`)
        let (mut states, ends) = Self::merge_states(once(self), 2);
        let (from, to) = ends[0];

        let start = NFAStateId(0);
        let stop = NFAStateId(1);
        let mut start_state = NFAState::new();
        start_state.epsilons.insert(from);
        start_state.epsilons.insert(stop);
        if let Some(to_state) = states.get_mut(&to) {
            to_state.epsilons.insert(stop);
        }
        states.insert(start, start_state);
        states.insert(stop, NFAState::new());

        Self {
            start,
            stop,
            states,
        }
    }
"""

# the implementation before repo commit 3497bfa (in place start -> stop)
_OPTIONAL_INPLACE = """    pub fn optional(mut self) -> Self {
        if let Some(start) = self.states.get_mut(&self.start) {
            start.epsilons.insert(self.stop);
        }
        self
    }
"""

_OPTIONAL_NO_EXIT = _OPTIONAL_CUR.replace("""        if let Some(to_state) = states.get_mut(&to) {
            to_state.epsilons.insert(stop);
        }
""", "        let _ = to;\n")
assert _OPTIONAL_NO_EXIT != _OPTIONAL_CUR

_OPTIONAL_NO_SKIP = _OPTIONAL_CUR.replace("        start_state.epsilons.insert(stop);\n", "")
assert _OPTIONAL_NO_SKIP != _OPTIONAL_CUR

_OPTIONAL_RENAMED = """    pub fn optional(self) -> Self {
        let (mut merged, ends) = Self::merge_states(once(self), 2);
        let (inner_start, inner_stop) = ends[0];

        let entry_id = NFAStateId(0);
        let exit_id = NFAStateId(1);
        if let Some(last) = merged.get_mut(&inner_stop) {
            last.epsilons.insert(exit_id);
        }
        let mut entry = NFAState::new();
        entry.epsilons.insert(exit_id);
        entry.epsilons.insert(inner_start);
        merged.insert(exit_id, NFAState::new());
        merged.insert(entry_id, entry);

        Self {
            start: entry_id,
            stop: exit_id,
            states: merged,
        }
    }
"""

_DEVATTR_OLD = "(NFA::number() + NFA::from(\";\").optional()).some(),"
_CURSOR_OLD = "            NFA::from(\"\\x1b[\"),\n            NFA::number(),\n            NFA::from(\";\"),\n            NFA::number(),\n            NFA::from(\"R\"),"
_CURSOR_NEW = "            NFA::from(\"\\x1b[\"),\n            (NFA::from(\";\") + NFA::number()).optional(),\n            NFA::from(\";\"),\n            NFA::number(),\n            NFA::from(\"R\"),"

MUTANTS = [
    # ---------------- R1: wiring templates ----------------
    {"id": "C15-some-forward-edge", "prop": "C15", "expect": "R1-WIRING/automata::NFA::some/not-thompson",
     "edits": [(A, "            stop.epsilons.insert(self.start);", "            stop.epsilons.insert(self.stop);")]},
    {"id": "C15-some-start-to-stop", "prop": "C15", "expect": "R1-WIRING/automata::NFA::some/not-thompson",
     "edits": [(A, "        if let Some(stop) = self.states.get_mut(&self.stop) {\n            stop.epsilons.insert(self.start);",
                "        if let Some(stop) = self.states.get_mut(&self.start) {\n            stop.epsilons.insert(self.stop);")]},
    {"id": "C15-some-start-to-stop-language", "prop": "C15", "expect": "R3-LANG/",
     "edits": [(A, "        if let Some(stop) = self.states.get_mut(&self.stop) {\n            stop.epsilons.insert(self.start);",
                "        if let Some(stop) = self.states.get_mut(&self.start) {\n            stop.epsilons.insert(self.stop);")]},
    {"id": "C15-choice-no-exit-edge", "prop": "C15", "expect": "R1-WIRING/automata::NFA::choice/not-thompson",
     "edits": [(A, "                to_state.epsilons.insert(stop);", "                let _ = (&to_state, stop);")]},
    {"id": "C15-choice-skips-first-alternative", "prop": "C15", "expect": "R1-WIRING/automata::NFA::choice/not-understood",
     "edits": [(A, "        for (from, to) in ends {", "        for (from, to) in ends.into_iter().skip(1) {")]},
    {"id": "C15-choice-entry-edge-once", "prop": "C15", "expect": "R1-WIRING/automata::NFA::choice",
     "edits": [(A, "        for (from, to) in ends {\n            start_state.epsilons.insert(from);",
                "        start_state.epsilons.insert(ends[0].0);\n        for (_from, to) in ends {")]},
    {"id": "C15-sequence-chain-reversed", "prop": "C15", "expect": "R1-WIRING/automata::NFA::sequence/not-thompson",
     "edits": [(A, "            let (_, from) = ends[index - 1];\n            let (to, _) = ends[index];",
                "            let (from, _) = ends[index - 1];\n            let (_, to) = ends[index];")]},
    {"id": "C15-sequence-chain-from-two", "prop": "C15", "expect": "R1-WIRING/automata::NFA::sequence/not-understood",
     "edits": [(A, "        for index in 1..ends.len() {", "        for index in 2..ends.len() {")]},
    {"id": "C15-sequence-stop-of-first", "prop": "C15", "expect": "R1-WIRING/automata::NFA::sequence/not-thompson",
     "edits": [(A, "        let (_, stop) = ends[ends.len() - 1];", "        let (_, stop) = ends[0];")]},
    {"id": "C15-many-no-skip-edge", "prop": "C15", "expect": "R1-WIRING/automata::NFA::many/not-thompson",
     "edits": [(A, "        start_state.epsilons.insert(from);\n        start_state.epsilons.insert(stop);\n        if let Some(to_state) = states.get_mut(&to) {\n            to_state.epsilons.insert(stop);\n            to_state.epsilons.insert(from);",
                "        start_state.epsilons.insert(from);\n        if let Some(to_state) = states.get_mut(&to) {\n            to_state.epsilons.insert(stop);\n            to_state.epsilons.insert(from);")]},
    {"id": "C15-many-fresh-ids-collide", "prop": "C15", "expect": "R1-WIRING/automata::NFA::many/not-understood",
     "edits": [(A, "        // add offset of 2 to state ids\n        let (mut states, ends) = Self::merge_states(once(self), 2);",
                "        // add offset of 2 to state ids\n        let (mut states, ends) = Self::merge_states(once(self), 1);")]},
    {"id": "C15-predicate-negated", "prop": "C15", "expect": "R1-WIRING/automata::NFA::predicate",
     "edits": [(A, "            if pred(symbol) {", "            if !pred(symbol) {")]},
    {"id": "C15-predicate-swapped-ends", "prop": "C15", "expect": "R1-WIRING/automata::NFA::predicate",
     "edits": [(A, "        states.insert(start, state);\n        states.insert(stop, NFAState::new());\n\n        Self {\n            start,\n            stop,",
                "        states.insert(start, state);\n        states.insert(stop, NFAState::new());\n\n        Self {\n            start: stop,\n            stop: start,")]},
    {"id": "C15-nothing-accepts-empty", "prop": "C15", "expect": "R1-WIRING/automata::NFA::nothing",
     "edits": [(A, "        states.insert(start, NFAState::new());\n        states.insert(stop, NFAState::new());\n        Self {\n            start,\n            stop,",
                "        states.insert(start, NFAState::new());\n        states.insert(stop, NFAState::new());\n        Self {\n            start,\n            stop: start,")]},
    {"id": "C15-from-str-id-not-advanced", "prop": "C15", "expect": "R1-WIRING/automata::NFA::from",
     "edits": [(A, "            state_id = next_id;", "            state_id = start;")]},
    {"id": "C15-from-str-self-loop", "prop": "C15", "expect": "R1-WIRING/automata::NFA::from",
     "edits": [(A, "            state.edges.insert(symbol, next_id);", "            state.edges.insert(symbol, state_id);")]},
    {"id": "C15-from-str-stop-is-start", "prop": "C15", "expect": "R1-WIRING/automata::NFA::from",
     "edits": [(A, "            start,\n            stop: state_id,", "            start,\n            stop: start,")]},
    {"id": "C15-merge-offset-not-advanced", "prop": "C15", "expect": "R1-MERGE/automata::NFA::merge_states/offset-advances",
     "edits": [(A, "            offset += max_id + 1;", "            offset += 0;")]},
    {"id": "C15-merge-offset-overlaps-by-one", "prop": "C15", "expect": "R1-MERGE/automata::NFA::merge_states/offset-advances",
     "edits": [(A, "            offset += max_id + 1;", "            offset += max_id;")]},
    {"id": "C15-merge-epsilons-not-shifted", "prop": "C15", "expect": "R1-MERGE",
     "edits": [(A, "                    .map(|v| NFAStateId(offset + v.0))", "                    .map(|v| NFAStateId(v.0))")]},
    {"id": "C15-merge-ends-swapped", "prop": "C15", "expect": "R1-MERGE",
     "edits": [(A, "            ends_out.push((start, stop));", "            ends_out.push((stop, start));")]},
    {"id": "C15-bitor-is-sequence", "prop": "C15", "expect": "R1-DELEG/automata::NFA::bitor",
     "edits": [(A, "        Self::choice([self, rhs])", "        Self::sequence([self, rhs])")]},
    {"id": "C15-add-reversed", "prop": "C15", "expect": "R1-DELEG/automata::NFA::add",
     "edits": [(A, "        Self::sequence([self, rhs])", "        Self::sequence([rhs, self])")]},
    # ---------------- R2 / R3: shape typing and languages ----------------
    {"id": "C15-many-in-place", "prop": "C15", "expect": "R2-SHAPE/decoder::KittyImageMatcher::matcher/many#1:operand-stop-has-out-edge",
     "edits": [(A, _MANY_OLD, _MANY_INPLACE)]},
    {"id": "C15-orig-optional-inplace", "prop": "C15", "expect": "R2-SHAPE/decoder::TermCapMatcher::matcher/optional#1:operand-start-has-in-edge",
     "edits": [(A, _OPTIONAL_CUR, _OPTIONAL_INPLACE)]},
    {"id": "C15-orig-optional-inplace-language", "prop": "C15", "expect": "R3-LANG/TermCapMatcher/asbuilt!=regex",
     "edits": [(A, _OPTIONAL_CUR, _OPTIONAL_INPLACE)]},
    {"id": "C15-inplace-optional-on-unclean-operand", "prop": "C15", "expect": "R2-SHAPE/decoder::DeviceAttrsMatcher::matcher/optional#1:operand-start-has-in-edge",
     "edits": [(A, _OPTIONAL_CUR, _OPTIONAL_INPLACE), (D, _DEVATTR_OLD, "(NFA::number() + NFA::from(\";\")).optional().some(),")]},
    {"id": "C15-inplace-optional-on-unclean-stop", "prop": "C15", "expect": "R2-SHAPE/decoder::CursorPositionMatcher::matcher/optional#1:operand-stop-has-out-edge",
     "edits": [(A, _OPTIONAL_CUR, _OPTIONAL_INPLACE), (D, _CURSOR_OLD, _CURSOR_NEW)]},
    {"id": "C15-inplace-optional-on-unclean-language", "prop": "C15", "expect": "R3-LANG/DeviceAttrsMatcher/asbuilt!=regex",
     "edits": [(A, _OPTIONAL_CUR, _OPTIONAL_INPLACE), (D, _DEVATTR_OLD, "(NFA::number() + NFA::from(\";\")).optional(),")]},
    {"id": "C15-optional-fresh-without-exit", "prop": "C15", "expect": "R1-WIRING/automata::NFA::optional/not-thompson",
     "edits": [(A, _OPTIONAL_CUR, _OPTIONAL_NO_EXIT)]},
    {"id": "C15-optional-fresh-without-skip", "prop": "C15", "expect": "R1-WIRING/automata::NFA::optional/not-thompson",
     "edits": [(A, _OPTIONAL_CUR, _OPTIONAL_NO_SKIP)]},
    {"id": "C15-optional-fresh-without-skip-language", "prop": "C15", "expect": "R3-LANG/DeviceAttrsMatcher/asbuilt!=regex",
     "edits": [(A, _OPTIONAL_CUR, _OPTIONAL_NO_SKIP)]},
    {"id": "C15-grammar-accepts-empty", "prop": "C15", "expect": "R3-LANG/GraphicRenditionMatcher/accepts-empty",
     "edits": [(D, "            NFA::from(\"\\x1b[\"),\n            (code + NFA::from(\";\").optional()).some(),\n            NFA::from(\"m\"),\n        ]);",
                "            NFA::from(\"\\x1b[\"),\n            (code + NFA::from(\";\").optional()).some(),\n            NFA::from(\"m\"),\n        ])\n        .optional();")]},
    {"id": "C15-union-tag-wrong-index", "prop": "C15", "expect": "R3-LANG/TTY_EVENT_AUTOMATA/tag-",
     "edits": [(D, "                        .tag_stop_state(MatcherTag::Matcher(index))", "                        .tag_stop_state(MatcherTag::Matcher(0))")]},
    {"id": "C15-union-skips-a-matcher", "prop": "C15", "expect": "GRAMMARS/ANCHOR",
     "edits": [(D, "        let automata = NFA::choice(matchers.iter().enumerate().map(|(index, matcher)| {", "        let automata = NFA::choice(matchers.iter().enumerate().skip(1).map(|(index, matcher)| {")]},
    {"id": "C15-unfoldable-predicate", "prop": "C15", "expect": "GRAMMARS/decoder::BracketedPasteMatcher::matcher/unfoldable",
     "edits": [(D, "            NFA::from(\"\\x1b[200~\"),\n            NFA::predicate(|b| b != b'\\x1b').many(),",
                "            NFA::from(\"\\x1b[200~\"),\n            NFA::predicate(|b| b.reverse_bits() != 0xd8 && b != b'\\x1b').many(),")]},   # (count_ones & co. are folded by sa.grammar since UTF8-LANG; reverse_bits is not)
    # ---------------- R4: compile ----------------
    {"id": "C15-density-assert-removed", "prop": "C15", "expect": "R4-DENSITY/automata::NFA::compile/no-density-assert",
     "edits": [(A, "                assert_eq!(index, state.0);", "                let _ = (index, state.0);")]},
    {"id": "C15-density-assert-trivial", "prop": "C15", "expect": "R4-DENSITY/automata::NFA::compile/no-density-assert",
     "edits": [(A, "                assert_eq!(index, state.0);", "                assert_eq!(index, index + state.0 - state.0);")]},
    {"id": "C15-accepting-from-start", "prop": "C15", "expect": "R4-INFO/automata::NFA::compile/is_accepting",
     "edits": [(A, "            info.is_accepting = dfa_state.contains(&self.stop);", "            info.is_accepting = dfa_state.contains(&self.start);")]},
    {"id": "C15-terminal-negated", "prop": "C15", "expect": "R4-INFO/automata::NFA::compile/is_terminal",
     "edits": [(A, "            info.is_terminal = dfa_table[&dfa_state_id].is_empty();", "            info.is_terminal = !dfa_table[&dfa_state_id].is_empty();")]},
    {"id": "C15-tags-first-member-only", "prop": "C15", "expect": "R4-INFO/automata::NFA::compile/tags",
     "edits": [(A, "                    info.tags.insert(tag.clone());", "                    info.tags.insert(tag.clone());\n                    break;")]},
    {"id": "C15-tags-of-stop-state-only", "prop": "C15", "expect": "R4-INFO/automata::NFA::compile/tags",
     "edits": [(A, "                if let Some(tag) = self.states.get(nfa_state_id).and_then(|s| s.tag.clone()) {",
                "                if let Some(tag) = self.states.get(&self.stop).filter(|_| nfa_state_id == &self.stop).and_then(|s| s.tag.clone()) {")]},
    # ---------------- benign edits (must stay silent) ----------------
    {"id": "C15-benign-optional-rename-reorder", "prop": "C15", "benign": True,
     "edits": [(A, _OPTIONAL_CUR, _OPTIONAL_RENAMED)]},
    {"id": "C15-benign-some-rename-local", "prop": "C15", "benign": True,
     "edits": [(A, "        if let Some(stop) = self.states.get_mut(&self.stop) {\n            stop.epsilons.insert(self.start);",
                "        if let Some(last) = self.states.get_mut(&self.stop) {\n            last.epsilons.insert(self.start);")]},
    {"id": "C15-benign-grammar-optional-on-unclean-operand", "prop": "C15", "benign": True,
     "edits": [(D, _CURSOR_OLD, _CURSOR_NEW)]},
    {"id": "C15-benign-many-rename-reorder", "prop": "C15", "benign": True,
     "edits": [(A, _MANY_OLD, _MANY_RENAMED)]},
    {"id": "C15-benign-merge-offset-spelled-out", "prop": "C15", "benign": True,
     "edits": [(A, "            offset += max_id + 1;", "            offset = offset + max_id + 1;")]},
    {"id": "C15-benign-compile-reorder-info", "prop": "C15", "benign": True,
     "edits": [(A, "            info.is_accepting = dfa_state.contains(&self.stop);\n            info.is_terminal = dfa_table[&dfa_state_id].is_empty();",
                "            info.is_terminal = dfa_table[&dfa_state_id].is_empty();\n            info.is_accepting = dfa_state.contains(&self.stop);")]},
    {"id": "C15-benign-termsize-with-plus", "prop": "C15", "benign": True,
     "edits": [(D, "        let nfa = NFA::sequence([NFA::from(\"\\x1b[8\"), size.clone(), NFA::from(\"\\x1b[4\"), size]);",
                "        let nfa = NFA::from(\"\\x1b[8\") + size.clone() + NFA::from(\"\\x1b[4\") + size;")]},
    {"id": "C15-benign-predicate-as-matches", "prop": "C15", "benign": True,
     "edits": [(D, "            NFA::predicate(|b| b == b'm' || b == b'M'),", "            NFA::predicate(|last| matches!(last, b'm' | b'M')),")]},
    {"id": "C15-benign-sequence-rename-locals", "prop": "C15", "benign": True,
     "edits": [(A, "            let (_, from) = ends[index - 1];\n            let (to, _) = ends[index];\n            if let Some(from_state) = states.get_mut(&from) {\n                from_state.epsilons.insert(to);",
                "            let (_, prev_stop) = ends[index - 1];\n            let (next_start, _) = ends[index];\n            if let Some(prev) = states.get_mut(&prev_stop) {\n                prev.epsilons.insert(next_start);")]},
    # ---- R4-TABLE: geometry of the flattened transition table (row width == stride == 256, column j == symbol j)
    # the seed C15-C: rows and stride both 255, consistent with each other, byte 0xff reads the next state's row
    {"id": "C15-table-rows-255-consistent", "prop": "C15", "expect": "R4-TABLE/automata::NFA::compile/row-width",
     "edits": [(A, "let lang_size = Symbol::MAX as usize + 1;", "let lang_size = Symbol::MAX as usize;"),
               (A, "(0..=Symbol::MAX).map(move |symbol| edges.get(&symbol).copied())", "(0..lang_size).map(move |symbol| edges.get(&(symbol as Symbol)).copied())")]},
    {"id": "C15-table-stride-255", "prop": "C15", "expect": "R4-TABLE/automata::NFA::compile/stride",
     "edits": [(A, "let lang_size = Symbol::MAX as usize + 1;", "let lang_size = Symbol::MAX as usize;")]},
    {"id": "C15-table-row-exclusive-range", "prop": "C15", "expect": "R4-TABLE/automata::NFA::compile/row-width",
     "edits": [(A, "(0..=Symbol::MAX).map(move |symbol| edges.get(&symbol).copied())", "(0..Symbol::MAX).map(move |symbol| edges.get(&symbol).copied())")]},
    {"id": "C15-table-row-starts-at-1", "prop": "C15", "expect": "R4-TABLE/automata::NFA::compile/row-width",
     "edits": [(A, "(0..=Symbol::MAX).map(move |symbol| edges.get(&symbol).copied())", "(1..=Symbol::MAX).map(move |symbol| edges.get(&symbol).copied())")]},
    {"id": "C15-table-column-key-altered", "prop": "C15", "expect": "R4-TABLE/automata::NFA::compile/column-key",
     "edits": [(A, "(0..=Symbol::MAX).map(move |symbol| edges.get(&symbol).copied())", "(0..=Symbol::MAX).map(move |symbol| edges.get(&(symbol ^ 0x20)).copied())")]},
    {"id": "C15-table-transition-stride-off", "prop": "C15", "expect": "R4-TABLE/ANCHOR/transition-index",
     "edits": [(A, "self.states[self.lang_size * state.0 + symbol as usize]", "self.states[(self.lang_size - 1) * state.0 + symbol as usize]")]},
    {"id": "C15-benign-table-row-literal-range", "prop": "C15", "benign": True,
     "edits": [(A, "(0..=Symbol::MAX).map(move |symbol| edges.get(&symbol).copied())", "(0..=255u8).map(move |symbol| edges.get(&symbol).copied())")]},
    {"id": "C15-benign-table-stride-literal", "prop": "C15", "benign": True,
     "edits": [(A, "let lang_size = Symbol::MAX as usize + 1;", "let lang_size = 256;")]},
    {"id": "C15-benign-table-row-from-lang-size", "prop": "C15", "benign": True,
     "edits": [(A, "(0..=Symbol::MAX).map(move |symbol| edges.get(&symbol).copied())", "(0..lang_size).map(move |symbol| edges.get(&(symbol as Symbol)).copied())")]},
    {"id": "C15-benign-table-row-min-max", "prop": "C15", "benign": True,
     "edits": [(A, "(0..=Symbol::MAX).map(move |symbol| edges.get(&symbol).copied())", "(Symbol::MIN..=Symbol::MAX).map(move |sym| edges.get(&sym).copied())")]},
    {"id": "C15-benign-table-transition-commuted", "prop": "C15", "benign": True,
     "edits": [(A, "self.states[self.lang_size * state.0 + symbol as usize]", "self.states[symbol as usize + state.0 * self.lang_size]")]},
]


MUTANTS += [
    {"id": "C15-compile-self-loop-shortcut", "prop": "C15", "expect": "R5-SUBSET",
     "edits": [("src/automata.rs", "                let dfa_state_new = dfa_state\n                    .iter()\n                    .flat_map(|nfa_state_id| self.states[nfa_state_id].edges.get(&symbol).copied());\n",
                "                let dfa_state_new: BTreeSet<NFAStateId> = dfa_state\n                    .iter()\n                    .flat_map(|nfa_state_id| self.states[nfa_state_id].edges.get(&symbol).copied())\n                    .collect();\n                if dfa_state_new.is_subset(&dfa_state) {\n                    dfa_edges.insert(symbol, dfa_state_id);\n                    continue;\n                }\n")]},
    {"id": "C15-benign-compile-collect-move-set", "prop": "C15", "benign": True,
     "edits": [("src/automata.rs", "                let dfa_state_new = dfa_state\n                    .iter()\n                    .flat_map(|nfa_state_id| self.states[nfa_state_id].edges.get(&symbol).copied());\n",
                "                let dfa_state_new: BTreeSet<NFAStateId> = dfa_state\n                    .iter()\n                    .flat_map(|nfa_state_id| self.states[nfa_state_id].edges.get(&symbol).copied())\n                    .collect();\n")]},
]
