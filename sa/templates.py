"""Engine E3 — output templates: the *template language* of code that writes to a `Write`.

Input: function items / expressions of src.json (`sa.src.Src`).  Nothing is executed; a template is
a finite tree describing, for every Ok path, the byte pieces written to the sink in order.

Template nodes (all have `.text()`; build them only through this module)
    Lit(data: bytes)                    literal bytes (adjacent literals are merged on evaluation)
    Hole(text, spec, node, written)     `{spec}`-formatted value; `text` = canonical text of the argument expression
                                        *after* substituting immutable `let`s and pattern bindings (so `pos.row + 1`
                                        vs `pos.row`, argument order and `{:x}` vs `{:02x}` are visible); `written` =
                                        canonical text as written; `node` = resolved syn node
    Raw(text, node)                     `sink.write_all(expr)` with a non-literal expression (bytes passed through)
    Call(name, recv, args, node)        helper call that receives the sink (named hole); see `inline_calls`
    Fail(text)                          a `?` on a non-sink expression (a non-I/O failure exit at this point)
    Exit()                              `return` / diverging macro: the rest of the enclosing Scope is not executed
    Seq(items) / Scope(body)            concatenation / function boundary of an inlined helper
    Alt(branches=[(Pred, Template)])    first-true branch is taken (if/else, if-let, match arms, value conditionals
                                        such as `let flag = if enable {"h"} else {"l"}` used in a hole)
    Star(body, iter_text, names)        loop: `(body)*`
    Join(over, sep, item)               recognised separator idiom `for (i, x) in over.enumerate() { if i != 0 {sep} item }`

Predicates are propositional formulas over *case variables* with finite domains (keys are strings):
    b:<expr>            bool-valued expression            domain {T, F}
    c:<A>,<B>           comparison of A with B            domain {lt, eq, gt}   (`x > 0`, `a.cmp(&b)`, `==`, `!=`, ...)
    v:<place>           enum variant / literal of a value domain = names mentioned + '*'
`evaluate(t, valuation)` gives the flat atom list of the path selected by a valuation (raises Undefined when no
branch of an Alt holds); `valuations(ts)` enumerates the product of the domains of the variables of several templates;
`compare(code, ref_or_list_of_alternatives)` -> (mismatches, n_valuations): for every valuation on which the code and
at least one alternative are defined the code's atom list must equal that of some alternative (literals bytewise, holes
by canonical expression and format spec, loops/joins structurally; a reference Join/Star over "*" accepts any collection / loop range).
`Mismatch.shape` is one of literal | hole-expr | hole-spec | structure.  Same-text condition atoms are the same
variable: callers rely on `Extractor.stable` (no assignment / &mut / non-pure method on an overlapping place) for
substituted lets; conditions themselves are compared by text on one path only.

Extraction
    Extractor(src, file, fn_item, sinks=None, env=None, depth=0)
        .sinks                      names of the parameters that are sinks (type mentions Write/Formatter) unless given
        .template()                 template of the whole function body (Scope)
        .block(stmts, env) / .expr(node, env)
        .match_arms(scrutinee_name) -> [(pat_node, guard, body_node)] of the unique statement-level
                                     `match <name> {..}`; raises if other statements of the body write
        .arm_template(pat, body, place) template of one arm with the pattern's bindings bound to `place.…`
    inline_calls(template, resolver, src, depth)  replaces Call atoms for which resolver(call) -> (file, fn_item)
                                     by the callee's template (parameters bound to the argument expressions)
    ref_template(json)               reference template from refs/*.json (see `ref_template` for the row syntax)
    parse_format(fmt) -> [('lit', str) | ('arg', which, spec)]   Rust std::fmt grammar: `{{`, `}}`, positional,
                                     named, inline `{name}`, specs; `*`/`$` parameters raise Unsupported
    canon(node)                      canonical expression text (no spaces, binaries parenthesised, `&`/`*` dropped,
                                     `1 + x` == `x + 1`)
    split_sequences(atoms, ...)      ECMA-48 framing check of an atom list: CSI / OSC / DCS / APC / two-byte escapes /
                                     ground text; returns recognised sequences or raises Malformed
Supported subset: `write!`/`writeln!` with a literal format string, `sink.write_all(x)`, `sink.flush()`, helper calls
taking the sink, `if`/`if let`/`match`/`let-else`, `for`/`while`/`loop` without break/continue/return in a writing
body, `return`, `?`.  Everything else that touches the sink raises `Unsupported` (callers fail closed).
Assumptions (callers must state them): I/O errors of the sink end the command (Err paths are not part of the
language); functions called inside hole expressions are pure functions of their arguments.
"""
import copy
import itertools
import json
import re

from .src import walk, pat_text


class Unsupported(Exception):
    pass


class Undefined(Exception):
    """no branch of an Alt is true under the valuation"""
    pass


class Malformed(Exception):
    """framing error: `.reason` is a short stable word, `.detail` free text"""
    def __init__(self, reason, detail=""):
        Exception.__init__(self, reason + ((": " + detail) if detail else ""))
        self.reason = reason
        self.detail = detail


# ------------------------------------------------------------------------------------------------
# canonical expression text
# ------------------------------------------------------------------------------------------------
INT_TYPES = ("u8", "u16", "u32", "u64", "u128", "usize", "i8", "i16", "i32", "i64", "i128", "isize")


def _is_lit(n):
    return isinstance(n, dict) and n.get("k") == "lit"


def canon(e):
    if e is None:
        return ""
    k = e.get("k")
    if k == "lit":
        t = e["t"]
        if t == "int":
            return str(int(e["v"]))
        if t == "str":
            return json.dumps(e["v"])
        if t == "bytestr":
            return "b" + json.dumps(bytes(e["v"]).decode("latin-1"))
        if t == "byte":
            return "b'%s'" % chr(e["v"]) if 32 <= e["v"] < 127 else "0x%02x" % e["v"]
        if t == "char":
            return "'%s'" % chr(e["v"])
        if t == "bool":
            return "true" if e["v"] else "false"
        return str(e["v"])
    if k == "path":
        return e["p"]
    if k == "field":
        return "%s.%s" % (canon(e["e"]), e["name"])
    if k == "index":
        return "%s[%s]" % (canon(e["e"]), canon(e["i"]))
    if k == "ref":
        return canon(e["e"])
    if k == "un":
        if e["op"] == "*":
            return canon(e["e"])
        return e["op"] + canon(e["e"])
    if k == "bin":
        l, r = e["l"], e["r"]
        if e["op"] in ("+", "*") and _is_lit(l) and not _is_lit(r):
            l, r = r, l
        return "(%s%s%s)" % (canon(l), e["op"], canon(r))
    if k == "cast":
        return "(%s as %s)" % (canon(e["e"]), e["ty"])
    if k == "call":
        return "%s(%s)" % (canon(e["f"]), ",".join(canon(a) for a in e["args"]))
    if k == "mcall":
        return "%s.%s(%s)" % (canon(e["recv"]), e["m"], ",".join(canon(a) for a in e["args"]))
    if k == "try":
        return canon(e["e"]) + "?"
    if k == "tuple":
        return "(%s)" % ",".join(canon(a) for a in e["elems"])
    if k == "array":
        return "[%s]" % ",".join(canon(a) for a in e["elems"])
    if k == "range":
        return "%s..%s%s" % (canon(e["lo"]), "=" if e["incl"] else "", canon(e["hi"]))
    if k == "macro":
        if e.get("args") is not None:
            return "%s!(%s)" % (e["short"], ",".join(canon(a) for a in e["args"]))
        return "%s!(%s)" % (e["short"], re.sub(r"\s+", "", e.get("tokens", "")))
    if k == "block":
        st = e["stmts"]
        if len(st) == 1 and st[0]["k"] == "expr" and not st[0]["semi"]:
            return canon(st[0]["e"])
        return "{..%d}" % len(st)
    if k == "if":
        return "if %s{%s}else{%s}" % (canon(e["cond"]), canon(e["then"]), canon(e["else"]))
    if k == "letcond":
        return "let %s=%s" % (pat_text(e["pat"]), canon(e["e"]))
    if k == "match":
        return "match %s{%s}" % (canon(e["e"]), ",".join("%s=>%s" % (pat_text(a["pat"]), canon(a["body"])) for a in e["arms"]))
    if k == "closure":
        return "|%s|%s" % (",".join(pat_text(p) for p in e["params"]), canon(e["body"]))
    if k == "struct":
        return "%s{%s}" % (e["path"], ",".join("%s:%s" % (f["name"], canon(f["e"])) for f in e["fields"]))
    if k == "assign":
        return "%s=%s" % (canon(e["l"]), canon(e["r"]))
    if k == "repeat":
        return "[%s;%s]" % (canon(e["e"]), canon(e["n"]))
    if k == "unsafe":
        return "unsafe" + canon(e["block"])
    return "<%s>" % k


def mkpath(p):
    return {"k": "path", "p": p, "generics": [], "qself": None, "line": 0}


# ------------------------------------------------------------------------------------------------
# Rust format strings
# ------------------------------------------------------------------------------------------------
_SPEC_RX = re.compile(
    r"^(?:(?P<fill>.)?(?P<align>[<^>]))?(?P<sign>[+-])?(?P<alt>#)?(?P<zero>0)?(?P<width>\d+|[A-Za-z_]\w*\$|\d+\$)?"
    r"(?:\.(?P<prec>\d+|\*|[A-Za-z_]\w*\$|\d+\$))?(?P<ty>\?|x\?|X\?|[A-Za-z]\w*)?$", re.S)


def parse_format(fmt):
    """-> list of ('lit', str) and ('arg', which, spec) with which = ('next',) | ('pos', n) | ('name', ident)"""
    out = []
    buf = []
    i = 0
    n = len(fmt)
    while i < n:
        c = fmt[i]
        if c == "{":
            if i + 1 < n and fmt[i + 1] == "{":
                buf.append("{")
                i += 2
                continue
            j = fmt.find("}", i)
            if j < 0:
                raise Unsupported("format string: unmatched '{' in %r" % fmt)
            inner = fmt[i + 1:j]
            if "{" in inner:
                raise Unsupported("format string: nested '{' in %r" % fmt)
            arg, _, spec = inner.partition(":")
            arg = arg.strip()
            spec = spec.rstrip()
            m = _SPEC_RX.match(spec)
            if not m:
                raise Unsupported("format spec not understood: %r" % spec)
            if "$" in (m.group("width") or "") or "$" in (m.group("prec") or "") or m.group("prec") == "*":
                raise Unsupported("format spec with argument-supplied width/precision: %r" % spec)
            if arg == "":
                which = ("next",)
            elif arg.isdigit():
                which = ("pos", int(arg))
            elif re.match(r"^[A-Za-z_]\w*$", arg):
                which = ("name", arg)
            else:
                raise Unsupported("format argument not understood: %r" % arg)
            if buf:
                out.append(("lit", "".join(buf)))
                buf = []
            out.append(("arg", which, spec))
            i = j + 1
            continue
        if c == "}":
            if i + 1 < n and fmt[i + 1] == "}":
                buf.append("}")
                i += 2
                continue
            raise Unsupported("format string: unmatched '}' in %r" % fmt)
        buf.append(c)
        i += 1
    if buf:
        out.append(("lit", "".join(buf)))
    return out


# ------------------------------------------------------------------------------------------------
# template nodes
# ------------------------------------------------------------------------------------------------
def _show_bytes(b):
    s = []
    for c in b:
        if c == 0x1b:
            s.append("ESC")
        elif c == 0x5c:
            s.append("\\")
        elif 32 <= c < 127:
            s.append(chr(c))
        else:
            s.append("\\x%02x" % c)
    return "".join(s)


class T:
    def text(self):
        raise NotImplementedError

    def __repr__(self):
        return self.text()


class Lit(T):
    def __init__(self, data):
        self.data = bytes(data)

    def text(self):
        return _show_bytes(self.data)


class Hole(T):
    def __init__(self, text, spec, node=None, written=None, line=None):
        self.expr = text
        self.spec = spec
        self.node = node
        self.written = written if written is not None else text
        self.line = line

    def text(self):
        return "{%s%s}" % (self.expr, (":" + self.spec) if self.spec else "")


class Raw(T):
    def __init__(self, text, node=None, line=None):
        self.expr = text
        self.node = node
        self.line = line

    def text(self):
        return "{%s|raw}" % self.expr


class Call(T):
    def __init__(self, name, recv, args, node=None, sink_pos=None, recv_node=None, line=None):
        self.name = name
        self.recv = recv
        self.args = args          # resolved nodes of the non-sink arguments, in order (None at the sink position)
        self.node = node
        self.sink_pos = sink_pos
        self.recv_node = recv_node
        self.line = line

    def text(self):
        return "<%s%s(%s)>" % ((self.recv + ".") if self.recv else "", self.name,
                              ",".join("SINK" if a is None else canon(a) for a in self.args))


class Fail(T):
    def __init__(self, text, line=None):
        self.expr = text
        self.line = line

    def text(self):
        return "<fail:%s>" % self.expr


class Exit(T):
    def text(self):
        return "<exit>"


class Jump(T):
    def __init__(self, kind):
        self.kind = kind

    def text(self):
        return "<%s>" % self.kind


class Seq(T):
    def __init__(self, items=()):
        self.items = []
        for it in items:
            if isinstance(it, Seq):
                self.items.extend(it.items)
            elif it is not None:
                self.items.append(it)

    def text(self):
        return "".join(i.text() for i in self.items)


class Scope(T):
    def __init__(self, body, name=""):
        self.body = body
        self.name = name

    def text(self):
        return self.body.text()


class Alt(T):
    def __init__(self, branches, line=None):
        self.branches = branches      # [(Pred, Template)]
        self.line = line

    def text(self):
        return "(" + " | ".join("[%s] %s" % (pred_text(p), t.text()) for p, t in self.branches) + ")"


class Star(T):
    def __init__(self, body, iter_text, names=None, kind="for", iter_node=None, line=None):
        self.body = body
        self.iter_text = iter_text
        self.names = names or {}
        self.kind = kind
        self.iter_node = iter_node
        self.line = line

    def text(self):
        return "(%s)*<%s>" % (self.body.text(), self.iter_text)


class Join(T):
    def __init__(self, over, sep, item, star=None, line=None):
        self.over = over
        self.sep = sep
        self.item = item
        self.star = star
        self.line = line

    def text(self):
        return "join<%s>(%s; sep=%s)" % (self.over, self.item.text(), self.sep.text())


def is_empty(t):
    """no atom at all (not even Fail/Exit)"""
    if isinstance(t, Seq):
        return all(is_empty(i) for i in t.items)
    if isinstance(t, Scope):
        return is_empty(t.body)
    if isinstance(t, Alt):
        return all(is_empty(b) for _, b in t.branches)
    return False


def atoms_in(t, into_loops=True):
    """all atoms of a template tree, any path (Lit, Hole, Raw, Call, Fail, Exit, Jump, Star, Join)"""
    out = []

    def go(x):
        if isinstance(x, Seq):
            for i in x.items:
                go(i)
        elif isinstance(x, Scope):
            go(x.body)
        elif isinstance(x, Alt):
            for _, b in x.branches:
                go(b)
        elif isinstance(x, Star):
            out.append(x)
            if into_loops:
                go(x.body)
        elif isinstance(x, Join):
            out.append(x)
            if into_loops:
                go(x.sep)
                go(x.item)
        else:
            out.append(x)
    go(t)
    return out


def writes(t):
    """does any path of t write (Lit/Hole/Raw/Call/Star/Join)?"""
    return any(isinstance(a, (Lit, Hole, Raw, Call, Star, Join)) for a in atoms_in(t))


# ------------------------------------------------------------------------------------------------
# predicates over case variables
# ------------------------------------------------------------------------------------------------
TRUE = ("true",)
FALSE = ("false",)


def p_var(key, values):
    return ("var", key, frozenset(values))


def p_and(ps):
    ps = [p for p in ps if p != TRUE]
    if any(p == FALSE for p in ps):
        return FALSE
    if not ps:
        return TRUE
    return ps[0] if len(ps) == 1 else ("and", tuple(ps))


def p_or(ps):
    ps = [p for p in ps if p != FALSE]
    if any(p == TRUE for p in ps):
        return TRUE
    if not ps:
        return FALSE
    return ps[0] if len(ps) == 1 else ("or", tuple(ps))


def p_not(p):
    if p == TRUE:
        return FALSE
    if p == FALSE:
        return TRUE
    if p[0] == "not":
        return p[1]
    return ("not", p)


def pred_eval(p, val):
    k = p[0]
    if k == "true":
        return True
    if k == "false":
        return False
    if k == "var":
        return val[p[1]] in p[2]
    if k == "not":
        return not pred_eval(p[1], val)
    if k == "and":
        return all(pred_eval(q, val) for q in p[1])
    if k == "or":
        return any(pred_eval(q, val) for q in p[1])
    raise ValueError(p)


def pred_vars(p, out):
    k = p[0]
    if k == "var":
        out.setdefault(p[1], set()).update(p[2])
    elif k == "not":
        pred_vars(p[1], out)
    elif k in ("and", "or"):
        for q in p[1]:
            pred_vars(q, out)


def pred_text(p):
    k = p[0]
    if k in ("true", "false"):
        return "else" if k == "true" else "never"
    if k == "var":
        return "%s in {%s}" % (p[1], ",".join(sorted(p[2])))
    if k == "not":
        return "!(%s)" % pred_text(p[1])
    return (" && " if k == "and" else " || ").join("(%s)" % pred_text(q) for q in p[1])


def cmp_key(a, b):
    """canonical key and orientation for comparing a with b: returns (key, flipped)"""
    la = bool(re.match(r"^-?\d+$", a))
    lb = bool(re.match(r"^-?\d+$", b))
    if la and not lb:
        return "c:%s,%s" % (b, a), True
    if lb and not la:
        return "c:%s,%s" % (a, b), False
    if a <= b:
        return "c:%s,%s" % (a, b), False
    return "c:%s,%s" % (b, a), True


_CMP = {"<": {"lt"}, "<=": {"lt", "eq"}, ">": {"gt"}, ">=": {"gt", "eq"}, "==": {"eq"}, "!=": {"lt", "gt"}}
_FLIP = {"lt": "gt", "gt": "lt", "eq": "eq"}


def cond_pred(e):
    """predicate of a (resolved) boolean expression; returns (pred, bindings)"""
    k = e.get("k")
    if k == "un" and e["op"] == "!":
        p, _ = cond_pred(e["e"])
        return p_not(p), {}
    if k == "bin" and e["op"] == "&&":
        pl, bl = cond_pred(e["l"])
        pr, br = cond_pred(e["r"])
        bl.update(br)
        return p_and([pl, pr]), bl
    if k == "bin" and e["op"] == "||":
        pl, _ = cond_pred(e["l"])
        pr, _ = cond_pred(e["r"])
        return p_or([pl, pr]), {}
    if k == "bin" and e["op"] in _CMP:
        key, flipped = cmp_key(canon(e["l"]), canon(e["r"]))
        vals = _CMP[e["op"]]
        if flipped:
            vals = {_FLIP[v] for v in vals}
        return p_var(key, vals), {}
    if k == "lit" and e["t"] == "bool":
        return (TRUE if e["v"] else FALSE), {}
    if k == "letcond":
        return pat_pred(e["pat"], e["e"])
    if k == "macro" and e["short"] == "matches" and e.get("extra", {}).get("pat"):
        p, _ = pat_pred(e["extra"]["pat"], e["extra"]["scrutinee"])
        if e["extra"].get("guard"):
            raise Unsupported("matches! with a guard in a branch condition")
        return p, {}
    if k == "block" and len(e["stmts"]) == 1 and e["stmts"][0]["k"] == "expr" and not e["stmts"][0]["semi"]:
        return cond_pred(e["stmts"][0]["e"])
    return p_var("b:" + canon(e), {"T"}), {}


def _variant_name(path):
    return path.split("::")[-1]


def pat_pred(pat, scrut):
    """predicate `scrut matches pat` and bindings name -> place node.  scrut is a resolved expression node;
    `x.cmp(&y)` scrutinees with Ordering patterns become comparison variables; tuple expressions are matched
    element-wise."""
    k = pat.get("k")
    if k == "wild" or k == "rest":
        return TRUE, {}
    if k == "ident":
        b = {}
        if not pat.get("mut") and not pat.get("by_ref"):
            b[pat["name"]] = scrut
        else:
            b[pat["name"]] = None
        if pat.get("sub"):
            p, b2 = pat_pred(pat["sub"], scrut)
            b.update(b2)
            return p, b
        # a bare identifier that is actually a unit variant/const cannot be told apart here; upper-case
        # initial is treated as a variant (rustc warns on lower-case variants / upper-case bindings)
        if pat["name"][:1].isupper():
            return p_var("v:" + canon(scrut), {pat["name"]}), {}
        return TRUE, b
    if k == "ref":
        return pat_pred(pat["pat"], scrut)
    if k == "or":
        ps = []
        for c in pat["cases"]:
            p, b = pat_pred(c, scrut)
            if b:
                raise Unsupported("or-pattern with bindings")
            ps.append(p)
        return p_or(ps), {}
    if k == "lit":
        if _is_lit(pat["e"]) and pat["e"]["t"] == "bool":
            # `match flag { true => .., false => .. }` asks the question `if flag` asks: same case variable
            p, _ = cond_pred(scrut)
            return (p if pat["e"]["v"] else p_not(p)), {}
        return p_var("v:" + canon(scrut), {canon(pat["e"])}), {}
    if k == "path":
        name = _variant_name(pat["p"])
        if scrut.get("k") == "mcall" and scrut["m"] == "cmp" and len(scrut["args"]) == 1 and name in ("Less", "Equal", "Greater"):
            key, flipped = cmp_key(canon(scrut["recv"]), canon(scrut["args"][0]))
            v = {"Less": "lt", "Equal": "eq", "Greater": "gt"}[name]
            if flipped:
                v = _FLIP[v]
            return p_var(key, {v}), {}
        return p_var("v:" + canon(scrut), {name}), {}
    if k == "tuple":
        if scrut.get("k") == "tuple" and len(scrut["elems"]) == len(pat["elems"]) and not any(p.get("k") == "rest" for p in pat["elems"]):
            ps, bs = [], {}
            for sp, se in zip(pat["elems"], scrut["elems"]):
                p, b = pat_pred(sp, se)
                ps.append(p)
                bs.update(b)
            return p_and(ps), bs
        ps, bs = [], {}
        for i, sp in enumerate(pat["elems"]):
            if sp.get("k") == "rest":
                raise Unsupported("rest in tuple pattern")
            p, b = pat_pred(sp, {"k": "field", "e": scrut, "name": str(i), "line": 0})
            ps.append(p)
            bs.update(b)
        return p_and(ps), bs
    if k == "tstruct":
        name = _variant_name(pat["path"])
        ps = [p_var("v:" + canon(scrut), {name})]
        bs = {}
        for i, sp in enumerate(pat["elems"]):
            if sp.get("k") == "rest":
                break
            p, b = pat_pred(sp, {"k": "field", "e": scrut, "name": str(i), "line": 0})
            ps.append(p)
            bs.update(b)
        return p_and(ps), bs
    if k == "struct":
        name = _variant_name(pat["path"])
        ps = [p_var("v:" + canon(scrut), {name})] if name != "Self" else []
        bs = {}
        for f in pat["fields"]:
            p, b = pat_pred(f["pat"], {"k": "field", "e": scrut, "name": f["name"], "line": 0})
            ps.append(p)
            bs.update(b)
        return p_and(ps), bs
    raise Unsupported("pattern kind %s in a branch that writes" % k)


def irrefutable_bindings(pat, init):
    """bindings of a `let` pattern (the refutability predicate is ignored: `let` patterns are irrefutable)"""
    try:
        _, b = pat_pred(pat, init)
    except Unsupported:
        b = {n: None for n in pat_names(pat)}
    return b


def pat_names(pat):
    out = []

    def f(n, parents):
        if n.get("k") == "ident" and "name" in n and "by_ref" in n:
            out.append(n["name"])
    walk(pat, f)
    return out


# ------------------------------------------------------------------------------------------------
# extraction
# ------------------------------------------------------------------------------------------------
PURE_METHODS = {
    "unwrap_or", "unwrap_or_default", "is_some", "is_none", "is_empty", "len", "iter", "enumerate", "height", "width", "size",
    "cmp", "as_bytes", "as_str", "as_ref", "clone", "cloned", "copied", "map", "contains", "underline", "to_rgba", "chunks",
    "hash", "shape", "data", "get", "into_iter", "to_string", "as_slice", "min", "max", "eq", "ne", "is_ok", "is_err", "rev",
    "zip", "first", "last", "saturating_sub", "wrapping_sub", "checked_sub", "abs", "unsigned_abs", "kind",
}
WRITE_MACROS = ("write", "writeln")
DIVERGING_MACROS = ("panic", "unreachable", "todo", "unimplemented")
ASSIGN_OPS = ("+=", "-=", "*=", "/=", "%=", "^=", "&=", "|=", "<<=", ">>=")


def sink_params(fn_item):
    gen = re.sub(r"\s+", "", fn_item["sig"].get("generics") or "")
    out = []
    for p in fn_item["sig"]["inputs"]:
        ty = p.get("ty", "")
        if p["name"] == "self" or not p.get("pat"):
            continue
        nm = p["pat"].get("name")
        if nm is None:
            continue
        base = re.sub(r"^&(mut)?", "", ty)
        if re.search(r"(?:^|dyn|impl|[^A-Za-z])Write(?![A-Za-z])|Formatter", ty) or re.search(r"[<,]%s:[^,>]*Write" % re.escape(base), gen):
            out.append(nm)
    return out


def _places(node):
    """canonical texts of the maximal path/field chains inside node"""
    out = set()

    def f(n, parents):
        if n.get("k") in ("path", "field") and "by_ref" not in n:
            par = parents[-1] if parents else None
            if par is not None and par.get("k") == "field" and par.get("e") is n:
                return
            out.add(canon(n))
    walk(node, f)
    return out


def _overlap(a, b):
    return a == b or a.startswith(b + ".") or b.startswith(a + ".") or a.startswith(b + "[") or b.startswith(a + "[")


class Extractor:
    def __init__(self, src, file, fn_item, sinks=None, env=None, depth=0):
        self.src = src
        self.file = file
        self.fn = fn_item
        self.sinks = set(sinks if sinks is not None else sink_params(fn_item))
        if not self.sinks:
            raise Unsupported("no sink parameter in %s" % fn_item.get("name"))
        self.env0 = dict(env or {})
        self.depth = depth
        self.mutated = self._mutated(fn_item["body"])

    # ---- stability of substituted expressions ---------------------------------------------------
    def _mutated(self, body):
        mut = set()

        def f(n, parents):
            k = n.get("k")
            if k == "assign":
                mut.add(canon(n["l"]))
            elif k == "bin" and n["op"] in ASSIGN_OPS:
                mut.add(canon(n["l"]))
            elif k == "ref" and n.get("mut") and "pat" not in n:
                mut.add(canon(n["e"]))
            elif k == "mcall" and n["m"] not in PURE_METHODS:
                mut.add(canon(n["recv"]))
            elif k == "ident" and n.get("mut") and "by_ref" in n:
                mut.add(n["name"])
            elif k == "let" and n.get("pat", {}).get("k") == "ident" and n["pat"].get("mut"):
                mut.add(n["pat"]["name"])
        walk(body, f)
        for p in self.fn["sig"]["inputs"]:
            if p.get("pat") and p["pat"].get("mut") and p["pat"].get("name"):
                mut.add(p["pat"]["name"])
        mut -= set(self.sinks)
        # a method call on bare `self` does not by itself make every field unstable: handled by the
        # receiver type of the callee when it can be found
        if "self" in mut:
            if self._self_calls_all_shared(body):
                mut.discard("self")
        return mut

    def _self_calls_all_shared(self, body):
        ok = [True]
        impl_self = self._impl_self()

        def f(n, parents):
            if n.get("k") == "mcall" and canon(n["recv"]) == "self" and n["m"] not in PURE_METHODS:
                r = self.src.fn(n["m"], impl_self=re.escape(impl_self)) if impl_self else None
                if r is None:
                    ok[0] = False
                    return
                inp = r[1]["sig"]["inputs"]
                if not inp or inp[0]["name"] != "self" or inp[0]["ty"].replace(" ", "") != "&self":
                    ok[0] = False
        walk(body, f)
        return ok[0]

    def _impl_self(self):
        for (f, s, tr, it, t) in self.src.fns:
            if it is self.fn:
                return s
        return None

    def _encode_scratch(self, let_stmt, name, init, stmts):
        """`name` (bound by let_stmt of the block stmts to an array literal / repeat) is mentioned in the rest of the block
        only as `&mut name`, the sole argument of an `encode_utf8` method call, and is not rebound there"""
        n = init
        while isinstance(n, dict) and n.get("k") == "paren":
            n = n["e"]
        if not isinstance(n, dict) or n.get("k") not in ("repeat", "array"):
            return False
        if let_stmt.get("pat", {}).get("k") != "ident" or let_stmt["pat"].get("by_ref") or let_stmt["pat"].get("sub") or let_stmt.get("else") is not None:
            return False
        idx = next((i for i, s in enumerate(stmts) if s is let_stmt), None)
        if idx is None:
            return False
        ok = [True]
        uses = [0]

        def f(x, parents):
            k = x.get("k")
            if k == "path" and x.get("p") == name:
                par = parents[-1] if parents else None
                gp = parents[-2] if len(parents) > 1 else None
                if par is not None and par.get("k") == "ref" and par.get("mut") and par.get("e") is x and gp is not None and \
                        gp.get("k") == "mcall" and gp.get("m") == "encode_utf8" and len(gp.get("args") or []) == 1 and gp["args"][0] is par:
                    uses[0] += 1
                else:
                    ok[0] = False
            elif k == "ident" and x.get("name") == name:
                ok[0] = False           # rebound (shadowing / closure parameter): keep it simple, refuse
            elif k == "macro" and x.get("args") is None and re.search(r"(?<![\w.])%s(?!\w)" % re.escape(name), x.get("tokens", "")):
                ok[0] = False
        walk(stmts[idx + 1:], f)
        return ok[0] and uses[0] > 0

    def stable(self, node):
        for p in _places(node):
            for m in self.mutated:
                if _overlap(p, m):
                    return False
        return True

    # ---- substitution ---------------------------------------------------------------------------
    def resolve(self, node, env):
        if node is None:
            return None
        if isinstance(node, list):
            return [self.resolve(x, env) for x in node]
        if not isinstance(node, dict):
            return node
        k = node.get("k")
        if k == "path" and "by_ref" not in node and "::" not in node.get("p", "") and node.get("p") in env and env[node["p"]] is not None:
            return env[node["p"]]
        if k == "closure":
            inner = dict(env)
            for p in node["params"]:
                for nm in pat_names(p):
                    inner.pop(nm, None)
            out = dict(node)
            out["body"] = self.resolve(node["body"], inner)
            return out
        if k == "macro" and node.get("args") is None and node.get("short") == "matches" and node.get("extra"):
            out = dict(node)
            ex = dict(node["extra"])
            ex["scrutinee"] = self.resolve(ex.get("scrutinee"), env)
            out["extra"] = ex
            return out
        out = {}
        for key, v in node.items():
            if key in ("tokens", "pat", "params"):
                out[key] = v
            elif isinstance(v, (dict, list)):
                out[key] = self.resolve(v, env)
            else:
                out[key] = v
        return out

    # ---- sinks ----------------------------------------------------------------------------------
    def is_sink(self, e):
        while isinstance(e, dict) and (e.get("k") == "ref" or (e.get("k") == "un" and e["op"] == "*")):
            e = e["e"]
        return isinstance(e, dict) and e.get("k") == "path" and e["p"] in self.sinks

    def mentions_sink(self, node):
        hit = [False]

        def f(n, parents):
            if n.get("k") == "path" and "by_ref" not in n and n.get("p") in self.sinks:
                hit[0] = True
            if n.get("k") == "macro" and n.get("args") is None:
                for s in self.sinks:
                    if re.search(r"(?<![\w.])%s(?!\w)" % re.escape(s), n.get("tokens", "")):
                        hit[0] = True
        walk(node, f)
        return hit[0]

    # ---- entry points ---------------------------------------------------------------------------
    def template(self):
        t = self.block(self.fn["body"]["stmts"], dict(self.env0))
        if any(isinstance(a, Jump) for a in atoms_in(t)):
            raise Unsupported("break/continue outside a loop")
        return Scope(t, self.fn["name"])

    def match_arms(self, scrutinee):
        found = None
        for st in self.fn["body"]["stmts"]:
            e = st.get("e") if st["k"] == "expr" else None
            if e is not None and e.get("k") == "match" and canon(e["e"]) == scrutinee:
                if found is not None:
                    raise Unsupported("two statement-level matches on %s" % scrutinee)
                found = e
                continue
            if st["k"] == "item":
                continue
            node = st.get("e") if st["k"] == "expr" else st.get("init")
            if node is not None and self.mentions_sink(node):
                raise Unsupported("statement outside `match %s` writes to the sink" % scrutinee)
        if found is None:
            raise Unsupported("no statement-level `match %s`" % scrutinee)
        return found

    def arm_template(self, pat, body, place_node):
        _, b = pat_pred(pat, place_node)
        env = dict(self.env0)
        for nm, v in b.items():
            env[nm] = v
            if v is None:
                env.pop(nm, None)
        t = self.expr(body, env)
        if any(isinstance(a, Jump) for a in atoms_in(t)):
            raise Unsupported("break/continue outside a loop")
        return Scope(t, pat_text(pat))

    # ---- statements -----------------------------------------------------------------------------
    def block(self, stmts, env):
        env = dict(env)
        items = []
        peeled = None
        for si, st in enumerate(stmts):
            k = st["k"]
            if k == "item":
                continue
            if peeled is st:
                continue                # consumed together with the `let` in front of it (see _peeled_join)
            if k == "let":
                pj = self._peeled_join(stmts, si, env)
                if pj is not None:
                    items.append(pj)
                    peeled = stmts[si + 1]
                    continue
                init = st.get("init")
                if init is not None and self.is_sink(init) and st["pat"].get("k") == "ident":
                    self.sinks.add(st["pat"]["name"])
                    continue
                if init is not None:
                    items.append(self.expr(init, env))
                rinit = self.resolve(init, env) if init is not None else None
                if st.get("else") is not None:
                    p, b = pat_pred(st["pat"], rinit)
                    et = self.expr(st["else"], env)
                    items.append(Alt([(p, Seq()), (TRUE, Seq([et, Exit()]))], line=st.get("line")))
                else:
                    b = irrefutable_bindings(st["pat"], rinit) if rinit is not None else {n: None for n in pat_names(st["pat"])}
                for nm, v in b.items():
                    if v is not None and self.stable(v) and nm not in self.mutated:
                        env[nm] = v
                    elif rinit is not None and st["pat"].get("k") == "ident" and st["pat"].get("name") == nm and \
                            self.stable(rinit) and self._encode_scratch(st, nm, rinit, stmts):
                        v = rinit
                        # `let mut buf = [0u8; N]` used only as the output buffer of char::encode_utf8: what it held before a
                        # call is never read (the returned str covers exactly the bytes that call wrote), so the binding
                        # stands for its initialiser wherever it is mentioned
                        env[nm] = v
                    else:
                        env.pop(nm, None)
                continue
            if k == "expr":
                items.append(self.expr(st["e"], env))
                continue
            raise Unsupported("statement kind %s" % k)
        return Seq(items)

    # ---- expressions ----------------------------------------------------------------------------
    def expr(self, e, env):
        if e is None:
            return Seq()
        k = e.get("k")
        if k == "try":
            inner = e["e"]
            t = self.expr(inner, env)
            if self._is_sink_op(inner):
                return t
            return Seq([t, Fail(canon(self.resolve(inner, env)), line=e.get("line"))])
        if k == "macro":
            return self._macro(e, env)
        if k == "mcall":
            return self._mcall(e, env)
        if k == "call":
            if any(self.is_sink(a) for a in e["args"]):
                return self._call(e, canon(e["f"]), None, e["args"], env)
            return self._children(e, env)
        if k == "if":
            return self._if(e, env)
        if k == "match":
            return self._match(e, env)
        if k == "block":
            if e.get("label"):
                raise Unsupported("labelled block")
            return self.block(e["stmts"], env)
        if k == "unsafe":
            return self.block(e["block"]["stmts"], env)
        if k in ("for", "while", "loop"):
            return self._loop(e, env)
        if k == "return":
            return Seq([self.expr(e.get("e"), env), Exit()])
        if k in ("break", "continue"):
            return Seq([self.expr(e.get("e"), env) if k == "break" else Seq(), Jump(k)])
        if k == "closure":
            if self.mentions_sink(e["body"]):
                raise Unsupported("closure captures the sink")
            return Seq()
        if k == "path":
            if "by_ref" not in e and e.get("p") in self.sinks:
                raise Unsupported("sink `%s` used in an unsupported position (line %s)" % (e["p"], e.get("line")))
            return Seq()
        if k == "lit":
            return Seq()
        if k == "other":
            if any(re.search(r"(?<![\w.])%s(?!\w)" % re.escape(s), e.get("tokens", "")) for s in self.sinks):
                raise Unsupported("unparsed expression mentions the sink")
            return Seq()
        return self._children(e, env)

    def _children(self, e, env):
        items = []
        for key, v in e.items():
            if key in ("tokens", "pat", "params", "extra"):
                continue
            if isinstance(v, dict) and "k" in v:
                items.append(self.expr(v, env))
            elif isinstance(v, list):
                for x in v:
                    if isinstance(x, dict) and "k" in x:
                        items.append(self.expr(x, env))
                    elif isinstance(x, dict) and isinstance(x.get("e"), dict):
                        items.append(self.expr(x["e"], env))
        return Seq(items)

    def _is_sink_op(self, e):
        k = e.get("k")
        if k == "macro" and e["short"] in WRITE_MACROS and e.get("args") and self.is_sink(e["args"][0]):
            return True
        if k == "mcall" and (self.is_sink(e["recv"]) or any(self.is_sink(a) for a in e["args"])):
            return True
        if k == "mcall" and e["m"] in ("for_each", "try_for_each") and len(e["args"]) == 1 and e["args"][0].get("k") == "closure" \
                and self.mentions_sink(e["args"][0]["body"]) and not self.mentions_sink(e["recv"]):
            return True          # the loop `iter.try_for_each(|x| write!(sink, ..))`: its error is the sink's
        if k == "call" and any(self.is_sink(a) for a in e["args"]):
            return True
        return False

    # ---- write!/writeln! ------------------------------------------------------------------------
    def _macro(self, e, env):
        short = e["short"]
        args = e.get("args")
        if short in WRITE_MACROS and args and self.is_sink(args[0]):
            t = self._format(args[1:], env, e)
            if short == "writeln":
                t = Seq([t, Lit(b"\n")])
            return t
        if short in DIVERGING_MACROS:
            return Exit()
        if args is None:
            if self.mentions_sink(e):
                raise Unsupported("macro %s! mentions the sink" % e["name"])
            return Seq()
        items = []
        for a in args:
            items.append(self.expr(a, env))
        return Seq(items)

    def _format(self, args, env, e):
        if not args or not (_is_lit(args[0]) and args[0]["t"] == "str"):
            raise Unsupported("write! without a literal format string (line %s)" % e.get("line"))
        pieces = parse_format(args[0]["v"])
        pos, named = [], {}
        for a in args[1:]:
            if a.get("k") == "assign" and a["l"].get("k") == "path":
                named[a["l"]["p"]] = a["r"]
            else:
                if named:
                    raise Unsupported("positional format argument after a named one")
                pos.append(a)
        for a in pos + list(named.values()):
            if self.mentions_sink(a):
                raise Unsupported("format argument mentions the sink")
        items = []
        nxt = 0
        used = set()
        for p in pieces:
            if p[0] == "lit":
                items.append(Lit(p[1].encode("utf-8")))
                continue
            which, spec = p[1], p[2]
            if which[0] == "next":
                idx = nxt
                nxt += 1
                if idx >= len(pos):
                    raise Unsupported("format string has more `{}` than arguments")
                node = pos[idx]
                used.add(idx)
            elif which[0] == "pos":
                if which[1] >= len(pos):
                    raise Unsupported("format argument index out of range")
                node = pos[which[1]]
                used.add(which[1])
            else:
                node = named.get(which[1]) or mkpath(which[1])
                node = dict(node)
                node.setdefault("line", e.get("line"))
            items.append(self._hole(node, spec, env, e.get("line")))
        if len(used) != len(pos):
            raise Unsupported("unused positional format arguments")
        return Seq(items)

    def _value_alt(self, node, leaf):
        """if/match expression whose branch values are all accepted by `leaf` -> Alt; else None"""
        k = node.get("k")
        if k == "block" and len(node["stmts"]) == 1 and node["stmts"][0]["k"] == "expr" and not node["stmts"][0]["semi"]:
            return self._value_alt(node["stmts"][0]["e"], leaf)
        if k == "if" and node.get("else") is not None:
            p, b = cond_pred(node["cond"])
            if b:
                return None
            a = self._value_alt(node["then"], leaf)
            c = self._value_alt(node["else"], leaf)
            if a is None or c is None:
                return None
            return Alt([(p, a), (TRUE, c)], line=node.get("line"))
        if k == "match":
            br = []
            for arm in node["arms"]:
                if arm.get("guard") is not None:
                    return None
                p, b = pat_pred(arm["pat"], node["e"])
                if b:
                    return None
                v = self._value_alt(arm["body"], leaf)
                if v is None:
                    return None
                br.append((p, v))
            return Alt(br, line=node.get("line"))
        return leaf(node)

    def _hole(self, node, spec, env, line):
        r = self.resolve(node, env)
        written = canon(node)

        def leaf(n):
            while n.get("k") == "ref":
                n = n["e"]
            if spec == "":
                n = self._const_lit(n, ("str",))
            if spec == "" and _is_lit(n):
                if n["t"] == "str":
                    return Lit(n["v"].encode("utf-8"))
                if n["t"] == "int":
                    return Lit(str(int(n["v"])).encode())
                if n["t"] == "char":
                    return Lit(chr(n["v"]).encode("utf-8"))
            return None
        v = self._value_alt(r, leaf)
        if v is not None:
            return v
        return Hole(canon(r), spec, node=r, written=written, line=line)

    def _const_lit(self, n, kinds):
        """a path naming a `const`/`static` item whose initialiser is a string / byte-string literal denotes that literal
        (`const CSI: &[u8] = b"\\x1b["; out.write_all(CSI)` writes the same bytes as `out.write_all(b"\\x1b[")`); anything else is returned unchanged"""
        if not isinstance(n, dict) or n.get("k") != "path" or "by_ref" in n:
            return n
        segs = n["p"].split("::")
        name = segs[-1]
        owner = segs[-2] if len(segs) > 1 and segs[-2] not in ("self", "super", "crate") else None
        if owner == "Self":
            owner = self._impl_self()
        hit = None
        if owner is not None and not owner.islower():
            hit = self.src.const(name, impl_self=owner)
        elif owner is None or owner.islower():
            hit = self.src.const(name, file=self.file) if len(segs) == 1 else None
            if hit is None:
                cands = [(f, it) for (f, s_, it, t) in self.src.consts if it["name"] == name and not t and s_ is None]
                hit = cands[0] if len(cands) == 1 else None
        if hit is None:
            return n
        e = hit[1].get("expr")
        while isinstance(e, dict) and e.get("k") in ("ref", "paren"):
            e = e["e"]
        if _is_lit(e) and e["t"] in kinds:
            return e
        if "bytestr" in kinds and isinstance(e, dict) and e.get("k") == "mcall" and e["m"] == "as_bytes" and not e["args"] and _is_lit(e["recv"]) and e["recv"]["t"] == "str":
            return e
        return n

    def _bytes_value(self, arg, env, line):
        r = self.resolve(arg, env)

        def leaf(n):
            while n.get("k") == "ref":
                n = n["e"]
            n = self._const_lit(n, ("bytestr",))
            if _is_lit(n) and n["t"] == "bytestr":
                return Lit(bytes(n["v"]))
            if n.get("k") == "mcall" and n["m"] == "as_bytes" and _is_lit(n["recv"]) and n["recv"]["t"] == "str":
                return Lit(n["recv"]["v"].encode("utf-8"))
            if n.get("k") == "array" and n["elems"] and all(_is_lit(x) and x["t"] in ("byte", "int") for x in n["elems"]):
                return Lit(bytes(int(x["v"]) for x in n["elems"]))
            return None
        v = self._value_alt(r, leaf)
        if v is not None:
            return v
        return Raw(canon(r), node=r, line=line)

    # ---- method calls / helper calls ------------------------------------------------------------
    def _mcall(self, e, env):
        if self.is_sink(e["recv"]):
            m = e["m"]
            for a in e["args"]:
                if self.mentions_sink(a):
                    raise Unsupported("sink passed to its own method")
            if m == "write_all" and len(e["args"]) == 1:
                return self._bytes_value(e["args"][0], env, e.get("line"))
            if m == "flush" and not e["args"]:
                return Seq()
            if m == "write_fmt" and len(e["args"]) == 1 and e["args"][0].get("k") == "macro" and e["args"][0]["short"] == "format_args" and e["args"][0].get("args"):
                return self._format(e["args"][0]["args"], env, e)
            raise Unsupported("method `%s` on the sink (line %s)" % (m, e.get("line")))
        if any(self.is_sink(a) for a in e["args"]):
            t = self.expr(e["recv"], env)
            return Seq([t, self._call(e, e["m"], e["recv"], e["args"], env)])
        if e["m"] in ("for_each", "try_for_each") and len(e["args"]) == 1 and e["args"][0].get("k") == "closure" \
                and len(e["args"][0].get("params") or []) == 1 and self.mentions_sink(e["args"][0]["body"]) and not self.mentions_sink(e["recv"]):
            # `iter.try_for_each(|x| write!(sink, ..))` / `iter.for_each(|x| ..)` is the loop `for x in iter { .. }`
            cl = e["args"][0]
            body = cl["body"]
            if body.get("k") != "block":
                body = {"k": "block", "line": body.get("line"), "stmts": [{"k": "expr", "e": body, "semi": False, "line": body.get("line")}]}
            return self._loop({"k": "for", "pat": cl["params"][0], "iter": e["recv"], "body": body, "line": e.get("line")}, env)
        return self._children(e, env)

    def _call(self, e, name, recv, args, env):
        rargs = []
        sink_pos = None
        for i, a in enumerate(args):
            if self.is_sink(a):
                if sink_pos is not None:
                    raise Unsupported("sink passed twice")
                sink_pos = i
                rargs.append(None)
            else:
                if self.mentions_sink(a):
                    raise Unsupported("argument mentions the sink")
                rargs.append(self.resolve(a, env))
        rrecv = self.resolve(recv, env) if recv is not None else None
        return Call(name, canon(rrecv) if rrecv is not None else None, rargs, node=e, sink_pos=sink_pos, recv_node=rrecv, line=e.get("line"))

    # ---- branching ------------------------------------------------------------------------------
    def _if(self, e, env):
        cond = e["cond"]
        if self.mentions_sink(cond):
            raise Unsupported("condition mentions the sink")
        rc = self.resolve(cond, env)
        p, b = cond_pred(rc)
        env_then = dict(env)
        for nm, v in b.items():
            if v is not None and self.stable(v):
                env_then[nm] = v
            else:
                env_then.pop(nm, None)
        # names bound by an if-let shadow outer bindings
        if cond.get("k") == "letcond":
            for nm in pat_names(cond["pat"]):
                if nm not in b:
                    env_then.pop(nm, None)
        ct = self._nonwriting(cond, env)
        tt = self.block(e["then"]["stmts"], env_then)
        et = self.expr(e.get("else"), env) if e.get("else") is not None else Seq()
        if is_empty(tt) and is_empty(et):
            return ct
        return Seq([ct, Alt([(p, tt), (TRUE, et)], line=e.get("line"))])

    def _nonwriting(self, node, env):
        t = self.expr(node, env)
        if writes(t):
            raise Unsupported("condition/scrutinee writes to the sink")
        return t

    def _match(self, e, env):
        if self.mentions_sink(e["e"]):
            raise Unsupported("scrutinee mentions the sink")
        st = self._nonwriting(e["e"], env)
        rs = self.resolve(e["e"], env)
        br = []
        for arm in e["arms"]:
            arm_env = dict(env)
            try:
                p, b = pat_pred(arm["pat"], rs)
            except Unsupported:
                # pattern outside the subset: acceptable only if the arm does not write
                for nm in pat_names(arm["pat"]):
                    arm_env.pop(nm, None)
                t = self.expr(arm["body"], arm_env)
                if not is_empty(t):
                    raise
                p, b = p_var("b:%s is %s" % (canon(rs), pat_text(arm["pat"])), {"T"}), {}
                br.append((p, t))
                continue
            for nm in pat_names(arm["pat"]):
                arm_env.pop(nm, None)
            for nm, v in b.items():
                if v is not None and self.stable(v):
                    arm_env[nm] = v
            if arm.get("guard") is not None:
                g, gb = cond_pred(self.resolve(arm["guard"], arm_env))
                if gb:
                    raise Unsupported("if-let guard")
                p = p_and([p, g])
            br.append((p, self.expr(arm["body"], arm_env)))
        if all(is_empty(t) for _, t in br):
            return st
        return Seq([st, Alt(br, line=e.get("line"))])

    # ---- loops ----------------------------------------------------------------------------------
    def _as_flag_join(self, star, loop):
        """`let mut first = true; for x in over { if !first { SEP } first = false; ITEM }` is the separator idiom too: Join(over, SEP, ITEM).
        Accepted only when the flag is declared once as `let mut F = true`, is assigned nowhere but in this loop, only `F = false`, on every
        iteration (a top-level statement of the loop body, or inside the leading `if F { .. }`), and is never borrowed mutably."""
        parts = _flag_join_parts(star)
        if parts is None:
            return None
        name, sep, rest = parts
        lets, assigns, bad = [], [], [False]

        def f(n, parents):
            k = n.get("k")
            if k == "let" and n.get("pat", {}).get("k") == "ident" and n["pat"].get("name") == name:
                lets.append(n)
            elif k == "ident" and "by_ref" in n and n.get("name") == name and not (parents and parents[-1].get("k") == "let" and parents[-1].get("pat") is n):
                bad[0] = True          # bound again by another pattern
            elif k == "assign" and canon(n["l"]) == name:
                assigns.append((n, parents))
            elif k == "bin" and n["op"] in ASSIGN_OPS and canon(n["l"]) == name:
                bad[0] = True
            elif k == "ref" and n.get("mut") and "pat" not in n and canon(n["e"]) == name:
                bad[0] = True
        walk(self.fn["body"], f)
        if bad[0] or len(lets) != 1 or not lets[0]["pat"].get("mut") or not (_is_lit(lets[0].get("init")) and lets[0]["init"]["t"] == "bool" and lets[0]["init"]["v"] is True):
            return None
        if not assigns:
            return None
        every_iteration = False
        stmts = loop["body"]["stmts"]
        lead_if = stmts[0]["e"] if stmts and stmts[0]["k"] == "expr" and stmts[0]["e"].get("k") == "if" else None
        for n, parents in assigns:
            if not any(x is loop["body"] for x in parents):
                return None
            if not (_is_lit(n["r"]) and n["r"]["t"] == "bool" and n["r"]["v"] is False):
                return None
            holder = parents[-1]
            if len(parents) >= 2 and parents[-2] is loop["body"] and any(st is holder for st in stmts):
                every_iteration = True          # `F = false;` as a statement of the loop body itself
            elif lead_if is not None and canon(lead_if["cond"]) == name and len(parents) >= 3 and parents[-3] is lead_if and parents[-2] is lead_if["then"]:
                every_iteration = True          # `if F { F = false; } else { SEP }`
        if not every_iteration:
            return None
        return Join(star.iter_text, sep, rest, star=star, line=star.line)

    def _peeled_join(self, stmts, i, env):
        """The separator idiom with the first iteration peeled off:
            let mut IT = OVER;  if let Some(P) = IT.next() { ITEM(P); for Q in IT { SEP; ITEM(Q) } }
        (also as `match IT.next() { Some(P) => {..}, None | _ => {} }`) writes ITEM for every element of OVER with SEP between two of
        them, nothing for an empty OVER: Join(OVER, SEP, ITEM), the value of `for (i, x) in OVER.enumerate() { if i != 0 { SEP } ITEM }`.
        Accepted only when IT is mentioned nowhere else in the function (exactly the `.next()` and the loop iterator, directly after its
        `let`), the None side does nothing, and the template of the peeled statements equals a suffix of the loop body's template with the
        pattern bound to the loop's item; the rest of the loop body (in front of it) is the separator and must write."""
        st = stmts[i]
        pat, init = st.get("pat") or {}, st.get("init")
        if pat.get("k") != "ident" or pat.get("by_ref") or pat.get("sub") or st.get("else") is not None or init is None or i + 1 >= len(stmts):
            return None
        name = pat["name"]
        nx = stmts[i + 1]
        e = nx.get("e") if nx["k"] == "expr" else None
        if not isinstance(e, dict):
            return None

        def nothing(x):
            while isinstance(x, dict) and x.get("k") == "paren":
                x = x["e"]
            return x is None or (x.get("k") == "block" and not x.get("label") and not x["stmts"]) or (x.get("k") == "tuple" and not x["elems"])

        def some_pat(p):
            if p.get("k") == "tstruct" and _variant_name(p["path"]) == "Some" and len(p["elems"]) == 1 and p["elems"][0].get("k") != "rest":
                return p["elems"][0]
            return None

        if e.get("k") == "if" and e["cond"].get("k") == "letcond" and nothing(e.get("else")):
            head, scrut, then = some_pat(e["cond"]["pat"]), e["cond"]["e"], e["then"]["stmts"]
        elif e.get("k") == "match" and len(e["arms"]) == 2 and not any(a.get("guard") for a in e["arms"]):
            arms = sorted(e["arms"], key=lambda a: some_pat(a["pat"]) is None)
            other = arms[1]["pat"]
            is_none = other.get("k") == "wild" or (other.get("k") in ("path", "ident") and _variant_name(other.get("p") or other.get("name") or "") == "None")
            if some_pat(arms[0]["pat"]) is None or not is_none or not nothing(arms[1]["body"]):
                return None
            body = arms[0]["body"]
            if body.get("k") != "block" or body.get("label"):
                return None
            head, scrut, then = some_pat(arms[0]["pat"]), e["e"], body["stmts"]
        else:
            return None
        if head is None or not (scrut.get("k") == "mcall" and scrut["m"] == "next" and not scrut["args"] and canon(scrut["recv"]) == name):
            return None
        if len(then) < 2 or then[-1]["k"] != "expr" or then[-1]["e"].get("k") != "for":
            return None
        loop = then[-1]["e"]
        it = loop["iter"]
        if it.get("k") == "mcall" and it["m"] in ("by_ref", "into_iter") and not it["args"]:
            it = it["recv"]
        if not (it.get("k") == "path" and "by_ref" not in it and it.get("p") == name) or self.mentions_sink(init):
            return None
        uses, binds, opaque = [0], [0], [False]
        heads = set(pat_names(head))

        def f(n, parents):
            k = n.get("k")
            if k == "path" and "by_ref" not in n and n.get("p") == name:
                uses[0] += 1
            elif k == "ident" and "by_ref" in n and n.get("name") == name:
                binds[0] += 1
            elif k == "macro" and n.get("args") is None and re.search(r"(?<![\w.])%s(?!\w)" % re.escape(name), n.get("tokens", "")):
                opaque[0] = True
        walk(self.fn["body"], f)
        if uses[0] != 2 or binds[0] != 1 or opaque[0]:
            return None
        in_loop = [False]

        def g(n, parents):
            if n.get("k") == "path" and "by_ref" not in n and n.get("p") in heads:
                in_loop[0] = True
        walk(loop["body"], g)
        if in_loop[0]:
            return None
        try:
            whole = dict(loop)
            whole["iter"] = init
            env_loop = {k: v for k, v in env.items() if k not in heads}
            lt = self._loop(whole, env_loop)
            parts = lt.items if isinstance(lt, Seq) else [lt]
            if not parts or type(parts[-1]) is not Star or writes(Seq(parts[:-1])):
                return None
            star = parts[-1]
            self.depth += 1
            try:
                item_name = "#item" + ("" if self.depth == 1 else str(self.depth))
                env_first = dict(env_loop)
                for nm, v in irrefutable_bindings(head, mkpath(item_name)).items():
                    if v is not None:
                        env_first[nm] = v
                first = self.block(then[:-1], env_first)
            finally:
                self.depth -= 1
        except Unsupported:
            return None
        body = star.body.items if isinstance(star.body, Seq) else [star.body]
        if not writes(first) or any(isinstance(a, (Exit, Jump)) for a in atoms_in(first)):
            return None
        for k in range(1, len(body)):
            sep, rest = Seq(body[:k]), Seq(body[k:])
            if rest.text() != first.text():
                continue
            if not writes(sep) or any(isinstance(a, (Hole, Raw)) and re.search(r"(?<![\w#])%s(?!\w)" % re.escape(item_name), a.expr) for a in atoms_in(sep)):
                return None
            return Seq(parts[:-1] + [Join(star.iter_text, sep, rest, star=star, line=star.line)])
        return None

    def _loop(self, e, env):
        k = e["k"]
        self.depth += 1
        try:
            sfx = "" if self.depth == 1 else str(self.depth)
            body_env = dict(env)
            names = {}
            pre = Seq()
            iter_text = ""
            iter_node = None
            enumerated = False
            if k == "for":
                if self.mentions_sink(e["iter"]):
                    raise Unsupported("loop iterator mentions the sink")
                pre = self._nonwriting(e["iter"], env)
                iter_node = self.resolve(e["iter"], env)
                core = iter_node
                if core.get("k") == "mcall" and core["m"] == "enumerate" and not core["args"]:
                    enumerated = True
                    core = core["recv"]
                while core.get("k") == "mcall" and core["m"] in ("iter", "into_iter", "iter_mut") and not core["args"]:
                    core = core["recv"]
                iter_text = canon(core)
                pat = e["pat"]
                for nm in pat_names(pat):
                    body_env.pop(nm, None)
                item = mkpath("#item" + sfx)
                if enumerated and pat.get("k") == "tuple" and len(pat["elems"]) == 2:
                    ip, vp = pat["elems"]
                    if ip.get("k") == "ident" and not ip.get("mut"):
                        body_env[ip["name"]] = mkpath("#index" + sfx)
                        names["index"] = ip["name"]
                    for nm, v in irrefutable_bindings(vp, item).items():
                        if v is not None:
                            body_env[nm] = v
                    names["item"] = pat_text(vp)
                else:
                    if enumerated:
                        item = mkpath("#pair" + sfx)
                    for nm, v in irrefutable_bindings(pat, item).items():
                        if v is not None:
                            body_env[nm] = v
                    names["item"] = pat_text(pat)
            elif k == "while":
                if self.mentions_sink(e["cond"]):
                    raise Unsupported("loop condition mentions the sink")
                pre = self._nonwriting(e["cond"], env)
                iter_text = "while " + canon(self.resolve(e["cond"], env))
                if e["cond"].get("k") == "letcond":
                    for nm in pat_names(e["cond"]["pat"]):
                        body_env.pop(nm, None)
            else:
                iter_text = "loop"
            # names assigned inside the loop body are not stable across iterations: already in self.mutated
            body = self.block(e["body"]["stmts"], body_env)
            ats = atoms_in(body, into_loops=False)
            if not writes(body):
                if any(isinstance(a, Exit) for a in ats):
                    raise Unsupported("loop without writes that may return early")
                fails = [a for a in ats if isinstance(a, Fail)]
                if fails:
                    return Seq([pre, Star(Seq(fails), iter_text, names, kind=k, iter_node=iter_node, line=e.get("line"))])
                return pre
            if any(isinstance(a, (Exit, Jump)) for a in ats):
                raise Unsupported("break/continue/return inside a loop that writes (line %s)" % e.get("line"))
            star = Star(body, iter_text, names, kind=k, iter_node=iter_node, line=e.get("line"))
            star.enumerated = enumerated
            j = as_join(star, "#index" + sfx) if enumerated else None
            if j is None and k == "for" and not enumerated:
                j = self._as_flag_join(star, e)
            return Seq([pre, j if j is not None else star])
        finally:
            self.depth -= 1


def _flag_join_parts(star):
    """(flag name, sep, rest) when the loop body starts with `if !FLAG { SEP }` / `if FLAG {} else { SEP }` and FLAG is a plain identifier"""
    body = star.body
    items = body.items if isinstance(body, Seq) else [body]
    if not items or not isinstance(items[0], Alt) or len(items[0].branches) != 2:
        return None
    (p1, t1), (p2, t2) = items[0].branches
    if p2 != TRUE:
        return None
    if p1[0] == "not" and p1[1][0] == "var" and p1[1][2] == frozenset({"T"}):
        key, sep, first = p1[1][1], t1, t2
    elif p1[0] == "var" and p1[2] == frozenset({"T"}):
        key, sep, first = p1[1], t2, t1
    else:
        return None
    if not re.match(r"^b:[A-Za-z_]\w*$", key) or not is_empty(first) or not writes(sep):
        return None
    rest = Seq(items[1:])
    vs = {}
    collect_vars(rest, vs, deep=True)
    collect_vars(sep, vs, deep=True)
    if key in vs:
        return None
    return key[2:], sep, rest


def as_join(star, index_name):
    """`for (i, x) in over.enumerate() { if i != 0 { SEP } ITEM }` -> Join(over, SEP, ITEM)"""
    body = star.body
    items = body.items if isinstance(body, Seq) else [body]
    if not items or not isinstance(items[0], Alt):
        return None
    alt = items[0]
    if len(alt.branches) != 2:
        return None
    (p1, t1), (p2, t2) = alt.branches
    key = "c:%s,0" % index_name
    if p2 != TRUE:
        return None
    if p1 == p_var(key, {"lt", "gt"}) or p1 == p_var(key, {"gt"}):
        sep, first = t1, t2
    elif p1 == p_var(key, {"eq"}):
        sep, first = t2, t1
    else:
        return None
    if not is_empty(first) or not writes(sep):
        return None
    rest = Seq(items[1:])
    for a in atoms_in(rest) + atoms_in(sep):
        if isinstance(a, (Hole, Raw)) and re.search(r"(?<![\w#])%s(?!\w)" % re.escape(index_name), a.expr):
            return None
    vs = {}
    collect_vars(rest, vs, deep=True)
    if key in vs:
        return None
    return Join(star.iter_text, sep, rest, star=star, line=star.line)


# ------------------------------------------------------------------------------------------------
# tree rewriting
# ------------------------------------------------------------------------------------------------
def map_atoms(t, fn):
    """copy of template t with every leaf atom a (Lit/Hole/Raw/Call/Fail/Exit/Jump) replaced by fn(a) (return a itself to keep it)"""
    if isinstance(t, Seq):
        return Seq([map_atoms(i, fn) for i in t.items])
    if isinstance(t, Scope):
        return Scope(map_atoms(t.body, fn), t.name)
    if isinstance(t, Alt):
        return Alt([(p, map_atoms(b, fn)) for p, b in t.branches], line=t.line)
    if isinstance(t, Star):
        s = Star(map_atoms(t.body, fn), t.iter_text, t.names, kind=t.kind, iter_node=t.iter_node, line=t.line)
        if hasattr(t, "enumerated"):
            s.enumerated = t.enumerated
        return s
    if isinstance(t, Join):
        return Join(t.over, map_atoms(t.sep, fn), map_atoms(t.item, fn), star=t.star, line=t.line)
    return fn(t)


def map_preds(t, fn):
    """copy of template t with every branch predicate p replaced by fn(p)"""
    if isinstance(t, Seq):
        return Seq([map_preds(i, fn) for i in t.items])
    if isinstance(t, Scope):
        return Scope(map_preds(t.body, fn), t.name)
    if isinstance(t, Alt):
        return Alt([(fn(p), map_preds(b, fn)) for p, b in t.branches], line=t.line)
    if isinstance(t, Star):
        s = Star(map_preds(t.body, fn), t.iter_text, t.names, kind=t.kind, iter_node=t.iter_node, line=t.line)
        if hasattr(t, "enumerated"):
            s.enumerated = t.enumerated
        return s
    if isinstance(t, Join):
        return Join(t.over, map_preds(t.sep, fn), map_preds(t.item, fn), star=t.star, line=t.line)
    return t


_VARIANT_PATH = re.compile(r"^(?:[A-Za-z_]\w*::)+([A-Z]\w*)$")


def variant_eq_as_match(t):
    """`x == Enum::V` asks what `matches!(x, Enum::V)` / a `match x { Enum::V => .. }` arm asks: comparison variables `c:<x>,<Enum::V>` restricted
    to {eq} (or its complement) become the variant variable `v:<x>` in {V}, so that both spellings meet in one case variable"""
    def fn(p):
        k = p[0]
        if k == "var" and p[1].startswith("c:"):
            a, _, b = p[1][2:].rpartition(",")
            if _VARIANT_PATH.match(a) and not _VARIANT_PATH.match(b):
                a, b = b, a          # equality is symmetric; the key is sorted textually
            m = _VARIANT_PATH.match(b)
            if m and a and not re.match(r"^-?\d+$", a):
                if p[2] == frozenset({"eq"}):
                    return p_var("v:" + a, {m.group(1)})
                if p[2] == frozenset({"lt", "gt"}):
                    return p_not(p_var("v:" + a, {m.group(1)}))
            return p
        if k == "not":
            return p_not(fn(p[1]))
        if k in ("and", "or"):
            return (p_and if k == "and" else p_or)([fn(q) for q in p[1]])
        return p
    return map_preds(t, fn)


def _utf8_buf_fits(n):
    """the buffer argument of char::encode_utf8 certainly holds any character (>= 4 bytes): `&mut [x; N]` / `&mut [a, b, c, d]`"""
    while isinstance(n, dict) and n.get("k") in ("ref", "paren"):
        n = n["e"]
    if not isinstance(n, dict):
        return False
    if n.get("k") == "repeat":
        ln = n["n"]
        return ln.get("k") == "lit" and ln.get("t") == "int" and int(ln["v"]) >= 4
    if n.get("k") == "array":
        return len(n["elems"]) >= 4
    return False


def str_bytes_as_display(t, is_str, is_char=None):
    """`sink.write_all(X.as_bytes())` writes exactly the bytes `write!(sink, "{}", X)` writes when X is a str / String:
    Raw(`X.as_bytes()`) -> Hole(X, "") for every X accepted by is_str(canonical text of X, node of X).
    With is_char, the same for a char C: `C.encode_utf8(&mut [0; N>=4]).as_bytes()`, `C.to_string().as_bytes()`,
    `String::from(C).as_bytes()` are the UTF-8 encoding of C, which is what Display of a char writes."""
    def strip(n):
        while isinstance(n, dict) and n.get("k") in ("ref", "paren"):
            n = n["e"]
        return n

    def subject(n):
        """node X such that the str expression n has the bytes of Display(X), or None"""
        n = strip(n)
        if not isinstance(n, dict):
            return None
        if is_str(canon(n), n):
            return n
        if is_char is not None and is_char(canon(n), n):
            return None             # a char is not a str: only through the conversions below
        if n.get("k") == "mcall":
            r = strip(n["recv"])
            if n["m"] in ("as_str", "as_ref", "to_owned", "to_string", "clone", "borrow", "as_mut_str", "deref") and not n["args"]:
                if n["m"] == "to_string" and is_char is not None and is_char(canon(r), r):
                    return r
                return subject(r)
            if n["m"] == "encode_utf8" and len(n["args"]) == 1 and is_char is not None and is_char(canon(r), r) and _utf8_buf_fits(n["args"][0]):
                return r
        if n.get("k") == "call" and len(n.get("args") or []) == 1 and n["f"].get("k") == "path" and \
                re.sub(r"\s", "", n["f"].get("p", "")) in ("String::from", "std::string::String::from", "string::String::from"):
            a0 = strip(n["args"][0])
            if is_char is not None and is_char(canon(a0), a0):
                return a0
            return subject(a0)
        return None

    def fn(a):
        if isinstance(a, Raw) and isinstance(a.node, dict):
            n = strip(a.node)
            if n.get("k") == "mcall" and n["m"] in ("as_bytes", "as_bytes_mut", "into_bytes") and not n["args"]:
                x = subject(n["recv"])
                if x is not None:
                    return Hole(canon(x), "", node=x, written=a.expr, line=a.line)
        if isinstance(a, Hole) and a.spec == "" and is_char is not None and isinstance(a.node, dict):
            # `{}` of the str made from a char (`c.encode_utf8(..)`, `c.to_string()`) is `{}` of the char
            n = strip(a.node)
            if not is_str(canon(n), n) and not is_char(canon(n), n):
                x = subject(n)
                if x is not None and is_char(canon(x), x):
                    return Hole(canon(x), "", node=x, written=a.written, line=a.line)
        return a
    return map_atoms(t, fn)


# ------------------------------------------------------------------------------------------------
# inlining of helper calls
# ------------------------------------------------------------------------------------------------
def inline_calls(t, resolver, src, depth=0, budget=8):
    """Replace Call atoms by the callee template where resolver(call) gives (file, fn_item)."""
    if budget < 0:
        raise Unsupported("helper inlining too deep (recursion?)")

    def go(x):
        if isinstance(x, Seq):
            return Seq([go(i) for i in x.items])
        if isinstance(x, Scope):
            return Scope(go(x.body), x.name)
        if isinstance(x, Alt):
            return Alt([(p, go(b)) for p, b in x.branches], line=x.line)
        if isinstance(x, Star):
            s = Star(go(x.body), x.iter_text, x.names, kind=x.kind, iter_node=x.iter_node, line=x.line)
            return s
        if isinstance(x, Join):
            return Join(x.over, go(x.sep), go(x.item), star=x.star, line=x.line)
        if isinstance(x, Call):
            r = resolver(x)
            if r is None:
                return x
            file, fn = r
            params = [p for p in fn["sig"]["inputs"]]
            env = {}
            sinks = []
            has_self = bool(params) and params[0]["name"] == "self"
            if has_self:
                if x.recv_node is None:
                    raise Unsupported("method %s called without receiver" % x.name)
                env["self"] = x.recv_node
                params = params[1:]
            elif x.recv_node is not None:
                raise Unsupported("receiver given to a free function %s" % x.name)
            if len(params) != len(x.args):
                raise Unsupported("arity mismatch inlining %s" % x.name)
            for p, a in zip(params, x.args):
                nm = p.get("pat", {}).get("name") if p.get("pat") else None
                if nm is None:
                    raise Unsupported("parameter pattern of %s" % x.name)
                if a is None:
                    sinks.append(nm)
                elif not p["pat"].get("mut"):
                    env[nm] = a
            ex = Extractor(src, file, fn, sinks=sinks, env=env, depth=depth)
            # `self` of the callee is the caller's receiver expression: its fields are as stable as the callee says
            ct = ex.template()
            return inline_calls(ct, resolver, src, depth, budget - 1)
        return x
    return go(t)


# ------------------------------------------------------------------------------------------------
# evaluation under a valuation of the case variables
# ------------------------------------------------------------------------------------------------
def collect_vars(t, out, deep=False):
    if isinstance(t, Seq):
        for i in t.items:
            collect_vars(i, out, deep)
    elif isinstance(t, Scope):
        collect_vars(t.body, out, deep)
    elif isinstance(t, Alt):
        for p, b in t.branches:
            pred_vars(p, out)
            collect_vars(b, out, deep)
    elif deep and isinstance(t, Star):
        collect_vars(t.body, out, deep)
    elif deep and isinstance(t, Join):
        collect_vars(t.sep, out, deep)
        collect_vars(t.item, out, deep)
    return out


def domain(key, mentioned):
    if key.startswith("b:"):
        return ["T", "F"]
    if key.startswith("c:"):
        return ["lt", "eq", "gt"]
    return sorted(mentioned) + ["*"]


def valuations(ts, limit=20000):
    vs = {}
    for t in ts:
        collect_vars(t, vs)
    keys = sorted(vs)
    doms = [domain(k, vs[k]) for k in keys]
    n = 1
    for d in doms:
        n *= len(d)
    if n > limit:
        raise Unsupported("too many branch valuations (%d) over %s" % (n, keys))
    for combo in itertools.product(*doms):
        yield dict(zip(keys, combo))


def evaluate(t, val):
    """flat atom list of the path selected by `val` (Lits merged; Star/Join kept as atoms); raises Undefined"""
    out = []

    def go(x):
        # returns True when the enclosing scope is exited
        if isinstance(x, Seq):
            for i in x.items:
                if go(i):
                    return True
            return False
        if isinstance(x, Scope):
            go(x.body)
            return False
        if isinstance(x, Alt):
            for p, b in x.branches:
                if pred_eval(p, val):
                    return go(b)
            raise Undefined()
        if isinstance(x, Exit):
            out.append(x)
            return True
        if isinstance(x, Lit):
            if not x.data:
                return False
            if out and isinstance(out[-1], Lit):
                out[-1] = Lit(out[-1].data + x.data)
            else:
                out.append(Lit(x.data))
            return False
        out.append(x)
        return False
    go(t)
    return out


def val_text(val):
    return ", ".join("%s=%s" % (k, v) for k, v in sorted(val.items())) or "always"


class Mismatch:
    def __init__(self, shape, val, expected, actual, detail=""):
        self.shape = shape
        self.val = val
        self.expected = expected
        self.actual = actual
        self.detail = detail

    def __repr__(self):
        return "%s under [%s]: expected %s, found %s %s" % (self.shape, val_text(self.val), self.expected, self.actual, self.detail)


def seq_text(atoms):
    return "".join(a.text() for a in atoms) or "(nothing)"


def _strip(atoms):
    return [a for a in atoms if not isinstance(a, (Fail, Exit))]


def compare(code, ref):
    """Mismatch records between a code template and a reference template, or a list of alternative reference
    templates (any_of): for every valuation of the case variables of all of them on which the code and at least
    one alternative are defined, the code's atom list must equal the atom list of some alternative.  Returns
    (mismatches, number of valuations compared); the mismatches reported are those against the closest alternative."""
    refs = ref if isinstance(ref, (list, tuple)) else [ref]
    res = []
    seen = set()
    n = 0
    for val in valuations([code] + list(refs)):
        try:
            ca = _strip(evaluate(code, val))
        except Undefined:
            continue
        best = None
        defined = False
        for r in refs:
            try:
                ra = _strip(evaluate(r, val))
            except Undefined:
                continue
            defined = True
            ms = compare_atoms(ca, ra, val)
            if not ms:
                best = []
                break
            if best is None:
                best = ms
        if not defined:
            continue
        n += 1
        for m in best:
            k = (m.shape, m.expected, m.actual)
            if k not in seen:
                seen.add(k)
                res.append(m)
    return res, n


def _norm_hole(e):
    """`x.saturating_add(N)` prints the same numeral as `x+N` wherever the latter is defined (it only cannot overflow)"""
    prev = None
    while prev != e:
        prev = e
        e = re.sub(r"([\w$.\[\]]+)\.saturating_add\((\d+)\)", r"(\1+\2)", e)
    return e


def hole_equiv(c, r, val):
    """semantic equality of two hole expressions under the branch valuation `val`"""
    c, r = _norm_hole(c), _norm_hole(r)
    if c == r:
        return True
    m = re.fullmatch(r"([\w$.\[\]]+)\.unsigned_abs\(\)", c)
    # the magnitude of a negative x: `-x` and `x.unsigned_abs()` agree (the latter also at MIN)
    if m and r == "-" + m.group(1) and (val or {}).get("c:%s,0" % m.group(1)) == "lt":
        return True
    return False


def compare_atoms(ca, ra, val):
    out = []
    for i in range(max(len(ca), len(ra))):
        if i >= len(ca) or i >= len(ra):
            out.append(Mismatch("structure", val, seq_text(ra), seq_text(ca), "(different number of pieces)"))
            return out
        c, r = ca[i], ra[i]
        if type(c) is not type(r):
            # a literal that is a prefix of the other side's literal is reported as literal difference
            out.append(Mismatch("literal" if isinstance(c, Lit) and isinstance(r, Lit) else "structure", val, seq_text(ra), seq_text(ca),
                                "(piece %d: %s vs %s)" % (i, r.text(), c.text())))
            return out
        if isinstance(c, Lit):
            if c.data != r.data:
                out.append(Mismatch("literal", val, seq_text(ra), seq_text(ca)))
                return out
        elif isinstance(c, Hole):
            if not hole_equiv(c.expr, r.expr, val):
                out.append(Mismatch("hole-expr", val, r.text(), c.text(), "in %s" % seq_text(ca)))
                return out
            if c.spec != r.spec:
                out.append(Mismatch("hole-spec", val, r.text(), c.text(), "in %s" % seq_text(ca)))
                return out
        elif isinstance(c, Raw):
            if c.expr != r.expr:
                out.append(Mismatch("hole-expr", val, r.text(), c.text(), "in %s" % seq_text(ca)))
                return out
        elif isinstance(c, Call):
            if c.name != r.name or [canon(a) if a is not None else None for a in c.args] != [canon(a) if a is not None else None for a in r.args]:
                out.append(Mismatch("structure", val, r.text(), c.text()))
                return out
        elif isinstance(c, Join):
            if r.over != "*" and c.over != r.over:
                out.append(Mismatch("hole-expr", val, r.text(), c.text(), "(joined collection)"))
                return out
            for a, b in ((c.sep, r.sep), (c.item, r.item)):
                ms, _ = compare(a, b)
                if ms:
                    return out + ms
        elif isinstance(c, Star):
            if r.iter_text != "*" and c.iter_text != r.iter_text:
                out.append(Mismatch("hole-expr", val, r.text(), c.text(), "(loop range)"))
                return out
            ms, _ = compare(c.body, r.body)
            if ms:
                return out + ms
    return out


# ------------------------------------------------------------------------------------------------
# reference templates (refs/*.json)
# ------------------------------------------------------------------------------------------------
def _ref_string(s):
    items = []
    buf = []
    i = 0
    while i < len(s):
        c = s[i]
        if c == "{":
            if s[i + 1:i + 2] == "{":
                buf.append("{")
                i += 2
                continue
            j = s.find("}", i)
            if j < 0:
                raise ValueError("reference template: unmatched { in %r" % s)
            inner = s[i + 1:j]
            if buf:
                items.append(Lit("".join(buf).encode("utf-8")))
                buf = []
            expr, _, spec = inner.rpartition("|") if "|" in inner else (inner, "", "")
            if spec == "raw":
                items.append(Raw(expr))
            else:
                items.append(Hole(expr, spec))
            i = j + 1
            continue
        if c == "}":
            if s[i + 1:i + 2] == "}":
                buf.append("}")
                i += 2
                continue
            raise ValueError("reference template: unmatched } in %r" % s)
        buf.append(c)
        i += 1
    if buf:
        items.append(Lit("".join(buf).encode("utf-8")))
    return Seq(items)


def _ref_pred(w):
    if w == "else":
        return TRUE
    if not isinstance(w, dict):
        raise ValueError("reference condition must be \"else\" or {var: [values]}: %r" % (w,))
    return p_and([p_var(k, v) for k, v in sorted(w.items())])


def ref_template(j):
    """Row syntax:  "text {expr} {expr|spec} {expr|raw}"  (`{{` `}}` escape braces; expr is canonical text as printed
    by `canon`, e.g. `($.0.row+1)`) | [ ...sequence... ] | {"alt": [{"when": {var: [values]} | "else", "t": ...}]}
    | {"join": {"over": expr, "sep": ..., "item": ...}} | {"star": {"over": expr, "body": ...}} | {"call": name, "args": [..]}"""
    if isinstance(j, str):
        return _ref_string(j)
    if isinstance(j, list):
        return Seq([ref_template(x) for x in j])
    if isinstance(j, dict):
        if "alt" in j:
            return Alt([(_ref_pred(b["when"]), ref_template(b["t"])) for b in j["alt"]])
        if "join" in j:
            d = j["join"]
            return Join(d["over"], ref_template(d["sep"]), ref_template(d["item"]))
        if "star" in j:
            d = j["star"]
            return Star(ref_template(d["body"]), d["over"])
        if "call" in j:
            return Call(j["call"], j.get("recv"), [mkpath(a) if a is not None else None for a in j.get("args", [])])
    raise ValueError("reference template node not understood: %r" % (j,))


# ------------------------------------------------------------------------------------------------
# ECMA-48 framing of an atom list
# ------------------------------------------------------------------------------------------------
STRING_INTRO = {0x5d: "OSC", 0x50: "DCS", 0x5f: "APC", 0x5e: "PM", 0x58: "SOS"}


class Sequence:
    def __init__(self, kind):
        self.kind = kind          # CSI | OSC | DCS | APC | PM | SOS | ESC | TEXT
        self.parts = []           # bytes / atoms of the content (without introducer and terminator)
        self.final = b""
        self.terminator = b""

    def content_text(self):
        return "".join(p.decode("latin-1") if isinstance(p, bytes) else p.text() for p in self.parts)

    def __repr__(self):
        return "%s(%s%s)" % (self.kind, self.content_text(), self.final.decode("latin-1"))


def _body_bytes_ok(t, pred):
    """every literal byte in any path of template t satisfies pred; nested atoms other than Lit are accepted"""
    for a in atoms_in(t):
        if isinstance(a, Lit) and not all(pred(c) for c in a.data):
            return False
        if isinstance(a, (Call,)):
            return False
    return True


def split_sequences(atoms, nested_ground=None):
    """Parse a flat atom list (from `evaluate`) as a concatenation of complete control sequences and ground text.
    Holes inside a CSI are parameters; holes inside a control string are string content.  A Star/Join in ground
    state must itself consist of complete sequences on every valuation (checked recursively).  Returns the list
    of Sequence objects; raises Malformed with a short reason otherwise."""
    seqs = []
    state = "ground"
    cur = None
    esc_pending = False      # inside a control string, previous byte was ESC

    def push_text(part):
        if seqs and seqs[-1].kind == "TEXT" and cur is None:
            seqs[-1].parts.append(part)
        else:
            s = Sequence("TEXT")
            s.parts.append(part)
            seqs.append(s)

    for a in atoms:
        if isinstance(a, (Fail, Exit)):
            if state != "ground":
                raise Malformed("failure-exit-inside-sequence", "%s while in state %s" % (a.text(), state))
            continue
        if isinstance(a, Lit):
            for c in a.data:
                if state == "ground":
                    if c == 0x1b:
                        state = "esc"
                    elif c in (0x9b, 0x9d, 0x90, 0x9f):
                        raise Malformed("c1-8bit-introducer")
                    else:
                        push_text(bytes([c]))
                elif state == "esc":
                    if c == 0x5b:
                        cur = Sequence("CSI")
                        state = "csi-param"
                    elif c in STRING_INTRO:
                        cur = Sequence(STRING_INTRO[c])
                        state = "string"
                        esc_pending = False
                    elif 0x20 <= c <= 0x2f:
                        cur = Sequence("ESC")
                        cur.parts.append(bytes([c]))
                        state = "esc-inter"
                    elif c == 0x5c:
                        raise Malformed("stray-ST")
                    elif 0x30 <= c <= 0x7e:
                        cur = Sequence("ESC")
                        cur.final = bytes([c])
                        seqs.append(cur)
                        cur = None
                        state = "ground"
                    else:
                        raise Malformed("bad-byte-after-ESC", "0x%02x" % c)
                elif state == "esc-inter":
                    if 0x20 <= c <= 0x2f:
                        cur.parts.append(bytes([c]))
                    elif 0x30 <= c <= 0x7e:
                        cur.final = bytes([c])
                        seqs.append(cur)
                        cur = None
                        state = "ground"
                    else:
                        raise Malformed("bad-byte-in-escape", "0x%02x" % c)
                elif state in ("csi-param", "csi-inter"):
                    if 0x30 <= c <= 0x3f:
                        if state == "csi-inter":
                            raise Malformed("csi-param-after-intermediate")
                        cur.parts.append(bytes([c]))
                    elif 0x20 <= c <= 0x2f:
                        state = "csi-inter"
                        cur.parts.append(bytes([c]))
                    elif 0x40 <= c <= 0x7e:
                        cur.final = bytes([c])
                        seqs.append(cur)
                        cur = None
                        state = "ground"
                    else:
                        raise Malformed("bad-byte-in-CSI", "0x%02x" % c)
                elif state == "string":
                    if esc_pending:
                        if c == 0x5c:
                            cur.terminator = b"\x1b\\"
                            seqs.append(cur)
                            cur = None
                            state = "ground"
                            esc_pending = False
                        else:
                            raise Malformed("ESC-inside-string", "ESC 0x%02x inside %s" % (c, cur.kind))
                    elif c == 0x1b:
                        esc_pending = True
                    elif c == 0x07 and cur.kind == "OSC":
                        cur.terminator = b"\x07"
                        seqs.append(cur)
                        cur = None
                        state = "ground"
                    else:
                        cur.parts.append(bytes([c]))
            continue
        # non-literal atoms
        if state == "ground":
            if isinstance(a, (Star, Join)) and nested_ground is not None:
                nested_ground(a)
            push_text(a)
        elif state == "esc" or state == "esc-inter":
            raise Malformed("hole-directly-after-ESC")
        elif state == "csi-inter":
            raise Malformed("hole-after-CSI-intermediate")
        elif state == "csi-param":
            if isinstance(a, Hole):
                cur.parts.append(a)
            elif isinstance(a, (Join, Star)):
                bodies = [a.sep, a.item] if isinstance(a, Join) else [a.body]
                if not all(_body_bytes_ok(b, lambda c: 0x30 <= c <= 0x3f) for b in bodies):
                    raise Malformed("loop-inside-CSI-writes-non-parameter-bytes")
                cur.parts.append(a)
            else:
                raise Malformed("%s-inside-CSI" % type(a).__name__.lower())
        elif state == "string":
            if esc_pending:
                raise Malformed("hole-after-ESC-inside-string")
            if isinstance(a, (Join, Star)):
                bodies = [a.sep, a.item] if isinstance(a, Join) else [a.body]
                if not all(_body_bytes_ok(b, lambda c: c not in (0x1b, 0x07, 0x9c) and c >= 0x08) for b in bodies):
                    raise Malformed("loop-inside-string-writes-terminator-bytes")
            elif isinstance(a, Call):
                raise Malformed("unresolved-helper-inside-string")
            cur.parts.append(a)
    if state != "ground":
        raise Malformed("unterminated-%s" % (state.split("-")[0].upper() if state != "string" else cur.kind))
    return seqs
