"""Inductive struct invariants: assume at the entry of every method that receives `self`, prove at
every successful exit, at every call that hands `self` to a sibling method, at every literal
construction; the fields may only be written inside the struct's own methods.  Established invariants
become entry facts of the obligation analysis (sa/oblrules.py)."""
import re
from .discharge import Engine
from .flow import resolve_place, ok_return_blocks
from .mir import callee_name, op_local
from .absint import V, INF


def methods_of(prog, struct):
    out = []
    for b in prog.bodies:
        if b.kind != "AssocFn" or not b.impl_self:
            continue
        if re.sub(r"<.*$", "", b.impl_self) != struct:
            continue
        out.append(b)
    return out


def self_key(body):
    """key prefix of the receiver: '(*_1)' for &self / &mut self, '_1' for self by value, None otherwise"""
    if body.arg_count < 1:
        return None
    ty = body.local_ty(1)
    base = re.sub(r"<.*$", "", body.impl_self or "")
    if re.match(r"^&('\w+ )?(mut )?%s" % re.escape(base), ty):
        return "(*_1)"
    if ty.startswith(base):
        return "_1"
    return None


def entry_for(body, inv):
    k = self_key(body)
    if k is None:
        return None
    e = {"fields": {"%s.%s" % (k, f): itv for f, itv in inv.get("fields", {}).items()},
         "field_diffs": [("%s.%s" % (k, a), "%s.%s" % (k, b), d) for a, b, d in inv.get("diffs", [])]}
    return e


def holds(st, key, inv, an):
    """(ok, why) — does the invariant hold for the struct stored at `key` in state st"""
    for f, (lo, hi) in inv.get("fields", {}).items():
        v = st.vals.get("%s.%s" % (key, f))
        if v is None:
            return False, "field %s unknown" % f
        it = st.itv(v)
        if it[0] < lo or it[1] > hi:
            # try relational bound against other fields
            return False, "%s in [%s,%s] not within [%s,%s]" % (f, it[0], it[1], lo, hi)
    for a, b, d in inv.get("diffs", []):
        va, vb = st.vals.get("%s.%s" % (key, a)), st.vals.get("%s.%s" % (key, b))
        ta, tb = (st.term(va) if va else None), (st.term(vb) if vb else None)
        if ta is None or tb is None:
            return False, "%s/%s unknown" % (a, b)
        tb2 = ("c", tb[1] + d) if tb[0] == "c" else ("s", tb[1], tb[2] + d)
        if not st.le(ta, tb2):
            return False, "%s <= %s + %d not provable" % (a, b, d)
    return True, ""


def private_helpers(prog, ms):
    """{helper path: [(caller body, bb, call term)]}: crate-internal (not `pub`) inherent methods of the struct every use of which is a direct call from a
    method of the same struct (not from a closure, not mentioned as a value).  Such a method is not an entry point: what holds at its
    entry is what holds at its call sites, which need not be the whole invariant (a block split off the middle of a method)."""
    mpaths = {b.path: b for b in ms}
    cg = prog.callgraph()
    out = {}
    for h in ms:
        if h.impl_trait or not str(h.j.get("vis") or "").startswith("Restricted") or self_key(h) != "(*_1)":
            continue
        sites = []
        ok = True
        callers = set(cg.callers(h.path))
        if not callers:
            continue
        for c in callers:
            cb = mpaths.get(c)
            if cb is None or cb is h or self_key(cb) != "(*_1)":
                ok = False
                break
            cs = [(cb, bb, t) for bb, t in cb.calls() if callee_name(t) == h.path and t["args"]]
            if not cs:
                ok = False              # referenced otherwise than by a direct call
                break
            sites += cs
        if ok and sites:
            out[h.path] = sites
    return out


def call_site_entry(helper, sites, inv, analyses):
    """entry facts of a private helper: per invariant field the join of its interval over the call sites (receiver = the caller's own
    self), a difference bound only when it is provable at every site.  None if a site is not understood."""
    k = "(*_1)"
    fields, diffs, n = {}, {d: True for d in inv.get("diffs", [])}, 0
    for cb, bb, t in sites:
        an = analyses[cb.path]
        st = an.call_args.get(bb)
        if st is None:
            continue                    # unreachable call site
        a0 = an.eval_op(st.copy(), t["args"][0], "q")
        if a0.ref_to != k:
            return None
        n += 1
        for f in inv.get("fields", {}):
            v = st.vals.get("%s.%s" % (k, f))
            it = st.itv(v) if v is not None else (-INF, INF)
            cur = fields.get(f)
            fields[f] = it if cur is None else (min(cur[0], it[0]), max(cur[1], it[1]))
        for (a, b, d) in list(diffs):
            va, vb = st.vals.get("%s.%s" % (k, a)), st.vals.get("%s.%s" % (k, b))
            ta, tb = (st.term(va) if va else None), (st.term(vb) if vb else None)
            if ta is None or tb is None:
                diffs[(a, b, d)] = False
                continue
            tb2 = ("c", tb[1] + d) if tb[0] == "c" else ("s", tb[1], tb[2] + d)
            if not st.le(ta, tb2):
                diffs[(a, b, d)] = False
    if n == 0 or any(it[0] == -INF or it[1] == INF for it in fields.values()):
        return None
    return {"fields": {"%s.%s" % (k, f): it for f, it in fields.items()},
            "field_diffs": [("%s.%s" % (k, a), "%s.%s" % (k, b), d) for (a, b, d), okd in diffs.items() if okd]}



def establish(ctx, rule, struct, inv, check_err_exits=False):
    """returns (established: bool, entry_facts: {body path: entry})"""
    prog = ctx.prog
    ms = methods_of(prog, struct)
    ctx.rule(rule, "inductive invariant of %s: %s" % (struct, inv), floor=2)
    if not ms:
        ctx.anchor(rule, struct)
        return False, {}
    eng = Engine(prog, invariants={struct: inv})
    ok_all = True
    entries = {}
    fields = set(inv.get("fields", {}))
    # 1. writers outside the methods
    mpaths = {b.path for b in ms}
    for b in prog.bodies:
        root = b.closure_root or b.path
        if b.path in mpaths or root in mpaths:
            continue
        for i, si, s in b.assigns():
            rp = resolve_place(b, s["place"])
            m = re.search(r"\.(\w+)$", rp)
            if m and m.group(1) in fields:
                # type of the base must be the struct
                base_l = s["place"]["l"]
                tys = b.local_ty(base_l)
                if struct.split("::")[-1] in tys:
                    ok_all = False
                    ctx.violation(rule, b.path, "outside-write-" + m.group(1), "%s.%s is written outside the methods of %s: the invariant cannot be maintained locally" % (struct, m.group(1), struct), sites=["%s:%d" % (b.file, s["line"])])
    # 2. literal constructions
    n_lit = 0
    for b in prog.bodies:
        for bb, blk in enumerate(b.blocks):
            for si, s in enumerate(blk["stmts"]):
                if s["k"] != "assign":
                    continue
                rv = s["rv"]
                if rv["k"] == "agg" and rv["ak"] == "adt" and rv["adt"] == struct:
                    n_lit += 1
                    an = eng.analyze(b.path, entry_for(b, inv) if b in ms else None)
                    st = an.in_states.get(bb)
                    if st is None:
                        continue
                    st = st.copy()
                    for sj, s2 in enumerate(blk["stmts"][:si + 1]):
                        if s2["k"] == "assign":
                            an.do_assign(st, s2, bb, sj)
                    key = an.pkey(st, s["place"])
                    ok, why = holds(st, key, inv, an)
                    ctx.instance(rule, {"construction_in": b.path, "holds": ok, "why": why})
                    if not ok:
                        ok_all = False
                        ctx.violation(rule, b.path, "literal", "%s is constructed violating the invariant: %s" % (struct, why), sites=["%s:%d" % (b.file, s["line"])])
    if n_lit == 0:
        ctx.anchor(rule, struct + "/literal")
        ok_all = False
    # 3. methods preserve it
    # A private helper (every use a direct call from a sibling method) assumes what holds at its call sites instead of the invariant and
    # still has to establish the invariant where it returns successfully; callers are analysed before the helpers they call.
    helpers = private_helpers(prog, ms)
    order = [b for b in ms if b.path not in helpers]
    pending = [b for b in ms if b.path in helpers]
    while pending:
        ready = [h for h in pending if all(cb.path not in helpers or cb in order for cb, _, _ in helpers[h.path])]
        if not ready:                   # helpers calling each other in a cycle: treated as ordinary methods
            for h in pending:
                helpers.pop(h.path, None)
            order += pending
            break
        order += ready
        pending = [h for h in pending if h not in ready]
    analyses = {}
    for b in order:
        k = self_key(b)
        if k is None:
            continue
        e = entry_for(b, inv)
        if b.path in helpers:
            ce_ = call_site_entry(b, helpers[b.path], inv, analyses) if all(cb.path in analyses for cb, _, _ in helpers[b.path]) else None
            if ce_ is None:
                helpers.pop(b.path)
            else:
                e = ce_
                ctx.instance(rule, {"fn": b.path, "private_helper_entry": {f: list(it) for f, it in e["fields"].items()}, "call_sites": len(helpers[b.path])})
        entries[b.path] = e
        an = eng.analyze(b.path, e)
        analyses[b.path] = an
        mutable = b.local_ty(1).startswith("&mut") or b.local_ty(1).startswith("&'") and " mut " in b.local_ty(1)[:12]
        # calls handing self to sibling methods
        for bb, t in b.calls():
            cal = prog.body(callee_name(t) or "")
            if cal is None or cal not in ms or not t["args"]:
                continue
            st = an.call_args.get(bb)
            if st is None:
                continue
            a0 = an.eval_op(st.copy(), t["args"][0], "q")
            if a0.ref_to != k and not (a0.ref_to or "").startswith(k):
                continue
            if cal.path in helpers and a0.ref_to == k:
                continue                # its entry is the join of its call sites (below), not the invariant
            ok, why = holds(st, k, inv, an)
            ctx.instance(rule, {"fn": b.path, "at_call": cal.path, "line": t["line"], "holds": ok, "why": why})
            if not ok:
                ok_all = False
                ctx.violation(rule, b.path, "call-" + cal.name, "invariant of %s may not hold when %s is called: %s" % (struct, cal.path, why), sites=["%s:%d" % (b.file, t["line"])])
        if not mutable or k != "(*_1)":
            continue
        exits = set(ok_return_blocks(b))
        rty = b.local_ty(0)
        if not exits or not re.match(r"^std::(result::Result|option::Option)", rty) or check_err_exits:
            exits = set(an.cfg.returns)
        for r in sorted(exits):
            st = an.results.get(r)
            if st is None:
                continue
            ok, why = holds(st, k, inv, an)
            ctx.instance(rule, {"fn": b.path, "at_exit_block": r, "holds": ok, "why": why})
            if not ok:
                ok_all = False
                ctx.violation(rule, b.path, "exit", "%s does not re-establish the invariant of %s on a successful return: %s" % (b.path, struct, why), sites=[b.loc])
    return ok_all, entries
