"""C01 — incremental rendering: structural necessary conditions of the diffing protocol
(render.rs TerminalRenderer::{new,clear,frame}, terminal.rs Terminal::run_render)."""
import re
from ..mir import call_matches, callee_name, op_local, op_const_int, place_str
from ..flow import resolve_place, arg_place, origins, value_variants, ok_return_blocks, err_return_blocks, feasible_reach, expr

CLAIM = {
    "text": "Static necessary conditions of the diffing protocol decided on MIR for every path of TerminalRenderer::{new,clear,frame} and "
            "Terminal::run_render: forced-clear damage marking and its survival until the diff, skip-needs-not-damaged in both passes, image "
            "erase/damage/ignore pairing, buffer swap epilogue, frame-drop and resize paths, face/cursor reconciliation before every "
            "emission. The screen-model equivalence over histories of frames is not decided.",
    "technique": "MIR CFG/effect rules: must-pass-through, kill/liveness of the marks surface, edge-sensitive guard analysis, who-writes",
    "design_ref": "DESIGN.md §5 C01",
}

DAMAGED = "render::CellMark::Damaged"
IGNORED = "render::CellMark::Ignored"
EMPTY = "render::CellMark::Empty"


def is_trivial(blk):
    for s in blk["stmts"]:
        if s["k"] == "dead":
            continue
        if s["k"] == "assign" and s["rv"]["k"] == "use" and s["rv"]["a"]["k"] == "const" and s["rv"]["a"]["c"]["ty"] == "()":
            continue
        if s["k"] == "assign" and s["rv"]["k"] == "agg" and s["rv"]["ak"] == "tuple" and not s["rv"]["fields"]:
            continue
        return False
    return True


def norm(body, bb):
    seen = set()
    while bb not in seen:
        seen.add(bb)
        blk = body.blocks[bb]
        if blk["term"]["k"] == "goto" and is_trivial(blk):
            bb = blk["term"]["t"]
        else:
            break
    return bb


def bool_edges(body, call_bb, t):
    """(true_target, false_target) of the switch that consumes a bool-returning call's result"""
    nb = t["t"]
    tt = body.blocks[nb]["term"]
    if tt["k"] != "switch" or op_local(tt["d"]) != t["dest"]["l"]:
        return None
    if tt["vals"] == ["0"]:
        return (tt["otherwise"], tt["targets"][0], nb)
    return None


def fills(body, surf_regex):
    """SurfaceMut::fill / clear calls with their receiver and value variants"""
    out = []
    for bb, t in body.calls():
        if call_matches(t, r"^surface::SurfaceMut::(fill|clear)$"):
            recv = arg_place(body, t, 0)
            vv = value_variants(body, t["args"][1]) if len(t["args"]) > 1 else set()
            vo = origins(body, t["args"][1]) if len(t["args"]) > 1 else set()
            out.append({"bb": bb, "t": t, "recv": recv, "vals": vv, "orig": vo, "name": callee_name(t).split("::")[-1]})
    return out


def view_of(body, f):
    """if the receiver of a fill is the result of view_mut(X, ..): returns X's place"""
    l = op_local(f["t"]["args"][0])
    og = origins(body, f["t"]["args"][0])
    for o in og:
        if o[0] == "call" and re.search(r"SurfaceMut::view_mut$", o[2]):
            vt = body.blocks[o[1]]["term"]
            return arg_place(body, vt, 0)
    m = re.match(r"^_(\d+)$", f["recv"] or "")
    if m:
        for d in body.defs_of(int(m.group(1))):
            if d[1] == "term" and call_matches(d[2], r"SurfaceMut::view_mut$"):
                return arg_place(body, d[2], 0)
    return None


def cmd_variant(body, t):
    """TerminalCommand variant passed to Terminal::execute"""
    vs = value_variants(body, t["args"][1])
    return {v.split("::")[-1] for v in vs if isinstance(v, str) and v.startswith("terminal::TerminalCommand::")}


def run(ctx):
    prog = ctx.prog
    ctx.explanation = (
        "Decides necessary structural clauses of the diffing protocol from MIR (not the screen-model equivalence, which quantifies over "
        "histories of surfaces): R1 clear() marks every cell Damaged and resets the back buffer on every Ok path, and never overwrites the "
        "front buffer; R1b in frame() no whole-surface overwrite of `marks` can reach a read of `marks`, and per-cell resets of marks "
        "through iter_mut are guarded by `!= Damaged` (damage requested by clear()/new(true) survives until the diff); R2 new(.., clear) stores Damaged "
        "into every mark on the clear==true branch; R3 both `old == new` skip tests treat Damaged cells exactly like changed cells; R4 a "
        "replaced image is erased and its area damaged, a new image is queued and its area ignored; R5 frame's Ok epilogue swaps the "
        "buffers then clears front, run_render calls renderer.clear after frames_drop and re-creates the renderer with clear=true after a "
        "resize, and nothing overwrites the drawn front buffer between the handler and frame(); R6 every Char/EraseChars emission is "
        "preceded in the same iteration by the face and cursor reconciliation tests. NOT decided: run-length/wide-character column "
        "arithmetic, Ignored handling inside erase runs, the equivalence with a from-scratch repaint.")
    ctx.assume("unwind paths out of scope; Terminal::execute interpreted by a conforming terminal (C05)")

    new = prog.one(r"^render::TerminalRenderer::new$")
    clear = prog.one(r"^render::TerminalRenderer::clear$")
    frame = prog.one(r"^render::TerminalRenderer::frame$")
    rr = prog.one(r"^terminal::Terminal::run_render$")
    if not all([new, clear, frame, rr]):
        ctx.anchor("ENGINE", "TerminalRenderer::{new,clear,frame}/Terminal::run_render")
        return

    # ---------------- R1 clear -----------------------------------------------------------------
    ctx.rule("R1-CLEAR", "clear(): Ok paths pass fill(marks, Damaged) and fill(back, Cell::default()); front is not written; image placements erased are those of back, before it is reset", floor=4)
    cfg = clear.cfg()
    oks = ok_return_blocks(clear)
    fl = fills(clear, None)
    m_d = [f["bb"] for f in fl if f["recv"] == "(*_1).marks" and DAMAGED in f["vals"]]
    b_d = [f["bb"] for f in fl if f["recv"] == "(*_1).back" and any(o[0] == "call" and o[2] == "<render::Cell as std::default::Default>::default" for o in f["orig"])]
    for nm, sites in (("marks-damaged", m_d), ("back-reset", b_d)):
        ok, wit = cfg.must_pass(sites, exits=oks) if sites else (False, None)
        ctx.instance("R1-CLEAR", {"what": nm, "blocks": sites, "ok_exits": sorted(oks)})
        if not ok:
            ctx.violation("R1-CLEAR", clear.path, nm,
                          "TerminalRenderer::clear has an Ok path that does not %s: the next frame would not repaint every cell" % ("mark all cells Damaged" if nm == "marks-damaged" else "reset the back buffer to default cells"),
                          sites=[clear.loc])
    # images on screen are the ones recorded in `back`: every ImageErase of clear() takes image and position from an iteration over back,
    # and the loop runs before back is reset
    erases = [(bb, s_) for bb, si, s_ in clear.assigns() if s_["rv"]["k"] == "agg" and s_["rv"].get("variant") == "ImageErase"]
    for bb, s_ in erases:
        e = expr(clear, {"k": "copy", "place": s_["place"]})
        parts = e.split(", Option::Some(")
        from_back = len(parts) == 2 and all("Surface::iter(arg1.back)" in x and "arg1.front" not in x for x in parts)
        before_reset = bool(b_d) and not any(bb in cfg.reachable_from(r) for r in b_d)
        ctx.instance("R1-CLEAR", {"what": "erase-source", "image_erase": e[:200], "from_back": from_back, "before_back_reset": before_reset})
        if not from_back:
            ctx.violation("R1-CLEAR", clear.path, "erase-source", "clear() erases image placements taken from something other than the back buffer (%s): "
                          "placements that are on screen but not in that buffer survive the clear" % e[:160], sites=["%s:%d" % (clear.file, s_["line"])])
        if not before_reset:
            ctx.violation("R1-CLEAR", clear.path, "erase-after-reset", "clear() resets the back buffer before erasing the image placements recorded in it", sites=["%s:%d" % (clear.file, s_["line"])])
    if not erases:
        ctx.violation("R1-CLEAR", clear.path, "no-erase", "clear() does not erase the image placements recorded in the back buffer: kitty placements survive the text clear", sites=[clear.loc])
    fw = [f for f in fl if (f["recv"] or "").startswith("(*_1).front")]
    ctx.instance("R1-CLEAR", {"what": "front-untouched", "front_writes": len(fw)})
    for f in fw:
        ctx.violation("R1-CLEAR", clear.path, "front-overwritten",
                      "TerminalRenderer::clear overwrites the front buffer: run_render calls clear() after the handler has drawn the frame (frame-drop path), so the drawn surface would be lost",
                      sites=["%s:%d" % (clear.file, f["t"]["line"])])

    # ---------------- R2 new -------------------------------------------------------------------
    ctx.rule("R2-NEW", "new(term, clear): the mark stored in every cell is Damaged on the clear==true edge", floor=1)
    nw = [(bb, t) for bb, t in new.calls() if call_matches(t, r"^surface::SurfaceOwned::<T>::new_with$")]
    okn = False
    detail = {}
    if len(nw) == 1:
        bb, t = nw[0]
        # closure aggregate
        cl = None
        for d in new.defs_of(op_local(t["args"][1])):
            if d[1] != "term" and d[2]["k"] == "agg" and d[2]["ak"] == "closure":
                cl = d[2]
        if cl is not None and len(cl["fields"]) == 1:
            cb = prog.body(cl["def"])
            # closure must return its capture
            ret_ok = False
            if cb is not None:
                og = origins(cb, {"k": "copy", "place": {"l": 0, "p": []}})
                ret_ok = any(o[0] == "arg" and o[1] == 1 for o in og) or any(o[0] == "place" and "(*_1)" in o[1] for o in og)
            # captured: &mark ; mark's defs
            cap = cl["fields"][0]
            ml = None
            for d in new.defs_of(op_local(cap)):
                if d[1] != "term" and d[2]["k"] == "ref":
                    ml = d[2]["place"]["l"]
            if ml is None:
                ml = op_local(cap)
            defs = new.defs_of(ml)
            # the switch on `clear` (_2)
            sw = None
            for i, tt in new.terms():
                if tt["k"] == "switch" and origins(new, tt["d"]) == {("arg", 2)}:
                    sw = (i, tt)
            if sw and ret_ok:
                i, tt = sw
                true_t = tt["otherwise"]
                false_t = tt["targets"][0]
                c = new.cfg()
                good = True
                n_d = 0
                for (dbb, si, rv) in defs:
                    if si == "term" or rv["k"] != "agg":
                        good = False
                        continue
                    v = "%s::%s" % (rv["adt"], rv["variant"])
                    on_true = c.edge_dominates(i, true_t, dbb)
                    on_false = c.edge_dominates(i, false_t, dbb)
                    detail.setdefault("defs", []).append({"value": v, "on_clear_true_edge": on_true, "on_clear_false_edge": on_false})
                    if on_true:
                        n_d += 1
                        if v != DAMAGED:
                            good = False
                    elif not on_false:
                        if v != DAMAGED:
                            good = False
                okn = good and n_d >= 1
    ctx.instance("R2-NEW", detail or {"note": "shape not recognised"})
    if not okn:
        ctx.violation("R2-NEW", new.path, "clear-true-not-damaged",
                      "TerminalRenderer::new(.., clear=true) does not initialise every mark to Damaged: the first frame of a re-created renderer would not repaint everything",
                      sites=[new.loc])

    # ---------------- R1b marks survive to the diff -----------------------------------------------
    ctx.rule("R1b-MARKS-LIVE", "frame(): no whole-surface overwrite of marks reaches a read of marks; iter_mut resets are guarded by != Damaged", floor=2)
    fcfg = frame.cfg()
    loops_f = fcfg.loops()
    ffl = fills(frame, None)
    reads = []
    for bb, t in frame.calls():
        if call_matches(t, r"^surface::Surface::get$|Surface>::data$|^surface::Surface::(iter|data)$") and arg_place(frame, t, 0) == "(*_1).marks":
            reads.append(bb)
    kills = [f for f in ffl if f["recv"] == "(*_1).marks"]
    if not reads:
        ctx.anchor("R1b-MARKS-LIVE", "frame/marks-reads")
    for f in kills:
        reach = fcfg.reachable_from(f["bb"])
        hit = [r for r in reads if r in reach and r != f["bb"]]
        ctx.instance("R1b-MARKS-LIVE", {"whole_overwrite_at_line": f["t"]["line"], "value": sorted(map(str, f["vals"])), "reads_reachable_after": len(hit)})
        if hit and DAMAGED not in f["vals"]:
            ctx.violation("R1b-MARKS-LIVE", frame.path, "marks-killed-before-diff",
                          "frame() overwrites every mark (%s) before the diff reads them: Damaged marks set by clear()/new(.., true) never reach the diff, a forced clear does not repaint" % sorted(map(str, f["vals"])),
                          sites=["%s:%d" % (frame.file, f["t"]["line"])])
    # stores through items of marks.iter_mut()
    im = [(bb, t) for bb, t in frame.calls() if call_matches(t, r"^surface::SurfaceMut::iter_mut$") and arg_place(frame, t, 0) == "(*_1).marks"]
    n_st = 0
    for i, si, s in frame.assigns():
        p = s["place"]
        if not (p["p"] and p["p"][0]["k"] == "deref" and len(p["p"]) == 1):
            continue
        if frame.local_ty(p["l"]) != "&mut render::CellMark":
            continue
        og = origins(frame, {"k": "copy", "place": {"l": p["l"], "p": []}})
        from_marks = any(o[0] == "call" and re.search(r"Iterator>::next$|Iterator::next$", o[2]) for o in og)
        if not from_marks:
            continue
        n_st += 1
        vals = value_variants(frame, s["rv"]["a"]) if s["rv"]["k"] == "use" else set()
        if s["rv"]["k"] == "agg":
            vals = {"%s::%s" % (s["rv"]["adt"], s["rv"]["variant"])}
        # guarded by discriminant(*item) != Damaged: from the Damaged edge of a dominating switch on the item's
        # discriminant the store is not feasibly reachable within the iteration
        guarded = False
        inner = _inner_loop(loops_f, i)
        for j, tt in frame.terms():
            if tt["k"] != "switch" or not fcfg.dominates(j, i):
                continue
            dl = op_local(tt["d"])
            for d in frame.defs_of(dl) if dl is not None else []:
                if d[1] != "term" and d[2]["k"] == "discr" and d[2]["of"] == "render::CellMark" and d[2]["place"]["l"] == p["l"]:
                    if "2" in tt["vals"]:
                        dmg_t = tt["targets"][tt["vals"].index("2")]
                        fr = feasible_reach(frame, dmg_t, stop={inner} if inner is not None else ())
                        if fr is not None and i not in fr:
                            guarded = True
        ctx.instance("R1b-MARKS-LIVE", {"per_cell_store_line": s["line"], "value": sorted(map(str, vals)), "guarded_by_not_damaged": guarded})
        if not guarded and DAMAGED not in vals:
            ctx.violation("R1b-MARKS-LIVE", frame.path, "per-cell-reset-unguarded",
                          "frame() resets marks cell by cell without excluding Damaged cells before the diff", sites=["%s:%d" % (frame.file, s["line"])])

    # ---------------- R3 skip needs not damaged --------------------------------------------------
    ctx.rule("R3-SKIP", "each `old == new` skip test treats Damaged cells exactly like changed cells (first and second pass)", floor=2)
    loops = fcfg.loops()
    eqs = []
    for bb, t in frame.calls():
        if call_matches(t, r"PartialEq.*::eq$") and all(re.search(r"render::Cell$", x) for x in t["arg_tys"]):
            # exclude comparisons of two cells of the front buffer (run-length scan)
            srcs = []
            for a in t["args"]:
                og = origins(frame, a)
                s = set()
                for o in og:
                    if o[0] == "call":
                        ct = frame.blocks[o[1]]["term"]
                        s.add(arg_place(frame, ct, 0) if ct["args"] else None)
                    elif o[0] == "place":
                        s.add(o[1])
                srcs.append(s)
            both_front = all(s and all(x == "(*_1).front" for x in s) for s in srcs)
            eqs.append((bb, t, both_front, srcs))
    dmg_tests = []
    for bb, t in frame.calls():
        if call_matches(t, r"PartialEq.*::(eq|ne)$") and any(DAMAGED in value_variants(frame, a) for a in t["args"]):
            e = bool_edges(frame, bb, t)
            if e:
                is_ne = callee_name(t).endswith("::ne")
                # edge taken when the cell IS damaged / is NOT damaged
                damaged_t = e[1] if is_ne else e[0]
                notdmg_t = e[0] if is_ne else e[1]
                dmg_tests.append({"bb": bb, "sw": e[2], "damaged": damaged_t, "not_damaged": notdmg_t, "line": t["line"]})
    n_inst = 0
    for (bb, t, both_front, srcs) in eqs:
        if both_front:
            ctx.note("cell equality at line %d compares two front-buffer cells (run-length scan) - not a skip test" % t["line"])
            continue
        n_inst += 1
        e = bool_edges(frame, bb, t)
        if not e:
            ctx.anchor("R3-SKIP", "eq-switch", "result of the cell comparison at line %d is not branched on directly" % t["line"])
            continue
        eq_t, diff_t, swb = e
        diff_n = norm(frame, diff_t)
        # innermost loop containing bb
        inner = None
        for h, body in loops.items():
            if bb in body and (inner is None or len(body) < len(loops[inner])):
                inner = h
        ok_any = False
        why = []
        for d in dmg_tests:
            if inner is not None and d["bb"] not in loops[inner]:
                continue
            # damaged edge must join the differ continuation
            if norm(frame, d["damaged"]) != diff_n:
                why.append("damage test @%d: damaged edge goes to bb%d, changed-cell continuation is bb%d" % (d["line"], norm(frame, d["damaged"]), diff_n))
                continue
            # remove the not-damaged edge; then any path taking the equal edge must reach diff_n before the loop head / exits
            removed_edge = (d["sw"], d["not_damaged"])
            if not _path_equal_skips(fcfg, frame, inner, swb, eq_t, diff_n, removed_edge):
                ok_any = True
            else:
                why.append("damage test @%d does not cover the equal edge" % d["line"])
        ctx.instance("R3-SKIP", {"eq_test_line": t["line"], "equal_edge": eq_t, "changed_edge": diff_n, "covered_by_damage_test": ok_any})
        if not ok_any:
            ctx.violation("R3-SKIP", frame.path, "skip-%d" % n_inst,
                          "an unchanged cell is skipped without checking that it is not Damaged (%s)" % ("; ".join(why) or "no comparison with CellMark::Damaged in the same loop"),
                          sites=["%s:%d" % (frame.file, t["line"])])

    # ---------------- R4 images ------------------------------------------------------------------
    ctx.rule("R4-IMAGES", "first pass: old image -> execute(ImageErase) + fill(marks view, Damaged); new image -> images.push + fill(marks view, Ignored)", floor=3)
    ex = [(bb, t, cmd_variant(frame, t)) for bb, t in frame.calls() if call_matches(t, r"^terminal::Terminal::execute$")]
    erase = [(bb, t) for bb, t, v in ex if "ImageErase" in v]
    vfills = [f for f in ffl if view_of(frame, f) == "(*_1).marks"]
    dmg_fill = [f for f in vfills if DAMAGED in f["vals"]]
    ign_fill = [f for f in vfills if IGNORED in f["vals"]]
    push = [(bb, t) for bb, t in frame.calls() if call_matches(t, r"Vec::<T, A>::push$") and arg_place(frame, t, 0) == "(*_1).images"]
    errs = err_return_blocks(frame)
    if len(erase) != 1 or not dmg_fill:
        ctx.violation("R4-IMAGES", frame.path, "erase-or-damage-missing",
                      "frame() does not both erase a replaced image (ImageErase) and mark its area Damaged: stale pixels/cells under the old image survive",
                      sites=[frame.loc])
    else:
        ebb, et = erase[0]
        # after the erase (success), the damaged fill must follow before the iteration ends
        inner = _inner_loop(loops, ebb)
        exits = ([inner] if inner is not None else []) + list(fcfg.returns)
        ok, wit = fcfg.must_pass([f["bb"] for f in dmg_fill], start=ebb, exits=exits, removed=_err_region(fcfg, frame, errs))
        ctx.instance("R4-IMAGES", {"erase_line": et["line"], "damage_fill_lines": [f["t"]["line"] for f in dmg_fill], "follows": ok})
        if not ok:
            ctx.violation("R4-IMAGES", frame.path, "erase-without-damage", "ImageErase is not followed by marking the image area Damaged (path %s)" % wit, sites=["%s:%d" % (frame.file, et["line"])])
        # the erased placement is the one on screen: image cloned from the back-buffer side of the iteration, never from front
        era = [s_ for bb_, si_, s_ in frame.assigns() if s_["rv"]["k"] == "agg" and s_["rv"].get("variant") == "ImageErase"]
        for s_ in era:
            img_e = expr(frame, s_["rv"]["fields"][0])
            side = _iter_side(img_e)
            okb = side is not None and "arg1.back" in side and "arg1.front" not in side
            ctx.instance("R4-IMAGES", {"erased_image_from": (side or img_e)[:120], "is_back_buffer": okb})
            if not okb:
                ctx.violation("R4-IMAGES", frame.path, "erase-source", "frame() erases an image placement that is not taken from the back buffer (what the terminal shows): %s" % (side or img_e)[:160],
                              sites=["%s:%d" % (frame.file, s_["line"])])
        # the erase is decided by the kind of the OLD cell: the discriminant switch guarding it must test the same place the image is cloned from,
        # and must be evaluated on every changed-cell path (it post-dominates the changed continuation of the first-pass eq test)
        first_eq = [x for x in eqs if not x[2] and _inner_loop(loops, x[0]) == inner]
        if first_eq:
            e = bool_edges(frame, first_eq[0][0], first_eq[0][1])
            diff_n = norm(frame, e[1])
            sw = _guarding_kind_switch(frame, fcfg, ebb)
            okg = sw is not None and fcfg.must_pass([sw], start=diff_n, exits=exits)[0]
            ctx.instance("R4-IMAGES", {"kind_switch_block": sw, "on_every_changed_path": okg})
            if not okg:
                ctx.violation("R4-IMAGES", frame.path, "erase-not-on-changed-path", "a changed cell can bypass the old-image test (erase + damage)", sites=["%s:%d" % (frame.file, et["line"])])
        else:
            ctx.anchor("R4-IMAGES", "first-pass-eq")
    if len(push) != 1 or not ign_fill:
        ctx.violation("R4-IMAGES", frame.path, "push-or-ignore-missing", "frame() does not queue a new image and mark its area Ignored", sites=[frame.loc])
    else:
        pbb, pt = push[0]
        inner = _inner_loop(loops, pbb)
        exits = ([inner] if inner is not None else []) + list(fcfg.returns)
        ok, wit = fcfg.must_pass([f["bb"] for f in ign_fill], start=pbb, exits=exits)
        ctx.instance("R4-IMAGES", {"push_line": pt["line"], "ignore_fill_lines": [f["t"]["line"] for f in ign_fill], "follows": ok})
        if not ok:
            ctx.violation("R4-IMAGES", frame.path, "push-without-ignore", "a queued image's area is not marked Ignored (characters would be painted over/under it)", sites=["%s:%d" % (frame.file, pt["line"])])
    # every queued image is drawn: Vec::drain(images) loop contains execute(Image)
    img = [(bb, t) for bb, t, v in ex if "Image" in v]
    drain = [(bb, t) for bb, t in frame.calls() if call_matches(t, r"Vec::<T, A>::drain$") and arg_place(frame, t, 0) == "(*_1).images"]
    okd = bool(img) and bool(drain) and all(fcfg.dominates(drain[0][0], b) for b, _ in img)
    ctx.instance("R4-IMAGES", {"draw_after_drain": okd})
    if not okd:
        ctx.violation("R4-IMAGES", frame.path, "queued-image-not-drawn", "images queued in the first pass are not drawn from images.drain(..)", sites=[frame.loc])

    # ---------------- R9 wide characters: history independence of the column walk ----------------------------------
    ctx.rule("R9-WIDE", "second pass: a column is advanced by the constant 1 only where the new cell is known not to be a multi-column character (not a Char, width 0, "
                        "or under an image), so an unchanged wide character hides its trailing cells exactly as a repainted one does; first pass: a changed cell whose "
                        "old content was a wide character damages the cells that character covered", floor=3)
    # (a) every `pos.col += 1`
    incs = []
    walkers = {l for l, nm in frame.varnames.items() if nm == "pos" and frame.local_ty(l) == "terminal::Position"}
    adds = {}     # tuple local -> assign statement of `pos.col + 1`
    for bb_, si_, s_ in frame.assigns():
        rv_ = s_["rv"]
        if rv_["k"] == "bin" and rv_["op"] in ("AddWithOverflow", "Add") and expr(frame, rv_["b"]) == "1" and rv_["a"].get("k") in ("copy", "move") \
                and rv_["a"]["place"]["l"] in walkers and [e_.get("name") for e_ in rv_["a"]["place"]["p"]] == ["col"]:
            adds[s_["place"]["l"]] = (bb_, s_)
    for bb_, si_, s_ in frame.assigns():
        rv_ = s_["rv"]
        if s_["place"]["l"] in walkers and [e_.get("name") for e_ in s_["place"]["p"]] == ["col"] and rv_["k"] == "use" and rv_["a"].get("k") in ("copy", "move") \
                and rv_["a"]["place"]["l"] in adds:
            incs.append((bb_, adds[rv_["a"]["place"]["l"]][1]))
    if not incs:
        ctx.anchor("R9-WIDE", "second-pass/col-increment", "no `pos.col += 1` found in frame(): the column walk is not understood")
    for bb_, s_ in incs:
        why = None
        for x in range(len(frame.blocks)):
            t_ = frame.blocks[x]["term"]
            if t_["k"] != "switch" or not fcfg.dominates(x, bb_) or x == bb_:
                continue
            succs = [(v, tg) for v, tg in zip(t_["vals"], t_["targets"])] + [(None, t_["otherwise"])]
            taken = [(v, tg) for v, tg in succs if fcfg.edge_dominates(x, tg, bb_)]
            if len(taken) != 1:
                continue
            v, tg = taken[0]
            e_ = expr(frame, t_["d"])
            if re.fullmatch(r"discr\(.*\.kind\)", e_) and "arg1.front" in e_:
                # Char is variant 0 of CellKind: any other taken value / the otherwise edge of a switch listing 0 means "not a character"
                if (v is not None and v != "0") or (v is None and "0" in t_["vals"]):
                    why = "new cell is not a character"
            if re.search(r"UnicodeWidthChar::width\(", e_) and re.match(r"^Eq\(.*, 0\)$|^Eq\(0, ", e_) and v != "0":
                why = why or "character of width 0"
            if re.search(r"\.marks\b", e_) and re.search(r"discr\(|Eq\(|PartialEq", e_):
                # a test of the mark: accepted when the taken side is `== Ignored`
                vv = value_variants(frame, t_["d"]) if False else None
                if re.search(r"Ignored", e_) and v != "0":
                    why = why or "cell is under an image (Ignored)"
        ctx.instance("R9-WIDE", {"increment_by_one_line": s_["line"], "justified_by": why})
        if why is None:
            ctx.violation("R9-WIDE", frame.path, "skip-advance", "a column is skipped with `pos.col += 1` although the cell may hold an unchanged wide character: its trailing cell is then examined "
                          "on its own and painted over the character's right half (from-scratch painting skips it), e.g. frames [中 x a b] then [中 y a b]", sites=["%s:%d" % (frame.file, s_["line"])])
    # (b) old wide character -> damage its footprint
    wide_dmg = []
    for f in dmg_fill:
        og_ = origins(frame, f["t"]["args"][0])
        for o in og_:
            if o[0] == "call" and re.search(r"SurfaceMut::view_mut$", o[2]):
                vt_ = frame.blocks[o[1]]["term"]
                cols = expr(frame, vt_["args"][2]) if len(vt_["args"]) > 2 else ""
                if "UnicodeWidthChar::width(" in cols:
                    side = _iter_side(re.search(r"UnicodeWidthChar::width\((.*)\)", cols).group(1)) or ""
                    wide_dmg.append((f, cols, "arg1.back" in side and "arg1.front" not in side))
    okb = any(x[2] for x in wide_dmg)
    ctx.instance("R9-WIDE", {"old_wide_character_footprint_damaged": okb, "fills": [c[:120] for _, c, _ in wide_dmg]})
    if not okb:
        ctx.violation("R9-WIDE", frame.path, "old-wide-not-damaged", "when a wide character is replaced, the cells it covered are not marked Damaged: the terminal blanks the character's right "
                      "half but an unchanged cell there is never repainted, e.g. frames [中 x a b] then [q x a b] leave column 1 blank", sites=[frame.loc])

    # ---------------- R5 epilogue + run_render ----------------------------------------------------
    ctx.rule("R5-EPILOGUE", "frame Ok path: swap(front, back) then front.clear(); run_render: frames_drop -> clear, Resize -> clear + new(true), drawn front reaches frame", floor=5)
    swp = [(bb, t) for bb, t in frame.calls() if call_matches(t, r"^std::mem::swap$") and {arg_place(frame, t, 0), arg_place(frame, t, 1)} == {"(*_1).front", "(*_1).back"}]
    fclr = [f for f in ffl if f["recv"] == "(*_1).front" and f["name"] == "clear"]
    oks = ok_return_blocks(frame)
    ok1 = bool(swp) and fcfg.must_pass([b for b, _ in swp], exits=oks)[0]
    ok2 = bool(swp) and bool(fclr) and fcfg.must_pass([f["bb"] for f in fclr], start=swp[0][0], exits=oks)[0]
    # no paint after swap
    ctx.instance("R5-EPILOGUE", {"swap_on_every_ok_path": ok1, "front_cleared_after_swap": ok2})
    if not ok1:
        ctx.violation("R5-EPILOGUE", frame.path, "no-swap", "an Ok path of frame() does not swap front and back: the renderer's belief about the terminal is stale", sites=[frame.loc])
    if not ok2:
        ctx.violation("R5-EPILOGUE", frame.path, "front-not-cleared", "front buffer is not cleared after the swap: the previous frame leaks into the next one", sites=[frame.loc])
    if swp:
        after = fcfg.reachable_from(swp[0][0])
        late = [(bb, t) for bb, t, v in ex if bb in after and bb != swp[0][0]]
        ctx.instance("R5-EPILOGUE", {"commands_after_swap": len(late)})
        for bb, t in late:
            ctx.violation("R5-EPILOGUE", frame.path, "paint-after-swap", "terminal commands are issued after the buffers were swapped", sites=["%s:%d" % (frame.file, t["line"])])
    rcfg = rr.cfg()
    fd = [(bb, t) for bb, t in rr.calls() if call_matches(t, r"^terminal::Terminal::frames_drop$")]
    cl = [(bb, t) for bb, t in rr.calls() if call_matches(t, r"^render::TerminalRenderer::clear$")]
    nw_t = [(bb, t) for bb, t in rr.calls() if call_matches(t, r"^render::TerminalRenderer::new$") and op_const_int(t["args"][1]) == 1]
    nw_all = [(bb, t) for bb, t in rr.calls() if call_matches(t, r"^render::TerminalRenderer::new$")]
    fr = [(bb, t) for bb, t in rr.calls() if call_matches(t, r"^render::TerminalRenderer::frame$")]
    hd = [(bb, t) for bb, t in rr.calls() if call_matches(t, r"FnMut::call_mut$")]
    rerrs = err_return_blocks(rr)
    if len(fd) != 1 or not cl or not fr or len(hd) != 1:
        ctx.anchor("R5-EPILOGUE", "run_render/shape")
    else:
        fbb = fd[0][0]
        main_frames = [b for b, _ in fr if b in rcfg.reachable_from(hd[0][0])]
        # frames_drop must be followed by clear before frame
        ok3 = rcfg.must_pass([b for b, _ in cl], start=fbb, exits=main_frames)[0]
        ctx.instance("R5-EPILOGUE", {"frames_drop_then_clear": ok3})
        if not ok3:
            ctx.violation("R5-EPILOGUE", rr.path, "drop-without-clear", "run_render drops pending frames without renderer.clear(): the diff base no longer matches the terminal", sites=["%s:%d" % (rr.file, fd[0][1]["line"])])
        # renderer re-creation in the loop must pass clear=true and be preceded by clear()
        loopsr = rcfg.loops()
        inloop_new = [(bb, t) for bb, t in nw_all if any(bb in body for body in loopsr.values())]
        ok4 = bool(inloop_new) and all(op_const_int(t["args"][1]) == 1 for bb, t in inloop_new)
        ok5 = all(any(rcfg.dominates(cb, bb) and bb in rcfg.reachable_from(cb) and _inner_loop(loopsr, cb) is not None for cb, _ in cl) for bb, t in inloop_new)
        ctx.instance("R5-EPILOGUE", {"recreated_with_clear_true": ok4, "old_renderer_cleared_first": ok5})
        if not ok4:
            ctx.violation("R5-EPILOGUE", rr.path, "resize-new-without-clear", "after a resize the renderer is re-created without clear=true", sites=[rr.loc])
        if not ok5:
            ctx.violation("R5-EPILOGUE", rr.path, "resize-no-clear", "after a resize the old renderer is not cleared (image erase) before re-creation", sites=[rr.loc])
        # R7: between the handler call and frame(), no callee that overwrites the front buffer
        front_writers = set()
        for b in prog.bodies:
            if b.impl_self == "render::TerminalRenderer" and b.kind == "AssocFn" and b.path != frame.path:
                for f in fills(b, None):
                    if (f["recv"] or "").startswith("(*_1).front"):
                        front_writers.add(b.path)
        bad = []
        region = rcfg.reachable_from(hd[0][0])
        to_frame = rcfg.reaches(main_frames)
        for bb, t in rr.calls():
            if bb in region and bb in to_frame and bb != hd[0][0] and callee_name(t) in front_writers:
                bad.append((bb, t))
        ctx.instance("R5-EPILOGUE", {"front_writers": sorted(front_writers), "calls_between_handler_and_frame": len(bad)})
        for bb, t in bad:
            ctx.violation("R5-EPILOGUE", rr.path, "drawn-front-overwritten",
                          "%s overwrites the front buffer between the handler (which draws the frame) and frame()" % callee_name(t), sites=["%s:%d" % (rr.file, t["line"])])

    # ---------------- R6 face/cursor reconciliation ------------------------------------------------
    ctx.rule("R6-RECONCILE", "second pass: every Char/EraseChars emission is preceded in its iteration by the face and cursor tests", floor=3)
    paints = [(bb, t, v) for bb, t, v in ex if v & {"Char", "EraseChars"}]
    face_t = [bb for bb, t in frame.calls() if call_matches(t, r"PartialEq.*::ne$") and all("face::Face" in x for x in t["arg_tys"])]
    cur_t = [bb for bb, t in frame.calls() if call_matches(t, r"PartialEq.*::ne$") and all("terminal::Position" in x for x in t["arg_tys"])]
    for bb, t, v in paints:
        inner = None
        # the cell loop = smallest loop containing both the paint and the face test
        cands = [h for h, body in loops.items() if bb in body and any(f in body for f in face_t)]
        if cands:
            inner = min(cands, key=lambda h: len(loops[h]))
        # image phase paints EraseChars too, after an unconditional Face/CursorTo: accept when dominated by execute(Face) & execute(CursorTo) in the same loop
        if inner is None:
            facecmd = [b for b, t2, v2 in ex if "Face" in v2 and fcfg.dominates(b, bb)]
            curcmd = [b for b, t2, v2 in ex if "CursorTo" in v2 and fcfg.dominates(b, bb)]
            l2 = _inner_loop(loops, bb)
            ok = any(l2 is not None and b in loops[l2] or True for b in facecmd) and bool(facecmd) and bool(curcmd)
            ctx.instance("R6-RECONCILE", {"paint_line": t["line"], "cmd": sorted(v), "phase": "images", "after_face_and_cursor_commands": ok})
            if not ok:
                ctx.violation("R6-RECONCILE", frame.path, "image-erase-without-face-cursor", "EraseChars of the image phase is not preceded by Face and CursorTo", sites=["%s:%d" % (frame.file, t["line"])])
            continue
        okf = fcfg.must_pass(face_t, start=inner, exits=[bb])[0]
        okc = fcfg.must_pass(cur_t, start=inner, exits=[bb])[0]
        ctx.instance("R6-RECONCILE", {"paint_line": t["line"], "cmd": sorted(v), "face_test_first": okf, "cursor_test_first": okc})
        if not okf:
            ctx.violation("R6-RECONCILE", frame.path, "paint-without-face-test-%s" % "-".join(sorted(v)), "a character is emitted on a path that did not compare the current face with the cell's face", sites=["%s:%d" % (frame.file, t["line"])])
        if not okc:
            ctx.violation("R6-RECONCILE", frame.path, "paint-without-cursor-test-%s" % "-".join(sorted(v)), "a character is emitted on a path that did not compare the cursor with the cell position", sites=["%s:%d" % (frame.file, t["line"])])
    # the tests must lead to the commands: ne(face) true edge -> execute(Face); ne(cursor) true edge -> execute(CursorTo)
    for tests, cmdname in ((face_t, "Face"), (cur_t, "CursorTo")):
        for tb in tests:
            t = frame.blocks[tb]["term"]
            e = bool_edges(frame, tb, t)
            cmds = [b for b, t2, v2 in ex if cmdname in v2]
            ok = bool(e) and fcfg.must_pass(cmds, start=e[0], exits=[norm(frame, e[1])] + list(fcfg.returns), removed=_err_region(fcfg, frame, errs))[0]
            ctx.instance("R6-RECONCILE", {"test_line": t["line"], "leads_to": cmdname, "ok": ok})
            if not ok:
                ctx.violation("R6-RECONCILE", frame.path, "test-without-%s" % cmdname, "the %s difference test does not lead to emitting %s" % (cmdname, cmdname), sites=["%s:%d" % (frame.file, t["line"])])


    # ---------------- R7 erase/space runs never swallow Ignored cells ------------------------------------------
    ctx.rule("R7-RUN", "second pass run-length scan: a cell is added to a blank run only if its mark was compared with Ignored", floor=1)
    ign_tests = []
    for bb, t in frame.calls():
        if call_matches(t, r"PartialEq.*::(eq|ne)$") and any(IGNORED in value_variants(frame, a) for a in t["args"]):
            e = bool_edges(frame, bb, t)
            if e:
                is_ne = callee_name(t).endswith("::ne")
                ign_tests.append({"bb": bb, "sw": e[2], "not_ignored": e[0] if is_ne else e[1], "line": t["line"]})
    n_run = 0
    for (bb, t, both_front, srcs) in eqs:
        if not both_front:
            continue
        n_run += 1
        inner = _inner_loop(loops, bb)
        e = bool_edges(frame, bb, t)
        incs = []
        for i2, si2, s2 in frame.assigns():
            if inner is not None and i2 in loops[inner] and s2["rv"]["k"] == "bin" and s2["rv"]["op"] == "AddWithOverflow" and op_const_int(s2["rv"]["b"]) == 1:
                incs.append((i2, s2))
        ok = bool(e) and bool(incs)
        why = "run counter increment not found"
        for i2, s2 in incs:
            g1 = fcfg.edge_dominates(e[2], e[0], i2)
            g2 = any(fcfg.edge_dominates(it["sw"], it["not_ignored"], i2) for it in ign_tests if inner is None or it["bb"] in loops[inner])
            if not (g1 and g2):
                ok = False
                why = "the run counter is incremented (line %d) without %s" % (s2["line"], "the equal-cell test" if not g1 else "a `mark != Ignored` test of the next cell")
        ctx.instance("R7-RUN", {"scan_eq_line": t["line"], "increments": [s2["line"] for i2, s2 in incs], "guarded_by_equal_and_not_ignored": ok})
        if not ok:
            ctx.violation("R7-RUN", frame.path, "run-includes-ignored", "blank-run coalescing: %s; EraseChars/spaces would overwrite cells under an image that is kept" % why, sites=["%s:%d" % (frame.file, t["line"])])
    if n_run == 0:
        ctx.anchor("R7-RUN", "run-length-scan")

    # ---------------- R8 equality used by the diff is complete ----------------------------------------------------
    ctx.rule("R8-EQ", "hand-written PartialEq of cell payload types (Image, Glyph) compares every field whole", floor=2)
    for ty in ("image::Image", "glyph::Glyph"):
        eqb = [b for b in prog.bodies if b.name == "eq" and b.impl_trait == "std::cmp::PartialEq" and b.impl_self == ty]
        adt = prog.adts.get(ty)
        if len(eqb) != 1 or not adt:
            ctx.anchor("R8-EQ", ty)
            continue
        b = eqb[0]
        fields = [f["name"] for v in adt["variants"] for f in v["fields"]]
        calls_ = [(callee_name(t), [expr(b, a) for a in t["args"]]) for bb, t in b.calls()]
        derived = bool(calls_) and all((t.get("expk") or "").startswith("derive") for bb, t in b.calls())
        missing = []
        if not derived:
            for f in fields:
                hit = any(len(a) == 2 and {a[0], a[1]} == {"arg1." + f, "arg2." + f} for n, a in calls_)
                for i2, si2, s2 in b.assigns():
                    if s2["rv"]["k"] == "bin" and s2["rv"]["op"] == "Eq" and {expr(b, s2["rv"]["a"]), expr(b, s2["rv"]["b"])} == {"arg1." + f, "arg2." + f}:
                        hit = True
                if not hit:
                    missing.append(f)
        ctx.instance("R8-EQ", {"type": ty, "fields": fields, "derived": derived, "compared": [c for c in calls_][:4], "missing": missing})
        if missing:
            ctx.violation("R8-EQ", b.path, "field-" + "-".join(missing),
                          "%s::eq does not compare field(s) %s as a whole: two different cells can compare equal, the renderer then skips them and the terminal keeps the old content" % (ty, missing),
                          sites=[b.loc])

def _reaches_without(cfg, start, target, removed_block):
    return target in cfg.reachable_from(start, removed={removed_block})


def _inner_loop(loops, bb):
    inner = None
    for h, body in loops.items():
        if bb in body and (inner is None or len(body) < len(loops[inner])):
            inner = h
    return inner


def _err_region(cfg, body, errs):
    """blocks from which only error returns are reachable (the `?` failure continuation)"""
    good_ret = [r for r in cfg.returns]
    # blocks that can reach an Ok-producing block
    oks = ok_return_blocks(body)
    can_ok = cfg.reaches(oks) if oks else set()
    return {b for b in cfg.reach if b not in can_ok}


def _path_equal_skips(cfg, body, loop_head, eq_sw, eq_t, diff_n, removed_edge):
    """True iff, with the not-damaged edge removed, some path from the loop head takes the equal edge and
    gets back to the loop head (or leaves the loop) without passing the changed-cell continuation."""
    ra, rb = removed_edge
    succ = {i: [s for s in cfg.succ[i] if not (i == ra and s == rb)] for i in range(cfg.n)}
    start = loop_head if loop_head is not None else 0

    def reach(s0, stop=()):
        seen = set()
        st = [s0]
        while st:
            x = st.pop()
            if x in seen or x in stop:
                continue
            seen.add(x)
            for y in succ[x]:
                st.append(y)
        return seen
    # can we reach the eq switch at all?
    pre = set()
    st = [start]
    first = True
    while st:
        x = st.pop()
        if x in pre:
            continue
        pre.add(x)
        for y in succ[x]:
            if y == start:
                continue
            st.append(y)
    if eq_sw not in pre:
        return False
    # from the equal target, reach loop head / returns avoiding diff_n
    post = reach(eq_t, stop={diff_n})
    exits = set(cfg.returns)
    if loop_head is not None:
        exits.add(loop_head)
    return bool(post & exits) and eq_t != diff_n


def _guarding_kind_switch(body, cfg, bb):
    """nearest dominating switch on discriminant(<cell>.kind) of type CellKind with an Image(1) edge that dominates bb"""
    best = None
    for j, tt in body.terms():
        if tt["k"] != "switch" or not cfg.dominates(j, bb) or j == bb:
            continue
        dl = op_local(tt["d"])
        for d in body.defs_of(dl) if dl is not None else []:
            if d[1] != "term" and d[2]["k"] == "discr" and d[2]["of"] == "render::CellKind" and "1" in tt["vals"]:
                tgt = tt["targets"][tt["vals"].index("1")]
                if cfg.edge_dominates(j, tgt, bb):
                    if best is None or cfg.dominates(best, j):
                        best = j
    return best


def _top_args(s_):
    args, depth, cur = [], 0, ""
    for ch in s_:
        if ch in "([{":
            depth += 1
        elif ch in ")]}":
            depth -= 1
        if ch == "," and depth == 0:
            args.append(cur.strip())
            cur = ""
        else:
            cur += ch
    args.append(cur.strip())
    return args


def _iter_side(e):
    """for a value projected out of `next(into_iter(zip(A, B)))@Some.0.<i>...` the zip operand it comes from (A or B, recursively);
    for a plain iteration the iterated expression; None when the shape is not recognised"""
    m = re.search(r"Iterator::next\((.*)\)@Some\.0((?:\.\d+)*)", e)
    if not m:
        return None
    it, proj = m.group(1), [int(x) for x in m.group(2).split(".") if x]
    while True:
        it = re.sub(r"^IntoIterator::into_iter\((.*)\)$", r"\1", it)
        z = re.match(r"^Iterator::zip\((.*)\)$", it)
        if not z or not proj:
            return it
        args = _top_args(z.group(1))
        if len(args) != 2 or proj[0] > 1:
            return None
        it, proj = args[proj[0]], proj[1:]
