"""C08 — range selectors resolve with Python slice semantics: structural/numeric clauses
POST 0 <= start < end <= size, no overflow / lossy conversion, i64-width sibling rule."""
import re
from ..mir import call_matches, callee_name, op_local, op_const_int
from ..flow import origins
from ..absint import V, INF
from ..discharge import Engine
from .. import oblrules
from ..obligations import ty_range
from .c07 import inlined_private

KEEP = r"^surface::(index_i64|range_bounds)$"      # the two routines the rules name are never expanded

SIZE_MAX = (1 << 63) - 1

CLAIM = {
    "text": "For all 61 ViewBounds impls and range_bounds, decided by abstract interpretation of MIR (symbolically in the axis length): every "
            "returned window satisfies 0 <= start < end <= size; no overflow, division by zero or lossy integer conversion is reachable "
            "(selectors beyond i64 must saturate); no impl computes in a type narrower than 64 bits. That the window equals Python's "
            "for every selector value is not decided.",
    "technique": "abstract interpretation over MIR (intervals + difference/sum bounds), postcondition check at return sites, sibling width rule",
    "design_ref": "DESIGN.md §5 C08",
}


_NORM = {}


def normalised(prog, body):
    """the body with its compile-time parts made explicit for the abstract interpreter (meaning unchanged):
    * promoted constants (`&(1..=i64::MAX as usize)`, `&CONST_EXPR` ..) are evaluated in place: the promoted body is spliced in where the
      constant is used, so a bound written as a constant range is as visible as one written as two comparisons;
    * `RangeInclusive::new(a, b)` is the aggregate `RangeInclusive { start: a, end: b, exhausted: false }` (its definition in core)."""
    import copy
    from .. import inline
    from ..mir import Body
    from ..flow import _promoted_index
    key = (id(prog), id(body))
    if key in _NORM:
        return _NORM[key][1]
    j = copy.deepcopy(body.j)
    blocks, locals_ = j["blocks"], j["locals"]
    promoted = j.get("promoted") or []
    changed = False
    work = list(range(len(blocks)))
    while work:
        bb = work.pop(0)
        blk = blocks[bb]
        if blk["cleanup"]:
            continue
        for si, s in enumerate(blk["stmts"]):
            if s["k"] != "assign" or s["rv"]["k"] != "use" or s["rv"]["a"]["k"] != "const":
                continue
            k = _promoted_index(s["rv"]["a"]["c"])
            if k is None or k >= len(promoted) or s["rv"]["a"]["c"].get("def") not in (None, body.path):
                continue
            pj = promoted[k]
            lo, bo = len(locals_), len(blocks) + 1
            cont = dict(blk)
            cont["stmts"] = blk["stmts"][si + 1:]
            blk["stmts"] = blk["stmts"][:si]
            blk["term"] = {"k": "goto", "t": bo, "line": s.get("line", 0)}
            blocks.append(cont)                      # index bo - 1: the rest of the split block
            locals_.extend(copy.deepcopy(pj["locals"]))
            for pb in pj["blocks"]:
                nb = inline._shift(pb, lo, bo)
                if blk.get("inl_from"):
                    nb["inl_from"] = blk["inl_from"]
                if nb["term"]["k"] == "return":
                    nb["stmts"].append({"k": "assign", "place": s["place"], "rv": {"k": "use", "a": {"k": "move", "place": {"l": lo, "p": []}}},
                                        "line": s.get("line", 0), "exp": s.get("exp", False), "expk": s.get("expk", "")})
                    nb["term"] = {"k": "goto", "t": bo - 1}
                blocks.append(nb)
            work.append(bo - 1)
            changed = True
            break
    for blk in blocks:
        t = blk["term"]
        if blk["cleanup"] or t["k"] != "call" or len(t["args"]) != 2 or t.get("t", -1) < 0:
            continue
        if re.search(r"^std::ops::RangeInclusive::<Idx>::new$|^core::ops::RangeInclusive::<Idx>::new$", callee_name(t) or ""):
            blk["stmts"].append({"k": "assign", "place": t["dest"], "line": t.get("line", 0), "exp": t.get("exp", False), "expk": t.get("expk", ""),
                                 "rv": {"k": "agg", "ak": "adt", "adt": "std::ops::RangeInclusive", "variant": "RangeInclusive", "vi": 0, "is_enum": False,
                                        "fnames": ["start", "end", "exhausted"], "active": -1,
                                        "fields": [t["args"][0], t["args"][1], {"k": "const", "c": {"ty": "bool", "int": "0", "text": "false"}}]}})
            blk["term"] = {"k": "goto", "t": t["t"], "line": t.get("line", 0)}
            changed = True
    out = Body(j, prog) if changed else body
    _NORM[key] = (body, out)         # the key holds id(body): keep the body alive with its entry
    return out


def impls(prog):
    return [b for b in prog.bodies if b.name == "view_bounds" and b.impl_trait == "surface::ViewBounds"]


def run(ctx):
    prog = ctx.prog
    ctx.explanation = (
        "Decides from MIR, for all 61 ViewBounds impls (10 integer index impls, 50 range impls, RangeFull) and range_bounds: (a) POST: every "
        "`Some((start, end))` returned satisfies 0 <= start < end <= size, proven symbolically in `size` by abstract interpretation (range impls "
        "inherit it by delegating to range_bounds with the size argument passed through); (b) no reachable overflow, division by zero or lossy "
        "integer conversion on the way (selector values beyond i64 must saturate, not wrap); (c) sibling width rule: no impl performs bound "
        "arithmetic in a type narrower than 64 bits. NOT decided: that the selected window equals Python's for every value (value-level; only "
        "the invariant, totality and width of the computation are decided).")
    ctx.assume("axis lengths are lengths of Vec-backed surfaces: size <= isize::MAX (used to discharge `size as i64`)")
    bodies = impls(prog)
    rb = prog.one(r"^surface::range_bounds$")
    ctx.rule("IMPLS", "ViewBounds impls present (10 index + 50 range + RangeFull) and range_bounds", floor=62)
    for b in bodies:
        ctx.instance("IMPLS", {"impl": b.impl_self}, nontrivial=False)
    if rb is not None:
        ctx.instance("IMPLS", {"fn": rb.path}, nontrivial=False)
    else:
        ctx.anchor("IMPLS", "surface::range_bounds")
        return

    # ---------- (b) obligations ---------------------------------------------------------------------
    entries = [b.path for b in bodies] + [rb.path]
    ef = {b.path: {2: {"itv": (0, SIZE_MAX)}} for b in bodies}
    ef[rb.path] = {2: {"itv": (0, SIZE_MAX)}}
    clamp = prog.one(r"^common::clamp$")
    outs, dyn, init = oblrules.run(ctx, "TOTAL", entries, lossy=True, entry_facts=ef, floor_bodies=10,
                                   desc="no overflow / div-by-zero / lossy integer conversion reachable from any view_bounds impl")

    # ---------- (a) POST -------------------------------------------------------------------------------
    ctx.rule("POST", "every Some((start,end)) satisfies 0 <= start < end <= size (direct impls + range_bounds); range impls delegate with size passed through", floor=61)
    eng = Engine(prog)
    direct = [b for b in bodies if not any(call_matches(t, r"^surface::range_bounds$") for bb, t in (inlined_private(prog, b.path, keep=KEEP) or b).calls())] + [rb]
    OPT_WIN = r"Option<\(usize, usize\)>"

    def window_ok(st, ts, te, where, site, extra=None, size_t=("s", "a2", 0)):
        """0 <= start < end <= size in abstract state st (size = the body's own 2nd argument, or the given term)"""
        ok0 = ts is not None and st.le(("c", 0), ts)
        ok1 = ts is not None and te is not None and st.le(ts, te, True)
        ok2 = te is not None and st.le(te, size_t)
        inst = {"fn": where, "site": site, "0<=start": bool(ok0), "start<end": bool(ok1), "end<=size": bool(ok2),
                "start": str(st.itv_term(ts)) if ts else None, "end": str(st.itv_term(te)) if te else None}
        inst.update(extra or {})
        ctx.instance("POST", inst)
        ctx.oblig(ok0 and ok1 and ok2, "POST")
        return [n for n, o in (("0<=start", ok0), ("start<end", ok1), ("end<=size", ok2)) if not o]

    def refined(an, st, cond_op, tag):
        """copy of st in which the bool operand holds; None when that is impossible (dead code)"""
        st = st.copy()
        cv = an.eval_op(st, cond_op, tag)
        if cv.const is not None:
            return st if cv.const else None
        if cv.cond is not None:
            an.refine_cond(st, cv.cond, True)
            if st.dead:
                return None
        return st

    delegating = [b for b in bodies if b not in direct]
    # Every impl's own `Some((s, e))` sites are checked, also those of an impl that otherwise delegates (an exact fast path in front of the
    # general routine is a window like any other: it has to satisfy the postcondition by itself).
    for b0 in direct + delegating:
        # private helpers of an impl (a shared resolution routine, a conversion) are analysed as part of it
        b = normalised(prog, inlined_private(prog, b0.path, keep=KEEP) or b0)
        if b is b0:
            an = eng.analyze(b.path, ef[b.path])
        else:
            from ..absint import Analyzer
            an = Analyzer(b, prog, entry=ef[b0.path], engine=eng, invariants=eng.invariants)
            an.run()
        n_some = 0
        # A window is produced by `Some((s, e))` under a branch, by `cond.then_some((s, e))` (= if cond { Some(..) } else { None }, the tuple
        # being evaluated eagerly) or by `cond.then(|| (s, e))` (= if cond { Some(closure()) } else { None }): one postcondition, three spellings.
        for bb, blk in enumerate(b.blocks):
            if blk["cleanup"]:
                continue
            for si, s in enumerate(blk["stmts"]):
                if s["k"] != "assign" or s["place"]["p"] or not re.search(OPT_WIN, b.local_ty(s["place"]["l"])):
                    continue
                rv = s["rv"]
                if rv["k"] != "agg" or rv.get("variant") != "Some":
                    continue
                n_some += 1
                site = "%s:%d" % (b.file, s["line"])
                st = an.in_states.get(bb)
                if st is None:
                    ctx.instance("POST", {"fn": b.path, "site": site, "unreachable": True})
                    continue
                st = st.copy()
                for sj, s2 in enumerate(blk["stmts"][:si]):
                    if s2["k"] == "assign":
                        an.do_assign(st, s2, bb, sj)
                tk = an.pkey(st, rv["fields"][0]["place"]) if rv["fields"][0]["k"] != "const" else None
                sv = st.vals.get(tk + ".0") if tk else None
                evv = st.vals.get(tk + ".1") if tk else None
                miss = window_ok(st, st.term(sv) if sv else None, st.term(evv) if evv else None, b.path, site)
                if miss:
                    ctx.violation("POST", b.path, "some-%d" % n_some, "returned window is not provably within 0 <= start < end <= size (%s)" % ", ".join(miss), sites=[site])
            t = blk["term"]
            if t["k"] != "call" or t["dest"]["p"] or not re.search(OPT_WIN, b.local_ty(t["dest"]["l"])):
                continue
            site = "%s:%d" % (b.file, t["line"])
            if call_matches(t, r"bool::<impl bool>::then_some$"):
                n_some += 1
                st0 = an.call_args.get(bb)
                st = refined(an, st0, t["args"][0], "ts%d" % bb) if st0 is not None else None
                if st is None:
                    ctx.instance("POST", {"fn": b.path, "site": site, "unreachable": True})
                    continue
                tk = an.pkey(st, t["args"][1]["place"]) if t["args"][1]["k"] != "const" else None
                sv = st.vals.get(tk + ".0") if tk else None
                evv = st.vals.get(tk + ".1") if tk else None
                miss = window_ok(st, st.term(sv) if sv else None, st.term(evv) if evv else None, b.path, site, {"form": "then_some"})
                if miss:
                    ctx.violation("POST", b.path, "some-%d" % n_some, "returned window is not provably within 0 <= start < end <= size (%s)" % ", ".join(miss), sites=[site])
            elif call_matches(t, r"bool::<impl bool>::then$"):
                n_some += 1
                st0 = an.call_args.get(bb)
                st = refined(an, st0, t["args"][0], "th%d" % bb) if st0 is not None else None
                if st is None:
                    ctx.instance("POST", {"fn": b.path, "site": site, "unreachable": True})
                    continue
                cl = op_local(t["args"][1])
                cds = [d for d in b.defs_of(cl) if d[1] != "term" and d[2]["k"] == "agg" and d[2].get("ak") == "closure"] if cl is not None else []
                miss = ["closure not understood"]
                if len(cds) == 1:
                    caps = cds[0][2]["fields"]
                    cpath = cds[0][2]["def"]
                    cef = eng.closure_facts(cpath, {b.path: ef[b.path]})
                    can = eng.analyze(cpath, cef)

                    def back(tm):
                        """a term of the closure body (constant, or captured value + offset) as a term of the creating body"""
                        if tm is None or tm[0] == "c":
                            return tm
                        m = re.match(r"^f:\(?\*?_1\.(\d+)\)?$", tm[1])
                        if not m or int(m.group(1)) >= len(caps):
                            return None
                        pv = an.eval_op(st, caps[int(m.group(1))], "cb%d" % bb)
                        if pv.ref_to is not None:
                            pv = st.vals.get(pv.ref_to)
                        pt = st.term(pv) if pv is not None else None
                        if pt is None:
                            return None
                        return ("c", pt[1] + tm[2]) if pt[0] == "c" else ("s", pt[1], pt[2] + tm[2])
                    # the capture that holds `size` (possibly widened to i64): the window may also be decided inside the closure, where
                    # values computed there (index + size, a remainder) are related to it
                    size_c = None
                    for ci, cop in enumerate(caps):
                        pv = an.eval_op(st, cop, "cs%d" % bb)
                        key = "_1.%d" % ci
                        if pv.ref_to is not None:
                            pv, key = st.vals.get(pv.ref_to), "(*_1.%d)" % ci
                        if pv is not None and st.term(pv) == ("s", "a2", 0):
                            for pre in ("(*_1)", "_1"):
                                k2 = key.replace("_1", pre, 1) if pre != "_1" else key
                                if "f:%s" % k2 in (cef or {}).get("fields", {}) or any(("f:%s" % k2) == sid for sid in can.in_states.get(0).syms):
                                    size_c = ("s", "f:%s" % k2, 0)
                    rets = [r for r in can.cfg.returns if r in can.results]
                    miss = [] if rets else ["closure does not return"]
                    for r in rets:
                        rs = can.results[r]
                        v0, v1 = rs.vals.get("_0.0"), rs.vals.get("_0.1")
                        b0_, b1_ = (back(rs.term(v0)) if v0 else None), (back(rs.term(v1)) if v1 else None)
                        if (b0_ is None or b1_ is None) and size_c is not None and v0 is not None and v1 is not None:
                            miss += window_ok(rs, rs.term(v0), rs.term(v1), b.path, site, {"form": "then", "closure": cpath, "decided": "in closure"}, size_t=size_c)
                        else:
                            miss += window_ok(st, b0_, b1_, b.path, site, {"form": "then", "closure": cpath})
                if miss:
                    ctx.violation("POST", b.path, "some-%d" % n_some, "returned window is not provably within 0 <= start < end <= size (%s)" % ", ".join(miss), sites=[site])
        if n_some == 0 and b0 in direct:
            ctx.anchor("POST", b.path + "/no-Some-return")

    def ret_sources(ib, l=0, seen=()):
        """what the return place can hold: ('call', bb) | ('win', variant) (an Option built here: Some is checked above, None is always
        allowed) | ('other', ..), following whole-local copies/moves"""
        if l in seen:
            return set()
        ds = ib.defs_of(l)
        if not ds or (0 < l <= ib.arg_count):
            return {("other", "_%d" % l)}
        out = set()
        for bb, si, rv in ds:
            if si == "term":
                out.add(("call", bb))
            elif rv["k"] == "use" and rv["a"]["k"] != "const" and not rv["a"]["place"]["p"]:
                out |= ret_sources(ib, rv["a"]["place"]["l"], seen + (l,))
            elif rv["k"] == "agg" and rv.get("ak") == "adt" and rv.get("adt") == "std::option::Option" and rv.get("variant") in ("Some", "None"):
                out.add(("win", rv["variant"]))
            else:
                out.add(("other", rv["k"]))
        return out

    for b in delegating:
        # delegation: _0 is the result of range_bounds(_, size) with size = own argument 2 -- or a window built by the impl itself (checked
        # against the postcondition above) or None
        ib = inlined_private(prog, b.path, keep=KEEP) or b      # a private conversion helper of the impl is part of it
        calls = [(bb, t) for bb, t in ib.calls() if call_matches(t, r"^surface::range_bounds$")]
        ok = False
        if calls:
            # each result reaches the return place unchanged (directly or through a local), size is the impl's own size argument
            srcs = ret_sources(ib)
            cbbs = {bb for bb, t in calls}
            ok = (all(x[0] == "win" or (x[0] == "call" and x[1] in cbbs) for x in srcs) and cbbs <= {x[1] for x in srcs if x[0] == "call"}
                  and all(origins(ib, t["args"][1]) == {("arg", 2)} for bb, t in calls))
        ctx.instance("POST", {"impl": b.impl_self, "delegates_to_range_bounds_with_size": ok})
        if not ok:
            ctx.violation("POST", b.path, "delegation", "range impl does not return range_bounds(_, size) unchanged with its own size argument", sites=[b.loc])

    # ---------- (a') delegation keeps the selector's kind and bounds ------------------------------------
    ctx.rule("DELEGATE-KIND", "range impls forward a range of their own kind whose bounds are only converted (no arithmetic): resolution happens in range_bounds alone", floor=51)
    I64MAX = str((1 << 63) - 1)
    CONV = (r"(?:surface::index_i64\(%s\)|\(%s as i64\)|i64::from\(%s\)|%s"
            r"|Result::unwrap_or\((?:\w+::)*(?:try_into|try_from)\(%s\), " + I64MAX + r"\))")

    def conv(x):
        return CONV % ((re.escape(x),) * 5)

    def canon_selector(e):
        """one spelling per meaning for the forwarded selector term: the bounds of an inclusive range are `RangeInclusive::start/end(r)`
        whether read through the accessors, `into_inner()` (= (start, end)) or the bound accessors of RangeBounds; a clone/copy of a bound
        is the bound; `RangeInclusive { start, end, exhausted: false }` is `RangeInclusive::new(start, end)`; a `(Bound, Bound)` pair or
        struct-literal of the same kind is what it denotes"""
        prev = None
        while prev != e:
            prev = e
            e = re.sub(r"RangeInclusive::into_inner\((arg1)\)\.0", r"RangeInclusive::start(\1)", e)
            e = re.sub(r"RangeInclusive::into_inner\((arg1)\)\.1", r"RangeInclusive::end(\1)", e)
            e = re.sub(r"RangeBounds::start_bound\((arg1)\)@Included\.0", r"RangeInclusive::start(\1)", e)
            e = re.sub(r"RangeBounds::end_bound\((arg1)\)@Included\.0", r"RangeInclusive::end(\1)", e)
            e = re.sub(r"(?:\w+::)*(?:clone|to_owned|borrow)\(((?:RangeInclusive::(?:start|end)\(arg1\))|arg1(?:\.\w+)*)\)", r"\1", e)
            e = re.sub(r"^RangeInclusive\{start: (.*), end: (.*), exhausted: 0\}$", r"RangeInclusive::new(\1, \2)", e)
        return e
    for b in bodies:
        if b in direct:
            continue
        ib = inlined_private(prog, b.path, keep=KEEP) or b
        calls = [(bb, t) for bb, t in ib.calls() if call_matches(t, r"^surface::range_bounds$")]
        if len(calls) != 1:
            continue
        from ..flow import expr as _expr
        e = canon_selector(_expr(ib, calls[0][1]["args"][0]))
        kind = re.sub(r"<.*$", "", b.impl_self).split("::")[-1]
        tmpl = {
            "RangeFull": r"^arg1$",
            "Range": r"^Range\{start: %s, end: %s\}$" % (conv("arg1.start"), conv("arg1.end")),
            "RangeFrom": r"^RangeFrom\{start: %s\}$" % conv("arg1.start"),
            "RangeTo": r"^RangeTo\{end: %s\}$" % conv("arg1.end"),
            "RangeInclusive": r"^RangeInclusive::new\(%s, %s\)$" % (conv("RangeInclusive::start(arg1)"), conv("RangeInclusive::end(arg1)")),
            "RangeToInclusive": r"^RangeToInclusive\{end: %s\}$" % conv("arg1.end"),
        }.get(kind)
        ok = tmpl is not None and re.match(tmpl, e) is not None
        # "resolution happens in range_bounds alone" also means the impl does not answer None by itself on a condition over the selector: a None
        # built here is acceptable only under tests of the axis length alone (an exact `size == 0` shortcut), never of the selector's bounds
        own_none = []
        icfg = ib.cfg()
        for bb, blk in enumerate(ib.blocks):
            if blk["cleanup"] or bb not in icfg.reach:
                continue
            for s_ in blk["stmts"]:
                if s_["k"] == "assign" and s_["rv"]["k"] == "agg" and s_["rv"].get("adt") == "std::option::Option" and s_["rv"].get("variant") == "None" \
                        and re.search(r"Option<\(usize, usize\)>", ib.local_ty(s_["place"]["l"])):
                    for gb, gblk in enumerate(ib.blocks):
                        gt = gblk["term"]
                        if gt["k"] == "switch" and gb != bb and icfg.dominates(gb, bb) and "arg1" in _expr(ib, gt["d"]):
                            own_none.append(_expr(ib, gt["d"])[:80])
        if own_none:
            ok = False
            e = "None when %s; otherwise %s" % (own_none[0], e)
        ctx.instance("DELEGATE-KIND", {"impl": b.impl_self, "forwards": e[:140], "ok": ok})
        if not ok:
            ctx.violation("DELEGATE-KIND", b.path, "forwarded-selector",
                          "%s does not forward a %s with converted bounds to range_bounds (got %s): bound arithmetic outside range_bounds makes this selector form resolve differently from its siblings" % (b.impl_self, kind, e[:160]),
                          sites=[b.loc])

    # ---------- (c) width -------------------------------------------------------------------------------
    ctx.rule("WIDTH", "no arithmetic in a type narrower than 64 bits inside any view_bounds impl / range_bounds", floor=61)
    for b in bodies + [rb] + [c for x in bodies + [rb] for c in prog.closures_of(x)]:
        bad = []
        for i, si, s in b.assigns():
            rv = s["rv"]
            if rv["k"] == "bin" and re.match(r"(Add|Sub|Mul|Div|Rem|Shl|Shr)", rv["op"]):
                for o in (rv["a"], rv["b"]):
                    ty = o["c"]["ty"] if o["k"] == "const" else b.local_ty(o["place"]["l"]) if not o["place"]["p"] else None
                    if ty in ("i8", "i16", "i32", "u8", "u16", "u32"):
                        bad.append((s["line"], rv["op"], ty))
            if rv["k"] == "un" and rv["op"] == "Neg":
                o = rv["a"]
                ty = o["c"]["ty"] if o["k"] == "const" else b.local_ty(o["place"]["l"])
                if ty in ("i8", "i16", "i32"):
                    bad.append((s["line"], "Neg", ty))
        ctx.instance("WIDTH", {"fn": b.path, "narrow_ops": len(bad)})
        if bad:
            ctx.violation("WIDTH", b.path, "narrow-arithmetic",
                          "bound arithmetic is performed in %s (%s): selectors and axis lengths that do not fit wrap or resolve differently from the 64-bit siblings" % (bad[0][2], bad[0][1]),
                          sites=["%s:%d" % (b.file, bad[0][0])])
    ctx.exhaustive = True
