"""Mutants for C15 (automata wiring / grammars), based on /repo at 3497bfa (NFA::optional allocates fresh states).
     python3 selftest/run.py C15
edits: (file, old text occurring exactly once, new text)."""

A = "src/automata.rs"
D = "src/decoder.rs"

_MANY_OLD = """    pub fn many(self) -> Self {
        // add offset of 2 to state ids
        let (mut states, ends) = Self::merge_states(once(self), 2);
        let (from, to) = ends[0];

        let start = NFAStateId(0);
        let stop = NFAStateId(1);
        let mut start_state = NFAState::new();
        start_state.epsilons.insert(from);
        start_state.epsilons.insert(stop);
        if let Some(to_state) = states.get_mut(&to) {
            to_state.epsilons.insert(stop);
            to_state.epsilons.insert(from);
        }
        states.insert(start, start_state);
        states.insert(stop, NFAState::new());

        Self {
            start,
            stop,
            states,
        }
    }
"""

_MANY_INPLACE = """    pub fn many(mut self) -> Self {
        if let Some(last) = self.states.get_mut(&self.stop) {
            last.epsilons.insert(self.start);
        }
        if let Some(first) = self.states.get_mut(&self.start) {
            first.epsilons.insert(self.stop);
        }
        self
    }
"""

_MANY_RENAMED = """    pub fn many(self) -> Self {
        let (mut merged, ends) = Self::merge_states(once(self), 2);
        let (inner_start, inner_stop) = ends[0];

        let new_start = NFAStateId(0);
        let new_stop = NFAStateId(1);
        let mut entry = NFAState::new();
        entry.epsilons.insert(new_stop);
        entry.epsilons.insert(inner_start);
        if let Some(last) = merged.get_mut(&inner_stop) {
            last.epsilons.insert(inner_start);
            last.epsilons.insert(new_stop);
        }
        merged.insert(new_stop, NFAState::new());
        merged.insert(new_start, entry);

        Self {
            start: new_start,
            stop: new_stop,
            states: merged,
        }
    }
"""

_OPTIONAL_CUR = """    pub fn optional(self) -> Self {
        // fresh start and stop states are required: adding `start -> stop` in place
        // accepts prefixes that re-enter `start` (`(a+ b)?` would accept `a`)
        let (mut states, ends) = Self::merge_states(once(self), 2);
        let (from, to) = ends[0];

        let start = NFAStateId(0);
        let stop = NFAStateId(1);
        let mut start_state = NFAState::new();
        start_state.epsilons.insert(from);
        start_state.epsilons.insert(stop);
        if let Some(to_state) = states.get_mut(&to) {
            to_state.epsilons.insert(stop);
        }
        states.insert(start, start_state);
        states.insert(stop, NFAState::new());

        Self {
            start,
            stop,
            states,
        }
    }
"""

# the implementation before repo commit 3497bfa (in place start -> stop)
_OPTIONAL_INPLACE = """    pub fn optional(mut self) -> Self {
        if let Some(start) = self.states.get_mut(&self.start) {
            start.epsilons.insert(self.stop);
        }
        self
    }
"""

_OPTIONAL_NO_EXIT = _OPTIONAL_CUR.replace("""        if let Some(to_state) = states.get_mut(&to) {
            to_state.epsilons.insert(stop);
        }
""", "        let _ = to;\n")
assert _OPTIONAL_NO_EXIT != _OPTIONAL_CUR

_OPTIONAL_NO_SKIP = _OPTIONAL_CUR.replace("        start_state.epsilons.insert(stop);\n", "")
assert _OPTIONAL_NO_SKIP != _OPTIONAL_CUR

_OPTIONAL_RENAMED = """    pub fn optional(self) -> Self {
        let (mut merged, ends) = Self::merge_states(once(self), 2);
        let (inner_start, inner_stop) = ends[0];

        let entry_id = NFAStateId(0);
        let exit_id = NFAStateId(1);
        if let Some(last) = merged.get_mut(&inner_stop) {
            last.epsilons.insert(exit_id);
        }
        let mut entry = NFAState::new();
        entry.epsilons.insert(exit_id);
        entry.epsilons.insert(inner_start);
        merged.insert(exit_id, NFAState::new());
        merged.insert(entry_id, entry);

        Self {
            start: entry_id,
            stop: exit_id,
            states: merged,
        }
    }
"""

_DEVATTR_OLD = "(NFA::number() + NFA::from(\";\").optional()).some(),"
_CURSOR_OLD = "            NFA::from(\"\\x1b[\"),\n            NFA::number(),\n            NFA::from(\";\"),\n            NFA::number(),\n            NFA::from(\"R\"),"
_CURSOR_NEW = "            NFA::from(\"\\x1b[\"),\n            (NFA::from(\";\") + NFA::number()).optional(),\n            NFA::from(\";\"),\n            NFA::number(),\n            NFA::from(\"R\"),"

MUTANTS = [
    # ---------------- R1: wiring templates ----------------
    {"id": "C15-some-forward-edge", "prop": "C15", "expect": "R1-WIRING/automata::NFA::some/not-thompson",
     "edits": [(A, "            stop.epsilons.insert(self.start);", "            stop.epsilons.insert(self.stop);")]},
    {"id": "C15-some-start-to-stop", "prop": "C15", "expect": "R1-WIRING/automata::NFA::some/not-thompson",
     "edits": [(A, "        if let Some(stop) = self.states.get_mut(&self.stop) {\n            stop.epsilons.insert(self.start);",
                "        if let Some(stop) = self.states.get_mut(&self.start) {\n            stop.epsilons.insert(self.stop);")]},
    {"id": "C15-some-start-to-stop-language", "prop": "C15", "expect": "R3-LANG/",
     "edits": [(A, "        if let Some(stop) = self.states.get_mut(&self.stop) {\n            stop.epsilons.insert(self.start);",
                "        if let Some(stop) = self.states.get_mut(&self.start) {\n            stop.epsilons.insert(self.stop);")]},
    {"id": "C15-choice-no-exit-edge", "prop": "C15", "expect": "R1-WIRING/automata::NFA::choice/not-thompson",
     "edits": [(A, "                to_state.epsilons.insert(stop);", "                let _ = (&to_state, stop);")]},
    {"id": "C15-choice-skips-first-alternative", "prop": "C15", "expect": "R1-WIRING/automata::NFA::choice/not-understood",
     "edits": [(A, "        for (from, to) in ends {", "        for (from, to) in ends.into_iter().skip(1) {")]},
    {"id": "C15-choice-entry-edge-once", "prop": "C15", "expect": "R1-WIRING/automata::NFA::choice",
     "edits": [(A, "        for (from, to) in ends {\n            start_state.epsilons.insert(from);",
                "        start_state.epsilons.insert(ends[0].0);\n        for (_from, to) in ends {")]},
    {"id": "C15-sequence-chain-reversed", "prop": "C15", "expect": "R1-WIRING/automata::NFA::sequence/not-thompson",
     "edits": [(A, "            let (_, from) = ends[index - 1];\n            let (to, _) = ends[index];",
                "            let (from, _) = ends[index - 1];\n            let (_, to) = ends[index];")]},
    {"id": "C15-sequence-chain-from-two", "prop": "C15", "expect": "R1-WIRING/automata::NFA::sequence/not-understood",
     "edits": [(A, "        for index in 1..ends.len() {", "        for index in 2..ends.len() {")]},
    {"id": "C15-sequence-stop-of-first", "prop": "C15", "expect": "R1-WIRING/automata::NFA::sequence/not-thompson",
     "edits": [(A, "        let (_, stop) = ends[ends.len() - 1];", "        let (_, stop) = ends[0];")]},
    {"id": "C15-many-no-skip-edge", "prop": "C15", "expect": "R1-WIRING/automata::NFA::many/not-thompson",
     "edits": [(A, "        start_state.epsilons.insert(from);\n        start_state.epsilons.insert(stop);\n        if let Some(to_state) = states.get_mut(&to) {\n            to_state.epsilons.insert(stop);\n            to_state.epsilons.insert(from);",
                "        start_state.epsilons.insert(from);\n        if let Some(to_state) = states.get_mut(&to) {\n            to_state.epsilons.insert(stop);\n            to_state.epsilons.insert(from);")]},
    {"id": "C15-many-fresh-ids-collide", "prop": "C15", "expect": "R1-WIRING/automata::NFA::many/not-understood",
     "edits": [(A, "        // add offset of 2 to state ids\n        let (mut states, ends) = Self::merge_states(once(self), 2);",
                "        // add offset of 2 to state ids\n        let (mut states, ends) = Self::merge_states(once(self), 1);")]},
    {"id": "C15-predicate-negated", "prop": "C15", "expect": "R1-WIRING/automata::NFA::predicate",
     "edits": [(A, "            if pred(symbol) {", "            if !pred(symbol) {")]},
    {"id": "C15-predicate-swapped-ends", "prop": "C15", "expect": "R1-WIRING/automata::NFA::predicate",
     "edits": [(A, "        states.insert(start, state);\n        states.insert(stop, NFAState::new());\n\n        Self {\n            start,\n            stop,",
                "        states.insert(start, state);\n        states.insert(stop, NFAState::new());\n\n        Self {\n            start: stop,\n            stop: start,")]},
    {"id": "C15-nothing-accepts-empty", "prop": "C15", "expect": "R1-WIRING/automata::NFA::nothing",
     "edits": [(A, "        states.insert(start, NFAState::new());\n        states.insert(stop, NFAState::new());\n        Self {\n            start,\n            stop,",
                "        states.insert(start, NFAState::new());\n        states.insert(stop, NFAState::new());\n        Self {\n            start,\n            stop: start,")]},
    {"id": "C15-from-str-id-not-advanced", "prop": "C15", "expect": "R1-WIRING/automata::NFA::from",
     "edits": [(A, "            state_id = next_id;", "            state_id = start;")]},
    {"id": "C15-from-str-self-loop", "prop": "C15", "expect": "R1-WIRING/automata::NFA::from",
     "edits": [(A, "            state.edges.insert(symbol, next_id);", "            state.edges.insert(symbol, state_id);")]},
    {"id": "C15-from-str-stop-is-start", "prop": "C15", "expect": "R1-WIRING/automata::NFA::from",
     "edits": [(A, "            start,\n            stop: state_id,", "            start,\n            stop: start,")]},
    {"id": "C15-merge-offset-not-advanced", "prop": "C15", "expect": "R1-MERGE/automata::NFA::merge_states/offset-advances",
     "edits": [(A, "            offset += max_id + 1;", "            offset += 0;")]},
    {"id": "C15-merge-offset-overlaps-by-one", "prop": "C15", "expect": "R1-MERGE/automata::NFA::merge_states/offset-advances",
     "edits": [(A, "            offset += max_id + 1;", "            offset += max_id;")]},
    {"id": "C15-merge-epsilons-not-shifted", "prop": "C15", "expect": "R1-MERGE",
     "edits": [(A, "                    .map(|v| NFAStateId(offset + v.0))", "                    .map(|v| NFAStateId(v.0))")]},
    {"id": "C15-merge-ends-swapped", "prop": "C15", "expect": "R1-MERGE",
     "edits": [(A, "            ends_out.push((start, stop));", "            ends_out.push((stop, start));")]},
    {"id": "C15-bitor-is-sequence", "prop": "C15", "expect": "R1-DELEG/automata::NFA::bitor",
     "edits": [(A, "        Self::choice([self, rhs])", "        Self::sequence([self, rhs])")]},
    {"id": "C15-add-reversed", "prop": "C15", "expect": "R1-DELEG/automata::NFA::add",
     "edits": [(A, "        Self::sequence([self, rhs])", "        Self::sequence([rhs, self])")]},
    # ---------------- R2 / R3: shape typing and languages ----------------
    {"id": "C15-many-in-place", "prop": "C15", "expect": "R2-SHAPE/decoder::KittyImageMatcher::matcher/many#1:operand-stop-has-out-edge",
     "edits": [(A, _MANY_OLD, _MANY_INPLACE)]},
    {"id": "C15-orig-optional-inplace", "prop": "C15", "expect": "R2-SHAPE/decoder::TermCapMatcher::matcher/optional#1:operand-start-has-in-edge",
     "edits": [(A, _OPTIONAL_CUR, _OPTIONAL_INPLACE)]},
    {"id": "C15-orig-optional-inplace-language", "prop": "C15", "expect": "R3-LANG/TermCapMatcher/asbuilt!=regex",
     "edits": [(A, _OPTIONAL_CUR, _OPTIONAL_INPLACE)]},
    {"id": "C15-inplace-optional-on-unclean-operand", "prop": "C15", "expect": "R2-SHAPE/decoder::DeviceAttrsMatcher::matcher/optional#1:operand-start-has-in-edge",
     "edits": [(A, _OPTIONAL_CUR, _OPTIONAL_INPLACE), (D, _DEVATTR_OLD, "(NFA::number() + NFA::from(\";\")).optional().some(),")]},
    {"id": "C15-inplace-optional-on-unclean-stop", "prop": "C15", "expect": "R2-SHAPE/decoder::CursorPositionMatcher::matcher/optional#1:operand-stop-has-out-edge",
     "edits": [(A, _OPTIONAL_CUR, _OPTIONAL_INPLACE), (D, _CURSOR_OLD, _CURSOR_NEW)]},
    {"id": "C15-inplace-optional-on-unclean-language", "prop": "C15", "expect": "R3-LANG/DeviceAttrsMatcher/asbuilt!=regex",
     "edits": [(A, _OPTIONAL_CUR, _OPTIONAL_INPLACE), (D, _DEVATTR_OLD, "(NFA::number() + NFA::from(\";\")).optional(),")]},
    {"id": "C15-optional-fresh-without-exit", "prop": "C15", "expect": "R1-WIRING/automata::NFA::optional/not-thompson",
     "edits": [(A, _OPTIONAL_CUR, _OPTIONAL_NO_EXIT)]},
    {"id": "C15-optional-fresh-without-skip", "prop": "C15", "expect": "R1-WIRING/automata::NFA::optional/not-thompson",
     "edits": [(A, _OPTIONAL_CUR, _OPTIONAL_NO_SKIP)]},
    {"id": "C15-optional-fresh-without-skip-language", "prop": "C15", "expect": "R3-LANG/DeviceAttrsMatcher/asbuilt!=regex",
     "edits": [(A, _OPTIONAL_CUR, _OPTIONAL_NO_SKIP)]},
    {"id": "C15-grammar-accepts-empty", "prop": "C15", "expect": "R3-LANG/GraphicRenditionMatcher/accepts-empty",
     "edits": [(D, "            NFA::from(\"\\x1b[\"),\n            (code + NFA::from(\";\").optional()).some(),\n            NFA::from(\"m\"),\n        ]);",
                "            NFA::from(\"\\x1b[\"),\n            (code + NFA::from(\";\").optional()).some(),\n            NFA::from(\"m\"),\n        ])\n        .optional();")]},
    {"id": "C15-union-tag-wrong-index", "prop": "C15", "expect": "R3-LANG/TTY_EVENT_AUTOMATA/tag-",
     "edits": [(D, "                        .tag_stop_state(MatcherTag::Matcher(index))", "                        .tag_stop_state(MatcherTag::Matcher(0))")]},
    {"id": "C15-union-skips-a-matcher", "prop": "C15", "expect": "GRAMMARS/ANCHOR",
     "edits": [(D, "        let automata = NFA::choice(matchers.iter().enumerate().map(|(index, matcher)| {", "        let automata = NFA::choice(matchers.iter().enumerate().skip(1).map(|(index, matcher)| {")]},
    {"id": "C15-unfoldable-predicate", "prop": "C15", "expect": "GRAMMARS/decoder::BracketedPasteMatcher::matcher/unfoldable",
     "edits": [(D, "            NFA::from(\"\\x1b[200~\"),\n            NFA::predicate(|b| b != b'\\x1b').many(),",
                "            NFA::from(\"\\x1b[200~\"),\n            NFA::predicate(|b| b.reverse_bits() != 0xd8 && b != b'\\x1b').many(),")]},   # (count_ones & co. are folded by sa.grammar since UTF8-LANG; reverse_bits is not)
    # ---------------- R4: compile ----------------
    {"id": "C15-density-assert-removed", "prop": "C15", "expect": "R4-DENSITY/automata::NFA::compile/no-density-assert",
     "edits": [(A, "                assert_eq!(index, state.0);", "                let _ = (index, state.0);")]},
    {"id": "C15-density-assert-trivial", "prop": "C15", "expect": "R4-DENSITY/automata::NFA::compile/no-density-assert",
     "edits": [(A, "                assert_eq!(index, state.0);", "                assert_eq!(index, index + state.0 - state.0);")]},
    {"id": "C15-accepting-from-start", "prop": "C15", "expect": "R4-INFO/automata::NFA::compile/is_accepting",
     "edits": [(A, "            info.is_accepting = dfa_state.contains(&self.stop);", "            info.is_accepting = dfa_state.contains(&self.start);")]},
    {"id": "C15-terminal-negated", "prop": "C15", "expect": "R4-INFO/automata::NFA::compile/is_terminal",
     "edits": [(A, "            info.is_terminal = dfa_table[&dfa_state_id].is_empty();", "            info.is_terminal = !dfa_table[&dfa_state_id].is_empty();")]},
    {"id": "C15-tags-first-member-only", "prop": "C15", "expect": "R4-INFO/automata::NFA::compile/tags",
     "edits": [(A, "                    info.tags.insert(tag.clone());", "                    info.tags.insert(tag.clone());\n                    break;")]},
    {"id": "C15-tags-of-stop-state-only", "prop": "C15", "expect": "R4-INFO/automata::NFA::compile/tags",
     "edits": [(A, "                if let Some(tag) = self.states.get(nfa_state_id).and_then(|s| s.tag.clone()) {",
                "                if let Some(tag) = self.states.get(&self.stop).filter(|_| nfa_state_id == &self.stop).and_then(|s| s.tag.clone()) {")]},
    # ---------------- benign edits (must stay silent) ----------------
    {"id": "C15-benign-optional-rename-reorder", "prop": "C15", "benign": True,
     "edits": [(A, _OPTIONAL_CUR, _OPTIONAL_RENAMED)]},
    {"id": "C15-benign-some-rename-local", "prop": "C15", "benign": True,
     "edits": [(A, "        if let Some(stop) = self.states.get_mut(&self.stop) {\n            stop.epsilons.insert(self.start);",
                "        if let Some(last) = self.states.get_mut(&self.stop) {\n            last.epsilons.insert(self.start);")]},
    {"id": "C15-benign-grammar-optional-on-unclean-operand", "prop": "C15", "benign": True,
     "edits": [(D, _CURSOR_OLD, _CURSOR_NEW)]},
    {"id": "C15-benign-many-rename-reorder", "prop": "C15", "benign": True,
     "edits": [(A, _MANY_OLD, _MANY_RENAMED)]},
    {"id": "C15-benign-merge-offset-spelled-out", "prop": "C15", "benign": True,
     "edits": [(A, "            offset += max_id + 1;", "            offset = offset + max_id + 1;")]},
    {"id": "C15-benign-compile-reorder-info", "prop": "C15", "benign": True,
     "edits": [(A, "            info.is_accepting = dfa_state.contains(&self.stop);\n            info.is_terminal = dfa_table[&dfa_state_id].is_empty();",
                "            info.is_terminal = dfa_table[&dfa_state_id].is_empty();\n            info.is_accepting = dfa_state.contains(&self.stop);")]},
    {"id": "C15-benign-termsize-with-plus", "prop": "C15", "benign": True,
     "edits": [(D, "        let nfa = NFA::sequence([NFA::from(\"\\x1b[8\"), size.clone(), NFA::from(\"\\x1b[4\"), size]);",
                "        let nfa = NFA::from(\"\\x1b[8\") + size.clone() + NFA::from(\"\\x1b[4\") + size;")]},
    {"id": "C15-benign-predicate-as-matches", "prop": "C15", "benign": True,
     "edits": [(D, "            NFA::predicate(|b| b == b'm' || b == b'M'),", "            NFA::predicate(|last| matches!(last, b'm' | b'M')),")]},
    {"id": "C15-benign-sequence-rename-locals", "prop": "C15", "benign": True,
     "edits": [(A, "            let (_, from) = ends[index - 1];\n            let (to, _) = ends[index];\n            if let Some(from_state) = states.get_mut(&from) {\n                from_state.epsilons.insert(to);",
                "            let (_, prev_stop) = ends[index - 1];\n            let (next_start, _) = ends[index];\n            if let Some(prev) = states.get_mut(&prev_stop) {\n                prev.epsilons.insert(next_start);")]},
    # ---- R4-TABLE: geometry of the flattened transition table (row width == stride == 256, column j == symbol j)
    # the seed C15-C: rows and stride both 255, consistent with each other, byte 0xff reads the next state's row
    {"id": "C15-table-rows-255-consistent", "prop": "C15", "expect": "R4-TABLE/automata::NFA::compile/row-width",
     "edits": [(A, "let lang_size = Symbol::MAX as usize + 1;", "let lang_size = Symbol::MAX as usize;"),
               (A, "(0..=Symbol::MAX).map(move |symbol| edges.get(&symbol).copied())", "(0..lang_size).map(move |symbol| edges.get(&(symbol as Symbol)).copied())")]},
    {"id": "C15-table-stride-255", "prop": "C15", "expect": "R4-TABLE/automata::NFA::compile/stride",
     "edits": [(A, "let lang_size = Symbol::MAX as usize + 1;", "let lang_size = Symbol::MAX as usize;")]},
    {"id": "C15-table-row-exclusive-range", "prop": "C15", "expect": "R4-TABLE/automata::NFA::compile/row-width",
     "edits": [(A, "(0..=Symbol::MAX).map(move |symbol| edges.get(&symbol).copied())", "(0..Symbol::MAX).map(move |symbol| edges.get(&symbol).copied())")]},
    {"id": "C15-table-row-starts-at-1", "prop": "C15", "expect": "R4-TABLE/automata::NFA::compile/row-width",
     "edits": [(A, "(0..=Symbol::MAX).map(move |symbol| edges.get(&symbol).copied())", "(1..=Symbol::MAX).map(move |symbol| edges.get(&symbol).copied())")]},
    {"id": "C15-table-column-key-altered", "prop": "C15", "expect": "R4-TABLE/automata::NFA::compile/column-key",
     "edits": [(A, "(0..=Symbol::MAX).map(move |symbol| edges.get(&symbol).copied())", "(0..=Symbol::MAX).map(move |symbol| edges.get(&(symbol ^ 0x20)).copied())")]},
    {"id": "C15-table-transition-stride-off", "prop": "C15", "expect": "R4-TABLE/ANCHOR/transition-index",
     "edits": [(A, "self.states[self.lang_size * state.0 + symbol as usize]", "self.states[(self.lang_size - 1) * state.0 + symbol as usize]")]},
    {"id": "C15-benign-table-row-literal-range", "prop": "C15", "benign": True,
     "edits": [(A, "(0..=Symbol::MAX).map(move |symbol| edges.get(&symbol).copied())", "(0..=255u8).map(move |symbol| edges.get(&symbol).copied())")]},
    {"id": "C15-benign-table-stride-literal", "prop": "C15", "benign": True,
     "edits": [(A, "let lang_size = Symbol::MAX as usize + 1;", "let lang_size = 256;")]},
    {"id": "C15-benign-table-row-from-lang-size", "prop": "C15", "benign": True,
     "edits": [(A, "(0..=Symbol::MAX).map(move |symbol| edges.get(&symbol).copied())", "(0..lang_size).map(move |symbol| edges.get(&(symbol as Symbol)).copied())")]},
    {"id": "C15-benign-table-row-min-max", "prop": "C15", "benign": True,
     "edits": [(A, "(0..=Symbol::MAX).map(move |symbol| edges.get(&symbol).copied())", "(Symbol::MIN..=Symbol::MAX).map(move |sym| edges.get(&sym).copied())")]},
    {"id": "C15-benign-table-transition-commuted", "prop": "C15", "benign": True,
     "edits": [(A, "self.states[self.lang_size * state.0 + symbol as usize]", "self.states[symbol as usize + state.0 * self.lang_size]")]},
    # seeded/benign C03-N / C15-N: lossless conversion call instead of the cast, factors commuted
    {"id": "C15-benign-table-transition-usize-from", "prop": "C15", "benign": True,
     "edits": [(A, "self.states[self.lang_size * state.0 + symbol as usize]", "self.states[state.0 * self.lang_size + usize::from(symbol)]")]},
    {"id": "C15-benign-table-transition-into-hoisted", "prop": "C15", "benign": True,
     "edits": [(A, "self.states[self.lang_size * state.0 + symbol as usize]",
                "let column: usize = symbol.into();\n        let row = state.0 * self.lang_size;\n        self.states[row + column]")]},
    {"id": "C15-table-transition-from-stride-off", "prop": "C15", "expect": "R4-TABLE/ANCHOR/transition-index",
     "edits": [(A, "self.states[self.lang_size * state.0 + symbol as usize]", "self.states[state.0 * (self.lang_size - 1) + usize::from(symbol)]")]},
]


MUTANTS += [
    {"id": "C15-compile-self-loop-shortcut", "prop": "C15", "expect": "R5-SUBSET",
     "edits": [("src/automata.rs", "                let dfa_state_new = dfa_state\n                    .iter()\n                    .flat_map(|nfa_state_id| self.states[nfa_state_id].edges.get(&symbol).copied());\n",
                "                let dfa_state_new: BTreeSet<NFAStateId> = dfa_state\n                    .iter()\n                    .flat_map(|nfa_state_id| self.states[nfa_state_id].edges.get(&symbol).copied())\n                    .collect();\n                if dfa_state_new.is_subset(&dfa_state) {\n                    dfa_edges.insert(symbol, dfa_state_id);\n                    continue;\n                }\n")]},
    {"id": "C15-benign-compile-collect-move-set", "prop": "C15", "benign": True,
     "edits": [("src/automata.rs", "                let dfa_state_new = dfa_state\n                    .iter()\n                    .flat_map(|nfa_state_id| self.states[nfa_state_id].edges.get(&symbol).copied());\n",
                "                let dfa_state_new: BTreeSet<NFAStateId> = dfa_state\n                    .iter()\n                    .flat_map(|nfa_state_id| self.states[nfa_state_id].edges.get(&symbol).copied())\n                    .collect();\n")]},
]


# ---- R4 robustness: behaviour-preserving rewrites of compile() (taken from seeded/benign C03-C, C15-C and variations) and near misses
_ROWS = ("        let states = dfa_table\n            .into_iter()\n            .enumerate()\n            .flat_map(|(index, (state, edges))| {\n                assert_eq!(index, state.0);\n"
         "                (0..=Symbol::MAX).map(move |symbol| edges.get(&symbol).copied())\n            })\n            .collect::<Vec<Option<DFAState>>>();\n")
_ROWS_LOOP = ("        let mut states: Vec<Option<DFAState>> = Vec::with_capacity(dfa_table.len() * lang_size);\n        for (index, (state, edges)) in dfa_table.into_iter().enumerate() {\n"
              "            assert_eq!(index, state.0);\n            states.extend((0..=Symbol::MAX).map(|symbol| edges.get(&symbol).copied()));\n        }\n"
              "        debug_assert_eq!(states.len(), infos.len() * lang_size);\n")
_ROWS_EXTEND = ("        let mut states: Vec<Option<DFAState>> = Vec::with_capacity(dfa_table.len() * lang_size);\n        states.extend(\n            dfa_table\n                .into_iter()\n                .enumerate()\n"
                "                .flat_map(|(index, (state, edges))| {\n                    assert_eq!(index, state.0);\n                    (0..=Symbol::MAX).map(move |symbol| edges.get(&symbol).copied())\n                }),\n        );\n")
_TAGS = ("                if let Some(tag) = self.states.get(nfa_state_id).and_then(|s| s.tag.clone()) {\n                    info.tags.insert(tag.clone());\n                }\n")
_INFO_HEAD = "        for (dfa_state, dfa_state_id) in dfa_states {\n            let info = &mut infos[dfa_state_id.0];\n"
MUTANTS += [
    {"id": "C15-benign-r4-rows-for-loop-extend", "prop": "C15", "benign": True, "edits": [(A, _ROWS, _ROWS_LOOP)]},
    {"id": "C15-benign-r4-rows-extend-flat-map", "prop": "C15", "benign": True, "edits": [(A, _ROWS, _ROWS_EXTEND)]},
    {"id": "C15-benign-r4-infos-with-capacity", "prop": "C15", "benign": True,
     "edits": [(A, "        let mut infos: Vec<DFAStateInfo<T>> = Vec::new();", "        debug_assert_eq!(dfa_table.len(), dfa_states.len());\n        let mut infos: Vec<DFAStateInfo<T>> = Vec::with_capacity(dfa_states.len());")]},
    {"id": "C15-benign-r4-tag-as-ref", "prop": "C15", "benign": True,
     "edits": [(A, _TAGS, "                if let Some(tag) = self.states.get(nfa_state_id).and_then(|s| s.tag.as_ref()) {\n                    info.tags.insert(tag.clone());\n                }\n")]},
    {"id": "C15-benign-r4-tag-single-clone", "prop": "C15", "benign": True,
     "edits": [(A, _TAGS, "                if let Some(tag) = self.states.get(nfa_state_id).and_then(|s| s.tag.clone()) {\n                    info.tags.insert(tag);\n                }\n")]},
    {"id": "C15-benign-r4-tag-nested-if-let", "prop": "C15", "benign": True,
     "edits": [(A, _TAGS, "                if let Some(member) = self.states.get(nfa_state_id) {\n                    if let Some(tag) = &member.tag {\n                        info.tags.insert(tag.clone());\n                    }\n                }\n")]},
    {"id": "C15-benign-r4-tags-extend-filter-map", "prop": "C15", "benign": True,
     "edits": [(A, "            for nfa_state_id in dfa_state.iter() {\n" + _TAGS + "            }\n",
                "            info.tags.extend(\n                dfa_state\n                    .iter()\n                    .filter_map(|nfa_state_id| self.states.get(nfa_state_id).and_then(|s| s.tag.clone())),\n            );\n")]},
    {"id": "C15-benign-r4-info-get-mut-and-table-get", "prop": "C15", "benign": True,
     "edits": [(A, _INFO_HEAD + "            info.is_accepting = dfa_state.contains(&self.stop);\n            info.is_terminal = dfa_table[&dfa_state_id].is_empty();\n",
                "        for (members, id) in dfa_states.into_iter() {\n            let dfa_state = members;\n            let dfa_state_id = id;\n            let info = infos.get_mut(dfa_state_id.0).expect(\"one info per state\");\n"
                "            info.is_terminal = dfa_table.get(&dfa_state_id).expect(\"row of every state\").is_empty();\n            info.is_accepting = dfa_state.contains(&self.stop);\n")]},
    {"id": "C15-benign-r4-assert-as-if-panic", "prop": "C15", "benign": True,
     "edits": [(A, "                assert_eq!(index, state.0);", "                if state.0 != index {\n                    panic!(\"DFA states are not dense\");\n                }")]},
    {"id": "C15-benign-r4-start-id-reused", "prop": "C15", "benign": True,
     "edits": [(A, "        dfa_states.insert(dfa_start, DFAState(0));", "        dfa_states.insert(dfa_start, dfa_start_id);")]},
    # near misses
    {"id": "C15-r4-rows-loop-without-assert", "prop": "C15", "expect": "R4-DENSITY/automata::NFA::compile/no-density-assert",
     "edits": [(A, _ROWS, _ROWS_LOOP.replace("            assert_eq!(index, state.0);\n", "            let _ = (index, state.0);\n"))]},
    {"id": "C15-r4-rows-loop-assert-skipped-for-empty-rows", "prop": "C15", "expect": "R4-DENSITY/automata::NFA::compile/guard-bypassed",
     "edits": [(A, _ROWS, _ROWS_LOOP.replace("            assert_eq!(index, state.0);\n", "            if !edges.is_empty() {\n                assert_eq!(index, state.0);\n            }\n"))]},
    {"id": "C15-r4-rows-loop-stops-early", "prop": "C15", "expect": "R4-DENSITY/automata::NFA::compile/states-not-from-guarded-rows",
     "edits": [(A, _ROWS, _ROWS_LOOP.replace("            states.extend((0..=Symbol::MAX).map(|symbol| edges.get(&symbol).copied()));\n",
                                             "            states.extend((0..=Symbol::MAX).map(|symbol| edges.get(&symbol).copied()));\n            if edges.is_empty() && index > 0 {\n                break;\n            }\n")
                .replace("        debug_assert_eq!(states.len(), infos.len() * lang_size);\n", ""))]},
    {"id": "C15-r4-rows-extra-push", "prop": "C15", "expect": "R4-DENSITY/automata::NFA::compile/states-not-from-guarded-rows",
     "edits": [(A, _ROWS, _ROWS_EXTEND.replace("        states.extend(\n", "        states.push(None);\n        states.extend(\n"))]},
    {"id": "C15-r4-tag-as-ref-of-start-state", "prop": "C15", "expect": "R4-INFO/automata::NFA::compile/tags",
     "edits": [(A, _TAGS, "                if let Some(tag) = self.states.get(&self.start).filter(|_| nfa_state_id == &self.start).and_then(|s| s.tag.as_ref()) {\n                    info.tags.insert(tag.clone());\n                }\n")]},
    {"id": "C15-r4-tags-extend-first-only", "prop": "C15", "expect": "R4-INFO/automata::NFA::compile/tags",
     "edits": [(A, "            for nfa_state_id in dfa_state.iter() {\n" + _TAGS + "            }\n",
                "            info.tags.extend(\n                dfa_state\n                    .iter()\n                    .filter_map(|nfa_state_id| self.states.get(nfa_state_id).and_then(|s| s.tag.clone()))\n                    .take(1),\n            );\n")]},
    {"id": "C15-r4-info-loop-skips-states", "prop": "C15", "expect": "R4-INFO/automata::NFA::compile/is_",
     "edits": [(A, _INFO_HEAD, "        for (dfa_state, dfa_state_id) in dfa_states {\n            if dfa_state.len() > 64 {\n                break;\n            }\n            let info = &mut infos[dfa_state_id.0];\n")]},
    {"id": "C15-r4-terminal-from-other-row", "prop": "C15", "expect": "R4-INFO/automata::NFA::compile/is_terminal",
     "edits": [(A, "            info.is_terminal = dfa_table[&dfa_state_id].is_empty();", "            info.is_terminal = dfa_table[&dfa_start_id].is_empty();")]},
]


MUTANTS += [
    {"id": "C15-benign-union-built-in-for-loop", "prop": "C15", "benign": True,
     "edits": [("src/decoder.rs", '        let automata = NFA::choice(matchers.iter().enumerate().map(|(index, matcher)| {\n            match matcher.matcher() {\n                Either::Left(automata) => {\n                    automata\n                        // this call only here to convert type as [Void] cannot be created\n                        .tags_map(|_| MatcherTag::Matcher(index))\n                        .tag_stop_state(MatcherTag::Matcher(index))\n                }\n                Either::Right(automata) => automata.tags_map(MatcherTag::Item),\n            }\n        }))\n        .compile();\n', '        let mut alternatives = Vec::with_capacity(matchers.len());\n        for (index, matcher) in matchers.iter().enumerate() {\n            let alternative = match matcher.matcher() {\n                Either::Left(automata) => automata\n                    .tags_map(|_| MatcherTag::Matcher(index))\n                    .tag_stop_state(MatcherTag::Matcher(index)),\n                Either::Right(automata) => automata.tags_map(MatcherTag::Item),\n            };\n            alternatives.push(alternative);\n        }\n        let automata = NFA::choice(alternatives).compile();\n')]},
]


# ---- R1 robustness (sa.grammar role / merge evaluators): behaviour-preserving refactorings of the combinators and of merge_states must stay
# silent (helpers, closures, iterator idioms, max idioms, let-insensitivity, named constants); their near-misses must be reported
_R1_SEQ_IFLET = """            if let Some(from_state) = states.get_mut(&from) {
                from_state.epsilons.insert(to);
            }
"""
_R1_CHOICE_LOOP = """        for (from, to) in ends {
            start_state.epsilons.insert(from);
            if let Some(to_state) = states.get_mut(&to) {
                to_state.epsilons.insert(stop);
            }
        }
"""
_R1_CHOICE_IFLET = """            if let Some(to_state) = states.get_mut(&to) {
                to_state.epsilons.insert(stop);
            }
"""
_R1_MANY_IFLET = """        if let Some(to_state) = states.get_mut(&to) {
            to_state.epsilons.insert(stop);
            to_state.epsilons.insert(from);
        }
"""
_R1_SOME_IFLET = """        if let Some(stop) = self.states.get_mut(&self.stop) {
            stop.epsilons.insert(self.start);
        }
"""
_R1_ANCHOR = "/// Nondeterministic finite automaton\n"
_R1_CONNECT = """fn connect<T>(states: &mut BTreeMap<NFAStateId, NFAState<T>>, from: NFAStateId, to: NFAStateId) {
    if let Some(state) = states.get_mut(&from) {
        state.epsilons.insert(to);
    }
}

"""
_R1_CONNECT_SWAPPED = """fn connect<T>(states: &mut BTreeMap<NFAStateId, NFAState<T>>, from: NFAStateId, to: NFAStateId) {
    if let Some(state) = states.get_mut(&to) {
        state.epsilons.insert(from);
    }
}

"""
_R1_CONNECT_EDITS = [
    (A, _R1_SEQ_IFLET, "            connect(&mut states, from, to);\n"),
    (A, _R1_CHOICE_IFLET, "            connect(&mut states, to, stop);\n"),
    (A, _R1_MANY_IFLET, "        connect(&mut states, to, stop);\n        connect(&mut states, to, from);\n"),
    (A, _R1_SOME_IFLET, "        connect(&mut self.states, self.stop, self.start);\n"),
]
_R1_SHIFTED = """impl NFAStateId {
    fn shifted(self, offset: usize) -> Self {
        NFAStateId(offset + self.0)
    }
}

"""
_R1_MERGE_ENDS = """            let start = NFAStateId(offset + start.0);
            let stop = NFAStateId(offset + stop.0);
            ends_out.push((start, stop));
"""
_R1_MERGE_ID = "                let id = NFAStateId(offset + id.0);\n"
_R1_MERGE_EDGES = "                    .map(|(k, v)| (k, NFAStateId(offset + v.0)))\n"
_R1_MERGE_EPS = "                    .map(|v| NFAStateId(offset + v.0))\n"
_R1_MERGE_INSERT_KEY = "                states_out.insert(\n                    id,\n"
_R1_MERGE_MAX = "                max_id = std::cmp::max(max_id, id.0);\n"
_R1_SHIFTED_EDITS = [
    (A, _R1_MERGE_ENDS, "            ends_out.push((start.shifted(offset), stop.shifted(offset)));\n"),
    (A, _R1_MERGE_ID, ""),
    (A, _R1_MERGE_EDGES, "                    .map(|(symbol, target)| (symbol, target.shifted(offset)))\n"),
    (A, _R1_MERGE_EPS, "                    .map(|target| target.shifted(offset))\n"),
    (A, _R1_MERGE_INSERT_KEY, "                states_out.insert(\n                    id.shifted(offset),\n"),
]
_R1_MERGE_EDGES_FULL = """                let edges = edges
                    .into_iter()
                    .map(|(k, v)| (k, NFAStateId(offset + v.0)))
                    .collect();
"""
_R1_OPT_BODY = """        let start = NFAStateId(0);
        let stop = NFAStateId(1);
        let mut start_state = NFAState::new();
        start_state.epsilons.insert(from);
        start_state.epsilons.insert(stop);
        if let Some(to_state) = states.get_mut(&to) {
            to_state.epsilons.insert(stop);
        }
        states.insert(start, start_state);
"""
_R1_SEQ_ENDS = """        let (start, _) = ends[0];
        let (_, stop) = ends[ends.len() - 1];
"""
_R1_CHOICE_REST = """        let start = NFAStateId(0);
        let stop = NFAStateId(1);
        let mut start_state = NFAState::new();
        for (from, to) in ends {
            start_state.epsilons.insert(from);
            if let Some(to_state) = states.get_mut(&to) {
                to_state.epsilons.insert(stop);
            }
        }
        states.insert(start, start_state);
        states.insert(stop, NFAState::new());

        Self {
            start,
            stop,
            states,
        }
    }

    /// For `a` regular expression it is equivalent to `a+`
"""
MUTANTS += [
    {"id": "C15-benign-r1-shift-helper", "prop": "C15", "benign": True,
     "edits": [(A, _R1_ANCHOR, _R1_SHIFTED + _R1_ANCHOR)] + _R1_SHIFTED_EDITS},
    {"id": "C15-benign-r1-connect-helper", "prop": "C15", "benign": True,
     "edits": [(A, _R1_ANCHOR, _R1_CONNECT + _R1_ANCHOR)] + _R1_CONNECT_EDITS},
    {"id": "C15-benign-r1-state-link-method", "prop": "C15", "benign": True,
     "edits": [(A, "impl<T> NFAState<T> {\n", "impl<T> NFAState<T> {\n    fn link(&mut self, to: NFAStateId) {\n        self.epsilons.insert(to);\n    }\n\n"),
               (A, _R1_OPT_BODY, _R1_OPT_BODY.replace("start_state.epsilons.insert(from)", "start_state.link(from)").replace("start_state.epsilons.insert(stop)", "start_state.link(stop)").replace("to_state.epsilons.insert(stop)", "to_state.link(stop)"))]},
    {"id": "C15-benign-r1-wrap-helper", "prop": "C15", "benign": True,
     "edits": [(A, _R1_ANCHOR, """fn wrap<T>(states: &mut BTreeMap<NFAStateId, NFAState<T>>, entry: NFAState<T>) -> (NFAStateId, NFAStateId) {
    let start = NFAStateId(0);
    let stop = NFAStateId(1);
    states.insert(start, entry);
    states.insert(stop, NFAState::new());
    (start, stop)
}

""" + _R1_ANCHOR),
               (A, _R1_OPT_BODY + "        states.insert(stop, NFAState::new());\n", """        let mut start_state = NFAState::new();
        start_state.epsilons.insert(from);
        start_state.epsilons.insert(NFAStateId(1));
        let (start, stop) = wrap(&mut states, start_state);
        if let Some(to_state) = states.get_mut(&to) {
            to_state.epsilons.insert(stop);
        }
""")]},
    {"id": "C15-benign-r1-sequence-windows", "prop": "C15", "benign": True,
     "edits": [(A, "        for index in 1..ends.len() {\n            let (_, from) = ends[index - 1];\n            let (to, _) = ends[index];\n",
                "        for pair in ends.windows(2) {\n            let (_, from) = pair[0];\n            let (to, _) = pair[1];\n")]},
    {"id": "C15-benign-r1-sequence-zip-skip", "prop": "C15", "benign": True,
     "edits": [(A, "        for index in 1..ends.len() {\n            let (_, from) = ends[index - 1];\n            let (to, _) = ends[index];\n",
                "        for (&(_, from), &(to, _)) in ends.iter().zip(ends.iter().skip(1)) {\n")]},
    {"id": "C15-benign-r1-sequence-index-from-zero", "prop": "C15", "benign": True,
     "edits": [(A, "        for index in 1..ends.len() {\n            let (_, from) = ends[index - 1];\n            let (to, _) = ends[index];\n",
                "        for index in 0..ends.len() - 1 {\n            let from = ends[index].1;\n            let to = ends[index + 1].0;\n")]},
    {"id": "C15-benign-r1-sequence-let-else", "prop": "C15", "benign": True,
     "edits": [(A, "        let (mut states, ends) = Self::merge_states(nfas, 0);\n        if ends.is_empty() {\n            return Self::empty();\n        }\n",
                "        let (mut states, ends) = Self::merge_states(nfas, 0);\n        let Some(&(start, _)) = ends.first() else {\n            return Self::empty();\n        };\n"),
               (A, _R1_SEQ_ENDS, "        let stop = ends[ends.len() - 1].1;\n")]},
    {"id": "C15-benign-r1-merge-max-by-if", "prop": "C15", "benign": True,
     "edits": [(A, _R1_MERGE_MAX, "                if id.0 > max_id {\n                    max_id = id.0;\n                }\n")]},
    {"id": "C15-benign-r1-merge-max-match-cmp", "prop": "C15", "benign": True,
     "edits": [(A, _R1_MERGE_MAX, "                match id.0.cmp(&max_id) {\n                    std::cmp::Ordering::Greater => max_id = id.0,\n                    _ => {}\n                }\n")]},
    {"id": "C15-benign-r1-merge-max-two-pass", "prop": "C15", "benign": True,
     "edits": [(A, "            let mut max_id = 0;\n", "            let max_id = states.keys().map(|id| id.0).max().unwrap_or(0);\n"),
               (A, _R1_MERGE_MAX, "")]},
    {"id": "C15-benign-r1-merge-inlined-lets", "prop": "C15", "benign": True,
     "edits": [(A, _R1_MERGE_ENDS, "            ends_out.push((NFAStateId(offset + start.0), NFAStateId(offset + stop.0)));\n"),
               (A, _R1_MERGE_ID, ""),
               (A, _R1_MERGE_INSERT_KEY, "                states_out.insert(\n                    NFAStateId(offset + id.0),\n")]},
    {"id": "C15-benign-r1-merge-flipped-operands", "prop": "C15", "benign": True,
     "edits": [(A, _R1_MERGE_ENDS, "            let start = NFAStateId(start.0 + offset);\n            let stop = NFAStateId(stop.0 + offset);\n            ends_out.push((start, stop));\n"),
               (A, _R1_MERGE_MAX, "                max_id = std::cmp::max(id.0, max_id);\n"),
               (A, _R1_MERGE_EPS, "                    .map(|target| NFAStateId(target.0 + offset))\n"),
               (A, "            offset += max_id + 1;", "            offset += 1 + max_id;")]},
    {"id": "C15-benign-r1-merge-shift-closure", "prop": "C15", "benign": True,
     "edits": [(A, _R1_MERGE_ENDS, "            let shift = |id: NFAStateId| NFAStateId(offset + id.0);\n            ends_out.push((shift(start), shift(stop)));\n"),
               (A, _R1_MERGE_ID, "                let id = shift(id);\n"),
               (A, _R1_MERGE_EDGES, "                    .map(|(k, v)| (k, shift(v)))\n"),
               (A, _R1_MERGE_EPS, "                    .map(shift)\n")]},
    {"id": "C15-benign-r1-merge-edges-for-loop", "prop": "C15", "benign": True,
     "edits": [(A, _R1_MERGE_EDGES_FULL, "                let mut shifted_edges = BTreeMap::new();\n                for (symbol, target) in edges {\n                    shifted_edges.insert(symbol, NFAStateId(offset + target.0));\n                }\n                let edges = shifted_edges;\n")]},
    {"id": "C15-benign-r1-choice-match", "prop": "C15", "benign": True,
     "edits": [(A, _R1_CHOICE_IFLET, "            match states.get_mut(&to) {\n                Some(to_state) => {\n                    to_state.epsilons.insert(stop);\n                }\n                None => {}\n            }\n")]},
    {"id": "C15-benign-r1-choice-for-each", "prop": "C15", "benign": True,
     "edits": [(A, _R1_CHOICE_LOOP, "        ends.into_iter().for_each(|(from, to)| {\n            start_state.epsilons.insert(from);\n            if let Some(to_state) = states.get_mut(&to) {\n                to_state.epsilons.insert(stop);\n            }\n        });\n")]},
    {"id": "C15-benign-r1-choice-by-ref-fields", "prop": "C15", "benign": True,
     "edits": [(A, _R1_CHOICE_LOOP, "        for end in &ends {\n            start_state.epsilons.insert(end.0);\n            if let Some(to_state) = states.get_mut(&end.1) {\n                to_state.epsilons.insert(stop);\n            }\n        }\n")]},
    {"id": "C15-benign-r1-choice-tail-if-else", "prop": "C15", "benign": True,
     "edits": [(A, "        let (mut states, ends) = Self::merge_states(nfas, 2);\n        if ends.is_empty() {\n            return Self::nothing();\n        }\n\n" + _R1_CHOICE_REST,
                "        let (mut states, ends) = Self::merge_states(nfas, 2);\n        if ends.is_empty() {\n            Self::nothing()\n        } else {\n" + _R1_CHOICE_REST.replace("        Self {\n            start,\n            stop,\n            states,\n        }\n    }\n", "        Self {\n            start,\n            stop,\n            states,\n        }\n        }\n    }\n"))]},
    {"id": "C15-benign-r1-named-constants", "prop": "C15", "benign": True,
     "edits": [(A, _R1_ANCHOR, "const FRESH_START: NFAStateId = NFAStateId(0);\nconst FRESH_STOP: NFAStateId = NFAStateId(1);\nconst RESERVED: usize = 2;\n\n" + _R1_ANCHOR),
               (A, "        // add offset of 2 to state ids\n        let (mut states, ends) = Self::merge_states(once(self), 2);\n        let (from, to) = ends[0];\n\n        let start = NFAStateId(0);\n        let stop = NFAStateId(1);\n",
                "        let (mut states, ends) = Self::merge_states(once(self), RESERVED);\n        let (from, to) = ends[0];\n\n        let start = FRESH_START;\n        let stop = FRESH_STOP;\n")]},
    {"id": "C15-r1-sequence-windows-reversed", "prop": "C15", "expect": "R1-WIRING/automata::NFA::sequence/not-thompson",
     "edits": [(A, "        for index in 1..ends.len() {\n            let (_, from) = ends[index - 1];\n            let (to, _) = ends[index];\n",
                "        for pair in ends.windows(2) {\n            let (_, from) = pair[1];\n            let (to, _) = pair[0];\n")]},
    {"id": "C15-r1-sequence-zip-skip-wrong-side", "prop": "C15", "expect": "R1-WIRING/automata::NFA::sequence/not-thompson",
     "edits": [(A, "        for index in 1..ends.len() {\n            let (_, from) = ends[index - 1];\n            let (to, _) = ends[index];\n",
                "        for (&(_, from), &(to, _)) in ends.iter().skip(1).zip(ends.iter()) {\n")]},
    {"id": "C15-r1-sequence-index-before-empty-check", "prop": "C15", "expect": "R1-WIRING/automata::NFA::sequence/not-understood",
     "edits": [(A, "        let (mut states, ends) = Self::merge_states(nfas, 0);\n        if ends.is_empty() {\n            return Self::empty();\n        }\n",
                "        let (mut states, ends) = Self::merge_states(nfas, 0);\n        let (start, _) = ends[0];\n        if ends.is_empty() {\n            return Self::empty();\n        }\n"),
               (A, "        let (start, _) = ends[0];\n        let (_, stop) = ends[ends.len() - 1];\n", "        let (_, stop) = ends[ends.len() - 1];\n")]},
    {"id": "C15-r1-shift-helper-ignores-offset", "prop": "C15", "expect": "R1-MERGE/automata::NFA::merge_states/",
     "edits": [(A, _R1_ANCHOR, _R1_SHIFTED.replace("NFAStateId(offset + self.0)", "NFAStateId(self.0 + offset - offset)") + _R1_ANCHOR)] + _R1_SHIFTED_EDITS},
    {"id": "C15-r1-shift-helper-edges-off-by-one", "prop": "C15", "expect": "R1-MERGE/automata::NFA::merge_states/edge-targets-are-shifted",
     "edits": [(A, _R1_ANCHOR, _R1_SHIFTED + _R1_ANCHOR)] + [(f, o, n.replace("(symbol, target.shifted(offset))", "(symbol, target.shifted(offset + 1))")) for (f, o, n) in _R1_SHIFTED_EDITS]},
    {"id": "C15-r1-merge-min-by-if", "prop": "C15", "expect": "R1-MERGE/automata::NFA::merge_states/max-id-max",
     "edits": [(A, _R1_MERGE_MAX, "                if id.0 < max_id {\n                    max_id = id.0;\n                }\n")]},
    {"id": "C15-r1-merge-max-over-shifted-id", "prop": "C15", "expect": "R1-MERGE/automata::NFA::merge_states/max-id-max",
     "edits": [(A, _R1_MERGE_MAX + "                let NFAState {\n                    edges,\n                    epsilons,\n                    tag,\n                } = state;\n" + _R1_MERGE_ID,
                "                let NFAState {\n                    edges,\n                    epsilons,\n                    tag,\n                } = state;\n" + _R1_MERGE_ID + _R1_MERGE_MAX)]},
    {"id": "C15-r1-merge-max-two-pass-len", "prop": "C15", "expect": "R1-MERGE/automata::NFA::merge_states/offset-advances",
     "edits": [(A, "            let mut max_id = 0;\n", "            let max_id = states.len();\n"),
               (A, _R1_MERGE_MAX, "")]},
    {"id": "C15-r1-merge-move-closure-stale-offset", "prop": "C15", "expect": "R1-MERGE/automata::NFA::merge_states/",
     "edits": [(A, "        let mut ends_out: Vec<(NFAStateId, NFAStateId)> = Vec::new();\n", "        let mut ends_out: Vec<(NFAStateId, NFAStateId)> = Vec::new();\n        let shift = move |id: NFAStateId| NFAStateId(offset + id.0);\n"),
               (A, _R1_MERGE_ENDS, "            ends_out.push((shift(start), shift(stop)));\n"),
               (A, _R1_MERGE_ID, "                let id = shift(id);\n"),
               (A, _R1_MERGE_EDGES, "                    .map(|(k, v)| (k, shift(v)))\n"),
               (A, _R1_MERGE_EPS, "                    .map(shift)\n"),
               (A, "        (states_out, ends_out)\n", "        let _final_offset = offset;\n        (states_out, ends_out)\n")]},
    {"id": "C15-r1-merge-push-after-advance", "prop": "C15", "expect": "R1-MERGE/automata::NFA::merge_states/ends-out-receives",
     "edits": [(A, _R1_MERGE_ENDS, ""),
               (A, "            offset += max_id + 1;\n", "            offset += max_id + 1;\n            ends_out.push((NFAStateId(offset + start.0), NFAStateId(offset + stop.0)));\n")]},
    {"id": "C15-r1-merge-edges-for-loop-unshifted", "prop": "C15", "expect": "R1-MERGE/automata::NFA::merge_states/edge-targets-are-shifted",
     "edits": [(A, _R1_MERGE_EDGES_FULL, "                let mut shifted_edges = BTreeMap::new();\n                for (symbol, target) in edges {\n                    shifted_edges.insert(symbol, target);\n                }\n                let edges = shifted_edges;\n")]},
    {"id": "C15-r1-connect-helper-swapped", "prop": "C15", "expect": "R1-WIRING/automata::NFA::",
     "edits": [(A, _R1_ANCHOR, _R1_CONNECT_SWAPPED + _R1_ANCHOR)] + _R1_CONNECT_EDITS},
    {"id": "C15-r1-choice-for-each-swapped", "prop": "C15", "expect": "R1-WIRING/automata::NFA::choice/not-thompson",
     "edits": [(A, _R1_CHOICE_LOOP, "        ends.into_iter().for_each(|(to, from)| {\n            start_state.epsilons.insert(from);\n            if let Some(to_state) = states.get_mut(&to) {\n                to_state.epsilons.insert(stop);\n            }\n        });\n")]},
    {"id": "C15-r1-named-constant-collides", "prop": "C15", "expect": "R1-WIRING/automata::NFA::many/",
     "edits": [(A, _R1_ANCHOR, "const FRESH_START: NFAStateId = NFAStateId(0);\nconst FRESH_STOP: NFAStateId = NFAStateId(2);\nconst RESERVED: usize = 2;\n\n" + _R1_ANCHOR),
               (A, "        // add offset of 2 to state ids\n        let (mut states, ends) = Self::merge_states(once(self), 2);\n        let (from, to) = ends[0];\n\n        let start = NFAStateId(0);\n        let stop = NFAStateId(1);\n",
                "        let (mut states, ends) = Self::merge_states(once(self), RESERVED);\n        let (from, to) = ends[0];\n\n        let start = FRESH_START;\n        let stop = FRESH_STOP;\n")]},
]


# ---- R1 robustness, second batch: helper taking a literal flag (seeded/benign/C15-D), edges.extend / let-else over first()+last() (C15-E)
_R1_OPT_MANY = """        let (mut states, ends) = Self::merge_states(once(self), 2);
        let (from, to) = ends[0];

        let start = NFAStateId(0);
        let stop = NFAStateId(1);
        let mut start_state = NFAState::new();
        start_state.epsilons.insert(from);
        start_state.epsilons.insert(stop);
        if let Some(to_state) = states.get_mut(&to) {
            to_state.epsilons.insert(stop);
        }
        states.insert(start, start_state);
        states.insert(stop, NFAState::new());

        Self {
            start,
            stop,
            states,
        }
    }

    /// For `a` regular expression it is equivalent to `a*`
    pub fn many(self) -> Self {
        // add offset of 2 to state ids
        let (mut states, ends) = Self::merge_states(once(self), 2);
        let (from, to) = ends[0];

        let start = NFAStateId(0);
        let stop = NFAStateId(1);
        let mut start_state = NFAState::new();
        start_state.epsilons.insert(from);
        start_state.epsilons.insert(stop);
        if let Some(to_state) = states.get_mut(&to) {
            to_state.epsilons.insert(stop);
            to_state.epsilons.insert(from);
        }
"""
_R1_WRAP_SKIPPABLE = """        self.wrap_skippable(false)
    }

    /// For `a` regular expression it is equivalent to `a*`
    pub fn many(self) -> Self {
        self.wrap_skippable(true)
    }

    fn wrap_skippable(self, repeat: bool) -> Self {
        let (mut states, ends) = Self::merge_states(once(self), 2);
        let (inner_start, inner_stop) = ends[0];

        let start = NFAStateId(0);
        let stop = NFAStateId(1);
        if let Some(inner_stop_state) = states.get_mut(&inner_stop) {
            inner_stop_state.epsilons.insert(stop);
            if repeat {
                inner_stop_state.epsilons.insert(inner_start);
            }
        }
        let mut start_state = NFAState::new();
        start_state.epsilons.insert(inner_start);
        start_state.epsilons.insert(stop);
"""
_R1_PRED_LOOP = "        for symbol in 0..=Symbol::MAX {\n            if pred(symbol) {\n                state.edges.insert(symbol, stop);\n            }\n        }\n"
_R1_PRED_EXTEND = "        state.edges.extend(\n            (Symbol::MIN..=Symbol::MAX)\n                .filter(|symbol| pred(*symbol))\n                .map(|symbol| (symbol, stop)),\n        );\n"
_R1_SEQ_EMPTY = "        let (mut states, ends) = Self::merge_states(nfas, 0);\n        if ends.is_empty() {\n            return Self::empty();\n        }\n"
_R1_SEQ_LET_ELSE2 = "        let (mut states, ends) = Self::merge_states(nfas, 0);\n        let (Some(&(start, _)), Some(&(_, stop))) = (ends.first(), ends.last()) else {\n            return Self::empty();\n        };\n"
MUTANTS += [
    {"id": "C15-benign-r1-wrap-skippable-flag", "prop": "C15", "benign": True,
     "edits": [(A, _R1_OPT_MANY, _R1_WRAP_SKIPPABLE)]},
    {"id": "C15-benign-r1-predicate-extend", "prop": "C15", "benign": True,
     "edits": [(A, _R1_PRED_LOOP, _R1_PRED_EXTEND)]},
    {"id": "C15-benign-r1-sequence-let-else-first-last", "prop": "C15", "benign": True,
     "edits": [(A, _R1_SEQ_EMPTY, _R1_SEQ_LET_ELSE2), (A, _R1_SEQ_ENDS + "\n", "")]},
    {"id": "C15-r1-wrap-skippable-flags-swapped", "prop": "C15", "expect": "R1-WIRING/automata::NFA::optional/not-thompson",
     "edits": [(A, _R1_OPT_MANY, _R1_WRAP_SKIPPABLE.replace("self.wrap_skippable(false)", "self.wrap_skippable(TMP)").replace("self.wrap_skippable(true)", "self.wrap_skippable(false)").replace("(TMP)", "(true)"))]},
    {"id": "C15-r1-wrap-skippable-flag-negated", "prop": "C15", "expect": "R1-WIRING/automata::NFA::many/not-thompson",
     "edits": [(A, _R1_OPT_MANY, _R1_WRAP_SKIPPABLE.replace("            if repeat {\n", "            if !repeat {\n"))]},
    {"id": "C15-r1-predicate-extend-negated", "prop": "C15", "expect": "R1-WIRING/automata::NFA::predicate/",
     "edits": [(A, _R1_PRED_LOOP, _R1_PRED_EXTEND.replace("pred(*symbol)", "!pred(*symbol)"))]},
    {"id": "C15-r1-sequence-let-else-last-first", "prop": "C15", "expect": "R1-WIRING/automata::NFA::sequence/not-thompson",
     "edits": [(A, _R1_SEQ_EMPTY, _R1_SEQ_LET_ELSE2.replace("(ends.first(), ends.last())", "(ends.last(), ends.first())")), (A, _R1_SEQ_ENDS + "\n", "")]},
]

# ---- round M7: helper that holds the index arithmetic of DFA::transition; Option combinators on ends.last(); table written cell by cell
_TR_INDEX = "        self.states[self.lang_size * state.0 + symbol as usize]\n    }\n"
_TR_HELPER = ("        self.states[self.cell_index(state, symbol)]\n    }\n\n"
              "    fn cell_index(&self, state: DFAState, symbol: Symbol) -> usize {\n"
              "        let row_offset = self.lang_size * state.0;\n        row_offset + symbol as usize\n    }\n")
_SEQ_STOP = "        let (_, stop) = ends[ends.len() - 1];\n"
_FLAT_OLD = """        let states = dfa_table
            .into_iter()
            .enumerate()
            .flat_map(|(index, (state, edges))| {
                assert_eq!(index, state.0);
                (0..=Symbol::MAX).map(move |symbol| edges.get(&symbol).copied())
            })
            .collect::<Vec<Option<DFAState>>>();
"""
_FLAT_LOOP = """        let mut states: Vec<Option<DFAState>> = Vec::with_capacity(infos.len() * lang_size);
        for (index, (state, edges)) in dfa_table.into_iter().enumerate() {
            assert_eq!(index, state.0);
            for symbol in 0..=Symbol::MAX {
                states.push(edges.get(&symbol).copied());
            }
        }
        debug_assert_eq!(states.len() % lang_size, 0);
"""
MUTANTS += [
    {"id": "C15-benign-r4t-index-helper", "prop": "C15", "benign": True, "edits": [(A, _TR_INDEX, _TR_HELPER)]},
    {"id": "C15-benign-r4t-index-helper-swapped", "prop": "C15", "benign": True,
     "edits": [(A, _TR_INDEX, _TR_HELPER.replace("self.lang_size * state.0", "state.0 * self.lang_size").replace("row_offset + symbol as usize", "usize::from(symbol) + row_offset"))]},
    {"id": "C15-r4t-index-helper-wrong-stride", "prop": "C15", "expect": "R4-TABLE/",
     "edits": [(A, _TR_INDEX, _TR_HELPER.replace("self.lang_size * state.0", "self.states.len() * state.0"))]},
    {"id": "C15-benign-r1-sequence-last-map-or", "prop": "C15", "benign": True,
     "edits": [(A, _SEQ_STOP, "        let stop = ends.last().map_or(start, |&(_, stop)| stop);\n")]},
    {"id": "C15-benign-r1-sequence-last-map-unwrap-or", "prop": "C15", "benign": True,
     "edits": [(A, _SEQ_STOP, "        let stop = ends.last().map(|end| end.1).unwrap_or(start);\n")]},
    {"id": "C15-r1-sequence-first-map-or", "prop": "C15", "expect": "R1-WIRING/automata::NFA::sequence/",
     "edits": [(A, _SEQ_STOP, "        let stop = ends.first().map_or(start, |&(_, stop)| stop);\n")]},
    {"id": "C15-r1-sequence-last-map-or-start", "prop": "C15", "expect": "R1-WIRING/automata::NFA::sequence/",
     "edits": [(A, _SEQ_STOP, "        let stop = ends.last().map_or(start, |&(stop, _)| stop);\n")]},
    {"id": "C15-benign-r4-table-nested-loop-push", "prop": "C15", "benign": True, "edits": [(A, _FLAT_OLD, _FLAT_LOOP)]},
    {"id": "C15-r4-table-nested-loop-short-row", "prop": "C15", "expect": "R4-TABLE/automata::NFA::compile/row-width",
     "edits": [(A, _FLAT_OLD, _FLAT_LOOP.replace("for symbol in 0..=Symbol::MAX", "for symbol in 0..Symbol::MAX"))]},
    {"id": "C15-r4-table-nested-loop-wrong-key", "prop": "C15", "expect": "R4-TABLE/automata::NFA::compile/column-key",
     "edits": [(A, _FLAT_OLD, _FLAT_LOOP.replace("edges.get(&symbol)", "edges.get(&symbol.wrapping_add(1))"))]},
    {"id": "C15-r4-table-nested-loop-skipped-cell", "prop": "C15", "expect": "R4-DENSITY/automata::NFA::compile/states-not-from-guarded-rows",
     "edits": [(A, _FLAT_OLD, _FLAT_LOOP.replace("                states.push(edges.get(&symbol).copied());\n", "                if symbol != 7 {\n                    states.push(edges.get(&symbol).copied());\n                }\n"))]},
    {"id": "C15-r4-table-nested-loop-guard-after-row", "prop": "C15", "expect": "R4-DENSITY/",
     "edits": [(A, _FLAT_OLD, _FLAT_LOOP.replace("            assert_eq!(index, state.0);\n", "").replace("            }\n        }\n", "            }\n            if index > 3 {\n                assert_eq!(index, state.0);\n            }\n        }\n"))]},
]
