"""C17 — wake-ups/signals not lost (structural part), tty restored on every exit path of dispose."""
import re
from ..mir import call_matches, callee_name, op_local, op_const_int, place_str
from ..flow import resolve_place, arg_place, origins, expr
from .c16 import inl, xcalls, family, origin, hosts, const_int, value_def, bool_edges, ret_locals, err_blocks

# callees the poll rules use as anchors: never expanded into poll (private helpers of poll are)
POLL_KEEP = r"^common::IOQueue::|^unix::guard_io$|^unix::Poll(Event|Events)?::"


CLAIM = {
    "text": "Static necessary conditions of C17 decided on MIR for every path: dispose reaches tcsetattr(tty, saved termios) on every normal "
            "return and Drop calls it; the saved termios is written once from tcgetattr and never mutated; the closing sequence contains the "
            "cursor/mouse resets with the DeviceAttrs sync last followed by a poll; the waker performs one raw non-empty write with "
            "EINTR/EAGAIN coalesced to Ok and poll queues Wake whenever the pipe returned bytes; all registered signals are handled; one "
            "loop iteration evaluates all four readiness handlers. Bounded-time delivery, cross-thread order and abnormal termination "
            "are not decided (schedules/crash points are not static objects).",
    "technique": "MIR CFG rules: must-pass-through (post-dominance), who-writes/borrows, constant-table and switch-table checks",
    "design_ref": "DESIGN.md §5 C17",
}

# VecDeque operations that neither add, remove nor reorder elements (observers and capacity management)
OBSERVERS = ("is_empty", "len", "iter", "front", "back", "get", "contains", "as_slices", "capacity", "reserve", "reserve_exact", "try_reserve",
             "try_reserve_exact", "shrink_to_fit", "shrink_to", "make_contiguous")


def calls_matching(body, pat, recv=None, argi=0):
    out = []
    for bb, t in xcalls(body):
        if call_matches(t, pat):
            if recv is not None:
                if not t["args"] or arg_place(body, t, argi) != recv:
                    continue
            out.append((bb, t))
    return out


def agg_of(body, operand):
    """aggregate rvalue that defines the operand (through moves)"""
    l = op_local(operand)
    seen = set()
    while l is not None and l not in seen:
        seen.add(l)
        ds = body.defs_of(l)
        if len(ds) != 1:
            return None
        bb, si, rv = ds[0]
        if si == "term":
            return ("call", rv)
        if rv["k"] == "agg":
            return ("agg", rv)
        if rv["k"] == "use":
            l = op_local(rv["a"])
            continue
        return None
    return None


_CTOR_ANCHORS = r"^terminal::TerminalCommand::visible_cursor_set$"


def resolve_val(prog, body, operand, env=None, depth=0):
    """What an operand is, decided where the value is built: ("const", int) | ("agg", rvalue, body, env) | ("call", term, body, env) | None.
    Follows whole-value moves; a parameter of an expanded constructor (private fn or local closure that only builds and returns the
    value: `let off = |mode| DecModeSet{enable: false, mode}`) is looked up in the caller (env: param local -> (body, operand, env));
    a call to such a constructor is replaced by what its body returns.  Anything that branches or is written twice is not understood."""
    if operand["k"] == "const":
        v = op_const_int(operand)
        return ("const", v) if v is not None else None
    if operand["k"] not in ("copy", "move") or operand["place"]["p"]:
        return None
    l = operand["place"]["l"]
    seen = set()
    while l is not None and l not in seen:
        seen.add(l)
        if env and l in env:
            cb, cop, cenv = env[l]
            return resolve_val(prog, cb, cop, cenv, depth) if cop is not None else None
        ds = body.defs_of(l)
        if len(ds) != 1:
            return None
        bb, si, rv = ds[0]
        if si == "term":
            r = _expand_ctor(prog, body, rv, env, depth)
            return r if r is not None else ("call", rv, body, env)
        if rv["k"] == "agg":
            return ("agg", rv, body, env)
        if rv["k"] == "use":
            a = rv["a"]
            if a["k"] == "const":
                v = op_const_int(a)
                return ("const", v) if v is not None else None
            l = op_local(a)
            continue
        return None
    return None


def _expand_ctor(prog, body, t, env, depth):
    """value returned by a crate-local straight-line constructor call (fn or closure), with its parameters bound to the call's arguments"""
    if depth >= 4 or t.get("k") != "call":
        return None
    nm = callee_name(t)
    cb = prog.body(nm) if nm else None
    if cb is None or not cb.file.startswith("src/") or cb.kind not in ("Fn", "AssocFn", "Closure") or cb.impl_trait:
        return None
    if re.search(_CTOR_ANCHORS, cb.path):
        return None       # judged by a rule of its own (shape of the public constructor), stays a call
    if any(b["term"]["k"] == "switch" for b in cb.blocks if not b["cleanup"]):
        return None
    cenv = {}
    if cb.kind == "Closure":
        # call(&closure, (a, b, ..)): the body's parameters _2.. are the fields of the argument tuple; captures are not looked into
        if len(t["args"]) != 2:
            return None
        cenv[1] = (body, None, env)
        tup = resolve_val(prog, body, t["args"][1], env, depth + 1)
        if cb.arg_count > 1:
            if not tup or tup[0] != "agg" or tup[1].get("ak") != "tuple" or len(tup[1]["fields"]) != cb.arg_count - 1:
                return None
            for k, f in enumerate(tup[1]["fields"]):
                cenv[2 + k] = (tup[2], f, tup[3])
    else:
        if len(t["args"]) != cb.arg_count:
            return None
        for k, a in enumerate(t["args"]):
            cenv[1 + k] = (body, a, env)
    r = resolve_val(prog, cb, {"k": "move", "place": {"l": 0, "p": []}}, cenv, depth + 1)
    return r if r and r[0] in ("agg", "const") else None


_NEG = {"Eq": "Ne", "Ne": "Eq", "Gt": "Le", "Le": "Gt", "Lt": "Ge", "Ge": "Lt"}
_SWAP = {"Gt": "Lt", "Lt": "Gt", "Ge": "Le", "Le": "Ge", "Eq": "Eq", "Ne": "Ne"}


def cmp_def(body, operand):
    """(op, a, b): the integer comparison that defines a bool operand, seen through copies, hoisted locals and Not"""
    neg = False
    l = op_local(operand)
    seen = set()
    while l is not None and l not in seen:
        seen.add(l)
        ds = body.defs_of(l)
        if len(ds) != 1 or ds[0][1] == "term":
            return None
        rv = ds[0][2]
        if rv["k"] == "use":
            l = op_local(rv["a"])
        elif rv["k"] == "un" and rv["op"] == "Not":
            neg = not neg
            l = op_local(rv["a"])
        elif rv["k"] == "bin" and rv["op"] in _NEG:
            op = _NEG[rv["op"]] if neg else rv["op"]
            return op, rv["a"], rv["b"]
        else:
            return None
    return None


def zero_split(body, term, is_value):
    """For a switch that separates `x == 0` from `x != 0`, where x is an operand accepted by is_value: (target when x != 0,
    target when x == 0).  Understands x != 0, x > 0, x >= 1, 0 < x, !(x == 0), x == 0, x < 1, ... on a bool switch and a switch on x itself."""
    if term["k"] != "switch":
        return None
    ed = bool_edges(term)
    c = cmp_def(body, term["d"]) if ed else None
    if c is not None:
        op, a, b = c
        n = const_int(body, b)
        x = a
        if n is None:
            n, x, op = const_int(body, a), b, _SWAP[op]
        if n is None or not is_value(x):
            return None
        # truth of `x op n` for x == 0 and for every x >= 1 (x is unsigned)
        t0 = {"Eq": 0 == n, "Ne": 0 != n, "Gt": 0 > n, "Ge": 0 >= n, "Lt": 0 < n, "Le": 0 <= n}[op]
        pos = {"Eq": None, "Ne": True if n == 0 else None, "Gt": True if n <= 0 else None, "Ge": True if n <= 1 else None,
               "Lt": False if n <= 1 else None, "Le": False if n <= 0 else None}[op]
        if op == "Eq" and n == 0:
            pos = False
        if pos is None or pos == t0:
            return None
        return (ed[0], ed[1]) if pos else (ed[1], ed[0])
    if term["vals"] == ["0"] and term.get("dty") != "bool" and is_value(term["d"]):
        return term["otherwise"], term["targets"][0]
    return None


ERRNO = {"INTR": 4, "AGAIN": 11, "WOULDBLOCK": 11}
_WRITE_ERR = r"io::write\(.*\)@Err\.0"


def errno_cmp(t):
    """'eq' / 'ne' when the call compares two rustix Errno values (derived PartialEq::eq or the trait's default `ne`); else None"""
    f = t["fn"]
    nm = f.get("resolved") or f.get("path") or ""
    m = re.search(r"^<rustix::io::Errno as std::cmp::PartialEq>::(eq|ne)$", nm)
    if m:
        return m.group(1)
    m = re.search(r"^std::cmp::PartialEq::(eq|ne)$", nm)
    g = f.get("resolved_generics") or f.get("generics") or []
    if m and len(g) == 2 and all(x == "rustix::io::Errno" for x in g):
        return m.group(1)
    return None


def errno_const(body, operand):
    """errno number of an operand that is (a reference to) a constant `rustix::io::Errno::NAME`, also behind a promoted constant"""
    from ..flow import promoted_aggs, _promoted_index
    l = op_local(operand)
    seen = set()
    while True:
        if operand["k"] == "const":
            c = operand["c"]
            k = _promoted_index(c)
            cs = [rv["c"] for rv in promoted_aggs(body, k) if rv["k"] == "const"] if k is not None else [c]
            for c in cs:
                m = re.search(r"rustix::io::Errno::([A-Z0-9]+)$", c.get("def") or c.get("text") or "")
                if m and m.group(1) in ERRNO:
                    return ERRNO[m.group(1)]
            return None
        l = operand["place"]["l"]
        if l in seen:
            return None
        seen.add(l)
        ds = body.defs_of(l)
        if len(ds) != 1 or ds[0][1] == "term":
            return None
        rv = ds[0][2]
        if rv["k"] == "use":
            operand = rv["a"]
        elif rv["k"] == "ref":
            operand = {"k": "copy", "place": {"l": rv["place"]["l"], "p": []}}
        else:
            return None


def errno_dispatch(body, start, value):
    """block reached from `start` (the block a raw write returns to) when the write fails with errno `value`, following only branches
    on the write's result; stops at the first block that does anything else"""
    def is_write_err(o, raw=False):
        e = expr(body, o)
        return bool(re.fullmatch(_WRITE_ERR + (r"\.0" if raw else ""), e))

    def truth(l, seen=()):
        """value of a bool local under errno == value; None if it is not a test of the errno"""
        if l in env:
            return bool(env[l])
        if l is None or l in seen:
            return None
        ds = body.defs_of(l)
        if len(ds) != 1:
            return None
        bb, si, rv = ds[0]
        if si == "term":
            if errno_cmp(rv) is None or len(rv["args"]) != 2:
                return None
            a, b = rv["args"]
            n = errno_const(body, b)
            x = a
            if n is None:
                n, x = errno_const(body, a), b
            if n is None or not is_write_err(x):
                return None
            r = value == n
            return r if errno_cmp(rv) == "eq" else not r
        if rv["k"] == "use":
            return truth(op_local(rv["a"]), tuple(seen) + (l,))
        if rv["k"] == "un" and rv["op"] == "Not":
            r = truth(op_local(rv["a"]), tuple(seen) + (l,))
            return None if r is None else not r
        return None

    env = {}
    bb = start
    raw = (65536 - value) & 0xFFFF
    for _ in range(64):
        blk = body.blocks[bb]
        tt = blk["term"]
        for x in blk["stmts"]:
            if x["k"] == "assign" and not x["place"]["p"] and x["rv"]["k"] == "use" and body.local_ty(x["place"]["l"]) == "bool" and op_const_int(x["rv"]["a"]) in (0, 1):
                env[x["place"]["l"]] = op_const_int(x["rv"]["a"])
        if any(x["k"] == "assign" and x["rv"]["k"] == "agg" and x["rv"].get("ak") == "adt" for x in blk["stmts"]):
            return bb           # builds a result
        if tt["k"] == "goto":
            bb = tt["t"]
            continue
        if tt["k"] == "call" and errno_cmp(tt) and tt["t"] >= 0:
            bb = tt["t"]
            continue
        if tt["k"] != "switch":
            return bb
        e = expr(body, tt["d"])
        if re.fullmatch(r"discr\(io::write\(.*\)\)", e):
            bb = tt["targets"][tt["vals"].index("1")] if "1" in tt["vals"] else tt["otherwise"]
            continue
        if is_write_err(tt["d"], raw=True):
            vals = [int(v) & 0xFFFF for v in tt["vals"]]
            bb = tt["targets"][vals.index(raw)] if raw in vals else tt["otherwise"]
            continue
        ed = bool_edges(tt)
        r = truth(op_local(tt["d"])) if ed else None
        if r is None:
            return bb
        bb = ed[0] if r else ed[1]
    return bb


def run(ctx):
    prog = ctx.prog
    ctx.explanation = (
        "Decides structural necessary conditions of C17 from MIR: (a) UnixTerminal::dispose reaches tcsetattr(tty, _, termios_saved) on "
        "every normal return path, Drop calls dispose, termios_saved is written once from tcgetattr before the raw settings are applied "
        "and is never mutably borrowed; (b) the closing command list contains cursor-visible and the three mouse-mode resets, ends with the "
        "DeviceAttrs sync, and dispose polls after queuing it; (c) the waker closure performs exactly one raw write of a non-empty "
        "constant and maps EINTR/EAGAIN to Ok, and poll pushes Wake whenever the waker read returned != 0; (d) every registered signal "
        "is handled: SIGWINCH -> Resize/size query, SIGTERM|SIGINT|SIGQUIT -> Err(Quit); (e) within one poll-loop iteration all four "
        "readiness handlers are evaluated (no `continue` skips input while output is pending). Every anchored function is analysed with its "
        "private single-caller helpers expanded in place; comparisons and signal dispatch are decided on their meaning (any spelling of `!= 0`, "
        "match or if-chain on the signal number). NOT decided: bounded-time delivery, "
        "cross-thread ordering, restoration after abnormal termination (schedules / crash points are not static objects).")
    ctx.assume("unwind paths and process aborts are out of scope; OS/terminal behaviour is not modelled")

    # every anchored function is looked at with its private single-caller helpers expanded in place (helper extraction is invisible);
    # the callees the rules use as anchors stay calls
    POLL = r"^<unix::UnixTerminal as terminal::Terminal>::poll$"
    dispose = prog.one(r"^unix::UnixTerminal::dispose$")
    drop = prog.one(r"^<unix::UnixTerminal as std::ops::Drop>::drop$")
    newfd = prog.one(r"^unix::UnixTerminal::new_from_fd$")
    poll = prog.one(POLL)
    if dispose is not None:
        dispose = inl(prog, dispose.path, keep=POLL + r"|^unix::UnixTerminal::dispose$|Terminal::(execute_many|execute|frames_drop)$|^terminal::TerminalCommand::")
    if drop is not None:
        drop = inl(prog, drop.path, keep=r"^unix::UnixTerminal::dispose$")
    if newfd is not None:
        newfd = inl(prog, newfd.path, keep=r"^terminal::TerminalWaker::new$|SignalDelivery")
    if poll is not None:
        poll = inl(prog, poll.path, keep=POLL_KEEP)

    # ---------- (a) restore ------------------------------------------------------------------
    ctx.rule("RESTORE", "dispose: every normal return passes tcsetattr(&self.tty, _, &self.termios_saved); Drop::drop calls dispose", floor=2)
    if dispose is None or drop is None:
        ctx.anchor("RESTORE", "dispose/drop")
    else:
        cfg = dispose.cfg()
        sites = []
        for bb, t in dispose.calls():
            if call_matches(t, r"^rustix::termios::tcsetattr$"):
                a0 = arg_place(dispose, t, 0)
                a2 = arg_place(dispose, t, 2)
                if a0 == "(*_1).tty" and a2 == "(*_1).termios_saved":
                    sites.append(bb)
        ok, wit = cfg.must_pass(sites)
        ctx.instance("RESTORE", {"fn": dispose.path, "tcsetattr_blocks": sites, "returns": cfg.returns, "escaping_path": wit})
        if not sites:
            ctx.violation("RESTORE", dispose.path, "tcsetattr", "dispose never calls tcsetattr(&self.tty, _, &self.termios_saved)", sites=[dispose.loc])
        elif not ok:
            lines = [dispose.blocks[b]["term"].get("line") for b in wit if dispose.blocks[b]["term"].get("line")]
            ctx.violation("RESTORE", dispose.path, "return-without-restore",
                          "a normal return path of dispose does not restore the saved termios: blocks %s (lines %s)" % (wit, sorted(set(lines))),
                          sites=["%s:%s" % (dispose.file, l) for l in sorted(set(lines))[-3:]])
        dc = calls_matching(drop, r"^unix::UnixTerminal::dispose$")
        okd = len(dc) == 1 and drop.cfg().must_pass([dc[0][0]])[0] and arg_place(drop, dc[0][1], 0) == "(*_1)"
        ctx.instance("RESTORE", {"fn": drop.path, "calls_dispose": okd})
        if not okd:
            ctx.violation("RESTORE", drop.path, "dispose", "Drop::drop does not call self.dispose() on every path", sites=[drop.loc])

    ctx.rule("SAVED-ONCE", "termios_saved: written only in new_from_fd from tcgetattr (before make_raw/tcsetattr(raw)), never &mut-borrowed", floor=3)
    if newfd is None:
        ctx.anchor("SAVED-ONCE", "new_from_fd")
    else:
        # literal sites of UnixTerminal
        lits = []
        ctor_family = family(newfd)
        for b in prog.bodies:
            for i, si, s in b.assigns():
                rv = s["rv"]
                if rv["k"] == "agg" and rv["ak"] == "adt" and rv["adt"] == "unix::UnixTerminal":
                    if b.path in ctor_family:
                        continue      # judged below, inside new_from_fd with its helpers expanded
                    lits.append((b, i, s))
        for i, si, s in newfd.assigns():
            rv = s["rv"]
            if rv["k"] == "agg" and rv["ak"] == "adt" and rv["adt"] == "unix::UnixTerminal":
                lits.append((newfd, i, s))
        for b, i, s in lits:
            ctx.instance("SAVED-ONCE", {"literal_site": origin(b, i), "line": s["line"]})
            if b.path != newfd.path:
                ctx.violation("SAVED-ONCE", b.path, "literal", "UnixTerminal constructed outside new_from_fd", sites=["%s:%d" % (b.file, s["line"])])
                continue
            rv = s["rv"]
            idx = rv["fnames"].index("termios_saved")
            og = origins(b, rv["fields"][idx])
            good = og and all(o[0] == "call" and o[2] == "rustix::termios::tcgetattr" for o in og)
            if not good:
                ctx.violation("SAVED-ONCE", b.path, "origin", "termios_saved is not the result of tcgetattr: %s" % sorted(map(str, og)), sites=["%s:%d" % (b.file, s["line"])])
            # the local holding the saved value must not be mutably borrowed (make_raw must act on a clone)
            saved_local = op_local(rv["fields"][idx])
            cfg = b.cfg()
            get = calls_matching(b, r"^rustix::termios::tcgetattr$")
            sets = calls_matching(b, r"^rustix::termios::tcsetattr$")
            for bb, t in sets:
                if not (get and cfg.dominates(get[0][0], bb)):
                    ctx.violation("SAVED-ONCE", b.path, "order", "tcsetattr is not dominated by the tcgetattr that saves the settings", sites=["%s:%d" % (b.file, t["line"])])
            # every &mut of a local that (transitively by move) is the saved value
            chain = set()
            l = saved_local
            while l is not None and l not in chain:
                chain.add(l)
                ds = b.defs_of(l)
                l = None
                if len(ds) == 1 and ds[0][1] != "term" and ds[0][2]["k"] == "use":
                    l = op_local(ds[0][2]["a"])
            for bi, si2, s2 in b.assigns():
                r2 = s2["rv"]
                if r2["k"] == "ref" and r2["mut"] and r2["place"]["l"] in chain:
                    ctx.violation("SAVED-ONCE", b.path, "mut-borrow", "the saved termios value is mutably borrowed in new_from_fd (make_raw must act on a clone)", sites=["%s:%d" % (b.file, s2["line"])])
            ctx.instance("SAVED-ONCE", {"termios_saved_origin": sorted(map(str, og)), "locals_holding_saved": sorted(chain)})
        if not lits:
            ctx.anchor("SAVED-ONCE", "UnixTerminal-literal")
        # writes / &mut borrows of the field anywhere
        n = 0
        for b in prog.bodies:
            if not b.file.endswith("unix.rs"):
                continue
            for i, si, s in b.assigns():
                rp = resolve_place(b, s["place"])
                if rp.endswith(".termios_saved") or ".termios_saved." in rp:
                    ctx.violation("SAVED-ONCE", b.path, "field-write", "termios_saved is assigned after construction", sites=["%s:%d" % (b.file, s["line"])])
                rv = s["rv"]
                if rv["k"] in ("ref", "rawptr") and rv.get("mut"):
                    rp2 = resolve_place(b, rv["place"])
                    if "termios_saved" in rp2:
                        ctx.violation("SAVED-ONCE", b.path, "field-mut-borrow", "termios_saved is mutably borrowed", sites=["%s:%d" % (b.file, s["line"])])
            n += 1
        ctx.instance("SAVED-ONCE", {"bodies_scanned_for_field_writes": n})

    # ---------- (b) epilogue -------------------------------------------------------------------
    ctx.rule("EPILOGUE", "dispose queues cursor-visible + mouse-mode resets, DeviceAttrs last, then polls", floor=6)
    if dispose is not None:
        em = calls_matching(dispose, r"terminal::Terminal::execute_many$")
        if len(em) != 1:
            ctx.anchor("EPILOGUE", "dispose/execute_many", "expected one execute_many call in dispose, found %d" % len(em))
        else:
            bb, t = em[0]
            arr = agg_of(dispose, t["args"][1])
            if not arr or arr[0] != "agg" or arr[1]["ak"] != "array":
                ctx.anchor("EPILOGUE", "dispose/command-array", "argument of execute_many is not a literal array")
            else:
                items = []
                for f in arr[1]["fields"]:
                    # decided where the command value is built: through moves and through constructor helpers / local closures
                    a = resolve_val(prog, dispose, f)
                    if a and a[0] == "agg":
                        rv, ab, ae = a[1], a[2], a[3]
                        d = {"variant": rv.get("variant")}
                        if rv.get("variant") == "DecModeSet":
                            e_ = resolve_val(prog, ab, rv["fields"][rv["fnames"].index("enable")], ae)
                            d["enable"] = e_[1] if e_ and e_[0] == "const" else None
                            m = resolve_val(prog, ab, rv["fields"][rv["fnames"].index("mode")], ae)
                            d["mode"] = m[1].get("variant") if m and m[0] == "agg" else None
                        items.append(d)
                    elif a and a[0] == "call":
                        nm = callee_name(a[1])
                        d = {"call": nm, "args": [op_const_int(x) for x in a[1]["args"]]}
                        if nm == "terminal::TerminalCommand::visible_cursor_set":
                            d = {"variant": "DecModeSet", "enable": op_const_int(a[1]["args"][0]), "mode": "VisibleCursor", "via": nm}
                            # verify helper builds DecModeSet{enable, VisibleCursor}
                            h = prog.one(r"^terminal::TerminalCommand::visible_cursor_set$")
                            okh = False
                            if h is not None:
                                for i2, si2, s2 in h.assigns():
                                    rv2 = s2["rv"]
                                    if rv2["k"] == "agg" and rv2.get("variant") == "DecModeSet":
                                        en = rv2["fields"][rv2["fnames"].index("enable")]
                                        md = agg_of(h, rv2["fields"][rv2["fnames"].index("mode")])
                                        okh = origins(h, en) == {("arg", 1)} and md and md[1].get("variant") == "VisibleCursor"
                            if not okh:
                                ctx.violation("EPILOGUE", "terminal::TerminalCommand::visible_cursor_set", "shape", "visible_cursor_set(enable) does not build DecModeSet{enable, VisibleCursor}", sites=[])
                        items.append(d)
                    else:
                        items.append({"unknown": True})
                need = [("VisibleCursor", 1), ("MouseMotions", 0), ("MouseSGR", 0), ("MouseReport", 0)]
                for mode, en in need:
                    hit = any(i.get("variant") == "DecModeSet" and i.get("mode") == mode and i.get("enable") == en for i in items)
                    ctx.instance("EPILOGUE", {"required": "DecModeSet{%s,%s}" % (mode, bool(en)), "present": hit})
                    if not hit:
                        ctx.violation("EPILOGUE", dispose.path, "missing-" + mode,
                                      "the closing sequence does not contain DecModeSet{enable:%s, mode:%s}" % (bool(en), mode),
                                      sites=["%s:%d" % (dispose.file, t["line"])])
                last = items[-1] if items else {}
                ctx.instance("EPILOGUE", {"last": last, "n_commands": len(items)})
                if last.get("variant") != "DeviceAttrs":
                    ctx.violation("EPILOGUE", dispose.path, "sync-last", "DeviceAttrs (the sync request) is not the last command of the closing sequence", sites=["%s:%d" % (dispose.file, t["line"])])
                # poll after queuing
                pc = calls_matching(dispose, r"^<unix::UnixTerminal as terminal::Terminal>::poll$")
                cfg = dispose.cfg()
                okp = any(cfg.dominates(bb, pb) and pb != bb for pb, _ in pc) and cfg.must_pass([pb for pb, _ in pc], start=bb)[0]
                ctx.instance("EPILOGUE", {"poll_after_queue": okp})
                if not okp:
                    ctx.violation("EPILOGUE", dispose.path, "poll-after-queue", "dispose does not poll (delivery attempt) after queuing the closing sequence", sites=[dispose.loc])
                # frames_drop first, and tcsetattr after the poll loop
    # ---------- (c) waker ----------------------------------------------------------------------
    ctx.rule("WAKER", "waker closure: single raw write of a non-empty constant; EINTR/EAGAIN -> Ok; poll pushes Wake iff read != 0", floor=4)
    wk = None
    if newfd is not None:
        # closure passed to TerminalWaker::new
        tw = calls_matching(newfd, r"^terminal::TerminalWaker::new$")
        if len(tw) == 1:
            a = agg_of(newfd, tw[0][1]["args"][0])
            if a and a[0] == "agg" and a[1]["ak"] == "closure":
                wk = inl(prog, a[1]["def"]) if prog.body(a[1]["def"]) is not None else None
    if wk is None:
        ctx.anchor("WAKER", "waker-closure", "closure handed to TerminalWaker::new not found")
    else:
        calls = [(bb, t) for bb, t in wk.calls()]
        names = [callee_name(t) for bb, t in calls]
        writes = [(bb, t) for bb, t in calls if call_matches(t, r"^rustix::io::write$")]
        other = [callee_name(t) for bb, t in calls if not call_matches(t, r"^rustix::io::write$|(Into<U>>::into|From<.*>>::from|Into::into|From::from)$") and not errno_cmp(t)]
        ctx.instance("WAKER", {"closure": wk.path, "calls": names})
        if len(writes) != 1 or other:
            ctx.violation("WAKER", wk.path, "effects", "the waker closure must perform exactly one rustix::io::write and nothing else (signal-safe, non-blocking); calls: %s" % names, sites=[wk.loc])
        else:
            bb, t = writes[0]
            og = t["args"][1]
            # constant bytes: chase
            data = None
            l = op_local(og)
            seen = set()
            while l is not None and l not in seen:
                seen.add(l)
                ds = wk.defs_of(l)
                l = None
                if len(ds) == 1 and ds[0][1] != "term":
                    rv = ds[0][2]
                    if rv["k"] == "use" and rv["a"]["k"] == "const":
                        data = rv["a"]["c"].get("bytes")
                    elif rv["k"] == "use":
                        l = op_local(rv["a"])
                    elif rv["k"] == "ref" and len(rv["place"]["p"]) == 1:
                        l = rv["place"]["l"]
            ctx.instance("WAKER", {"wake_bytes": data})
            if not data:
                ctx.violation("WAKER", wk.path, "payload", "the waker does not write a non-empty constant (a zero-length write wakes nobody)", sites=["%s:%d" % (wk.file, t["line"])])
            # error mapping: both EINTR(4) and EAGAIN(11) errno values lead to the Ok block
            # (the closure's result: its own _0, or the return place of an expanded helper whose result it returns as it is)
            fwd = {0}
            grew = True
            while grew:
                grew = False
                for i, si, s in wk.assigns():
                    if s.get("inl_ret") and not s["place"]["p"] and s["place"]["l"] in fwd and s["rv"]["a"]["place"]["l"] not in fwd:
                        fwd.add(s["rv"]["a"]["place"]["l"])
                        grew = True
            okblocks = set()
            for i, si, s in wk.assigns():
                if s["place"]["l"] in fwd and not s["place"]["p"] and s["rv"]["k"] == "agg" and s["rv"].get("variant") == "Ok":
                    okblocks.add(i)
            # decided per errno value, by following the branches on the write's result from the write call: the discriminant switch
            # (Err arm), a switch on the raw errno, `e == Errno::X` / `e != Errno::X` tests (either operand order, negated,
            # `matches!` temporaries) — a `match` with or-patterns, a guard, or an if-chain all end in the same block
            mapped = set()
            for name, num in (("EINTR", 4), ("EAGAIN", 11)):
                if errno_dispatch(wk, t["t"], num) in okblocks:
                    mapped.add(num)
            ctx.instance("WAKER", {"errno_mapped_to_ok": sorted(mapped)})
            for name, num in (("EINTR", 4), ("EAGAIN", 11)):
                if num not in mapped:
                    ctx.violation("WAKER", wk.path, "errno-" + name, "%s from the self-pipe write is not mapped to Ok: a full pipe (coalesced wake) would surface as an error" % name, sites=[wk.loc])
    if poll is None:
        ctx.anchor("WAKER", "poll")
        return
    cfg = poll.cfg()
    rd = calls_matching(poll, r"^<std::os::unix::net::UnixStream as std::io::Read>::read$")
    rd = [(bb, t) for bb, t in rd if "waker_read" in (arg_place(poll, t, 0) or "")]
    push_wake = []
    for bb, t in calls_matching(poll, r"VecDeque::<T, A>::push_back$", recv="(*_1).events_queue"):
        a = agg_of(poll, t["args"][1])
        if a and a[0] == "agg" and a[1].get("variant") == "Wake":
            push_wake.append(bb)
    if len(rd) != 1 or not push_wake:
        ctx.anchor("WAKER", "poll/waker-branch", "waker read or push_back(Wake) not recognised in poll")
    else:
        rbb = rd[0][0]

        def is_read_count(o):
            """the operand is the byte count of the waker read: guard_io(<that read>) seen through `?` / match payloads / copies"""
            og = origins(poll, o)
            if not (og and all(x[0] == "call" and x[2] == "unix::guard_io" for x in og)):
                return False
            for (k, g, n) in og:
                og2 = origins(poll, poll.blocks[g]["term"]["args"][0])
                if not any(x[0] == "call" and x[1] == rbb for x in og2):
                    return False
            return True

        # the branch that separates `read result == 0` from `!= 0` (any spelling: != 0, > 0, >= 1, 0 <, == 0 with swapped arms, match 0 / _)
        found = False
        nxt = [bb for bb, t in calls_matching(poll, r"^unix::PollEvent::is_readable$")]
        for i, tt in poll.terms():
            if tt["k"] != "switch" or not cfg.dominates(rbb, i):
                continue
            sp = zero_split(poll, tt, is_read_count)
            if sp is None:
                continue
            found = True
            nonzero_t, zero_t = sp
            # next handler: tty.is_readable
            nxt_after = [b for b in nxt if b in cfg.reachable_from(nonzero_t)]
            ok, wit = cfg.must_pass(push_wake, start=nonzero_t, exits=nxt_after or cfg.returns)
            ctx.instance("WAKER", {"switch_block": i, "nonzero_edge": nonzero_t, "push_wake_blocks": push_wake, "must_pass": ok})
            if not ok:
                ctx.violation("WAKER", poll.path, "wake-dropped", "a byte read from the waker pipe is drained without queueing TerminalEvent::Wake (path %s)" % wit, sites=["%s:%d" % (poll.file, rd[0][1]["line"])])
        if not found:
            ctx.violation("WAKER", poll.path, "nonzero-test", "poll does not branch on `waker read result != 0` before pushing Wake", sites=["%s:%d" % (poll.file, rd[0][1]["line"])])

    # ---------- (d) signals --------------------------------------------------------------------
    ctx.rule("SIGNALS", "every registered signal is handled in poll: SIGWINCH -> Resize / size query; TERM|INT|QUIT -> Err(Quit)", floor=4)
    SIG = {28: "SIGWINCH", 15: "SIGTERM", 2: "SIGINT", 3: "SIGQUIT"}
    registered = None
    if newfd is not None:
        wp = calls_matching(newfd, r"SignalDelivery::<R, E>::with_pipe$")
        if len(wp) == 1:
            a = agg_of(newfd, wp[0][1]["args"][3])
            if a and a[0] == "agg" and a[1]["ak"] == "array":
                registered = [op_const_int(f) for f in a[1]["fields"]]
    pend = calls_matching(poll, r"SignalDelivery::<R, E>::pending$")
    if registered is None or len(pend) != 1:
        ctx.anchor("SIGNALS", "registered-signals-or-pending")
    else:
        pb = pend[0][0]

        def is_signal(o):
            l = o["place"]["l"] if o.get("k") in ("copy", "move") else None
            return l is not None and poll.local_ty(l) == "i32"

        def dispatch(start, value):
            """block reached from `start` when the signal number is `value`, following only branches on the signal number
            (a `match` switch, or an if / else-if chain of `signal == CONST` tests); stops at the first other block"""
            bb = start
            env = {}          # bool temporaries of `matches!(signal, A | B)`: assigned a constant on each side of the signal switch
            for _ in range(64):
                tt = poll.blocks[bb]["term"]
                asg = [x for x in poll.blocks[bb]["stmts"] if x["k"] == "assign"]
                flags = [x for x in asg if not x["place"]["p"] and poll.local_ty(x["place"]["l"]) == "bool" and x["rv"]["k"] == "use" and op_const_int(x["rv"]["a"]) in (0, 1)]
                if tt["k"] == "goto" and len(flags) == len(asg):
                    for x in flags:
                        env[x["place"]["l"]] = op_const_int(x["rv"]["a"])
                    bb = tt["t"]          # trampoline (possibly setting a matches! temporary)
                    continue
                if tt["k"] != "switch":
                    return bb
                if tt.get("dty") == "i32" and is_signal(tt["d"]):
                    bb = tt["targets"][tt["vals"].index(str(value))] if str(value) in tt["vals"] else tt["otherwise"]
                    continue
                ed = bool_edges(tt)
                dl = op_local(tt["d"])
                if ed and dl in env:
                    bb = ed[0] if env[dl] else ed[1]
                    continue
                c = cmp_def(poll, tt["d"]) if ed else None
                if c is None:
                    return bb
                op, a, b = c
                n, x = const_int(poll, b), a
                if n is None:
                    n, x, op = const_int(poll, a), b, _SWAP[op]
                if n is None or not is_signal(x):
                    return bb
                truth = {"Eq": value == n, "Ne": value != n, "Gt": value > n, "Ge": value >= n, "Lt": value < n, "Le": value <= n}[op]
                bb = ed[0] if truth else ed[1]
            return bb

        # the first branch on the signal number inside the `pending()` loop
        sw = None
        for i, tt in poll.terms():
            if tt["k"] != "switch" or not cfg.dominates(pb, i) or i == pb:
                continue
            if (tt.get("dty") == "i32" and is_signal(tt["d"])) or (bool_edges(tt) and dispatch(i, -1) != i):
                if sw is None or cfg.dominates(i, sw[0]):
                    sw = (i, tt)
        if sw is None:
            ctx.anchor("SIGNALS", "signal-switch")
        else:
            i, tt = sw
            ignore_arm = dispatch(i, -1)          # where a number that is no signal at all ends up
            table = {s_: dispatch(i, s_) for s_ in registered if s_ is not None}
            table = {s_: tg for s_, tg in table.items() if tg != ignore_arm}
            quit_blocks = set()
            rl = ret_locals(poll)
            errs = err_blocks(poll)
            for bi, si, s in poll.assigns():
                if s["place"]["l"] in rl and not s["place"]["p"] and s["rv"]["k"] == "agg" and s["rv"].get("variant") == "Err":
                    a = agg_of(poll, s["rv"]["fields"][0])
                    if a and a[0] == "agg" and a[1].get("variant") == "Quit":
                        quit_blocks.add(bi)
            resize_push = []
            for bb, t in calls_matching(poll, r"VecDeque::<T, A>::push_back$", recv="(*_1).events_queue"):
                a = agg_of(poll, t["args"][1])
                if a and a[0] == "agg" and a[1].get("variant") == "Resize":
                    resize_push.append(bb)
            size_query = [bb for bb, t in calls_matching(poll, r"std::io::Write::write_all$") if any(o[0] == "const" and "GET_TERM_SIZE" in str(o[1]) for o in origins(poll, t["args"][1]))]
            for s in registered:
                nm = SIG.get(s, str(s))
                handled = s in table
                ctx.instance("SIGNALS", {"signal": nm, "handled": handled, "target_block": table.get(s)})
                if not handled:
                    ctx.violation("SIGNALS", poll.path, "unhandled-" + nm, "signal %s is registered but falls into the ignore arm of poll" % nm, sites=["%s:%d" % (poll.file, pend[0][1]["line"])])
                    continue
                tg = table[s]
                back = set(cfg.loops().keys())
                if s == 28:
                    ok, wit = cfg.must_pass(set(resize_push) | set(size_query), start=tg, exits=[pb] + [h for h in back])
                    # error exits are allowed (size()? may fail)
                    if not ok:
                        # allow paths that return Err
                        ok = all(b not in cfg.returns for b in [wit[-1]]) is False and False
                    # error returns (size()? may fail) end the iteration: not a way back to the signal loop
                    okw, witw = cfg.must_pass(set(resize_push) | set(size_query), start=tg, exits=[b for b in loop_heads_reaching(cfg, tg)], removed=errs - {tg})
                    if not okw:
                        ctx.violation("SIGNALS", poll.path, "SIGWINCH-lost", "SIGWINCH can return to the signal loop without a Resize event or a size query (path %s)" % witw, sites=["%s:%d" % (poll.file, pend[0][1]["line"])])
                else:
                    # every way on from the arm passes `return Err(Quit)` before the function returns or the signal loop goes on
                    if not quit_blocks or not cfg.must_pass(quit_blocks, start=tg, exits=list(cfg.returns) + [h for h in back if h != tg])[0]:
                        ctx.violation("SIGNALS", poll.path, nm + "-not-quit", "%s does not surface as Err(Error::Quit)" % nm, sites=["%s:%d" % (poll.file, pend[0][1]["line"])])

    # ---------- (e) no starvation ----------------------------------------------------------------
    ctx.rule("ALL-HANDLERS", "one poll-loop iteration evaluates tty-writable, signal, waker and tty-readable handlers (no continue in between)", floor=4)
    loops = cfg.loops()
    cw = calls_matching(poll, r"^common::IOQueue::consume_with$")
    main = None
    if cw:
        cand = [(len(body), h) for h, body in loops.items() if cw[0][0] in body]
        if cand:
            main = max(cand)[1]
    # readiness tests of the main loop, one per (test, event source); a repeated test of the same event counts once (the dominating one)
    tests = []
    seen_tests = {}
    for bb, t in xcalls(poll):
        if call_matches(t, r"^unix::PollEvent::(is_writable|is_readable)$") and (main is None or bb in loops[main]):
            key = (callee_name(t).split("::")[-1], expr(poll, t["args"][0]))
            if key in seen_tests:
                if cfg.dominates(bb, seen_tests[key]):
                    tests = [x for x in tests if x[0] != seen_tests[key]]
                else:
                    continue
            seen_tests[key] = bb
            tests.append((bb, key[0], t["line"]))
    if main is None or len(tests) != 4:
        ctx.anchor("ALL-HANDLERS", "poll/handlers", "expected 4 readiness tests in the main loop, found %d" % len(tests))
    else:
        # order of evaluation within the iteration (not block numbering: expanded helpers are numbered last)
        tests.sort(key=lambda x: sum(1 for y in tests if cfg.dominates(y[0], x[0])))
        first = tests[0][0]
        for bb, nm, line in tests:
            ok, wit = cfg.must_pass([bb], start=first, exits=[main])
            ctx.instance("ALL-HANDLERS", {"handler_test": nm, "line": line, "always_evaluated": ok})
            if not ok:
                ctx.violation("ALL-HANDLERS", poll.path, "skipped-%s-%d" % (nm, [x[0] for x in tests].index(bb)),
                              "a path through one loop iteration returns to the loop head without evaluating the %s handler (blocks %s): events can starve" % (nm, wit),
                              sites=["%s:%d" % (poll.file, line)])

    # ---------- (e2) output first: pending bytes are written before a signal can end the iteration with Err(Quit) ----------------------
    ctx.rule("WRITE-FIRST", "poll: within one iteration the tty-writable handler (consume_with) is evaluated before the signal handler, whose TERM/INT/QUIT arm "
                            "returns Err(Quit) — dispose's closing sequence reaches the tty even when a termination signal is already pending", floor=1)
    wr = [(bb, line) for bb, nm, line in tests if nm == "is_writable"]
    sig = [(bb, t) for bb, t in xcalls(poll) if call_matches(t, r"^unix::PollEvent::is_readable$") and "SignalDelivery::get_read" in expr(poll, t["args"][0])
           and any(bb == x[0] for x in tests)]
    if len(wr) != 1 or len(sig) != 1 or not cw:
        ctx.anchor("WRITE-FIRST", "poll/handlers", "writable test / signal test / consume_with not recognised")
    else:
        wbb, sbb = wr[0][0], sig[0][0]
        okw = cfg.dominates(wbb, sbb) and cfg.dominates(wbb, cw[0][0]) and not cfg.dominates(sbb, cw[0][0])
        ctx.instance("WRITE-FIRST", {"writable_test_block": wbb, "signal_test_block": sbb, "consume_with_block": cw[0][0], "output_before_signals": okw})
        if not okw:
            ctx.violation("WRITE-FIRST", poll.path, "signals-before-output", "the signal handler runs before pending output is written in a poll iteration: a pending SIGTERM/SIGINT/SIGQUIT makes "
                          "poll return Err(Quit) first, so the closing sequence queued by dispose() never reaches the tty", sites=["%s:%d" % (poll.file, sig[0][1]["line"])])

    # ---------- (f) arrival order of the event queue -------------------------------------------------------------
    ctx.rule("EVENT-ORDER", "UnixTerminal.events_queue: poll appends at the back and hands out the front; a body that takes events through poll and gives them "
                            "back re-queues them at the front, oldest last (push_front over the reversed FIFO collection)", floor=5)

    n_ops = 0
    poll_family = family(poll)        # poll and the private helpers expanded into it
    for b in prog.bodies:
        if not (b.file or "").endswith("unix.rs"):
            continue
        is_poll = b.path in poll_family or (b.closure_root or "") in poll_family
        for bb, t in b.calls():
            nm = callee_name(t) or ""
            if not re.search(r"VecDeque::<T, A>::|VecDeque<T, A> as std::iter::Extend", nm) or not t["args"]:
                continue
            if not re.search(r"\.events_queue$", arg_place(b, t, 0) or ""):
                continue
            op = nm.split("::")[-1]
            n_ops += 1
            if op in OBSERVERS:
                ctx.instance("EVENT-ORDER", {"fn": b.path, "op": op, "ok": True})
                continue
            if is_poll:
                ok = op in ("push_back", "pop_front", "extend")
                ctx.instance("EVENT-ORDER", {"fn": b.path, "op": op, "ok": ok})
                if not ok:
                    ctx.violation("EVENT-ORDER", b.path, op, "poll uses %s on the event queue: decoded events must be appended at the back and delivered from the front" % op,
                                  sites=["%s:%d" % (b.file, t["line"])])
                continue
            # outside poll: events previously taken through poll are given back
            if op == "push_front":
                e = expr(b, t["args"][1])
                rev = bool(re.search(r"(Rev::next|Iterator::next)\(.*Iterator::rev\(.*(into_iter|Vec::drain)\(", e)) or bool(re.search(r"Vec::pop\(", e))
                ctx.instance("EVENT-ORDER", {"fn": b.path, "op": op, "element": e[:140], "reversed_fifo": rev, "ok": rev})
                if not rev:
                    ctx.violation("EVENT-ORDER", b.path, "push_front-forward", "%s gives intercepted events back with push_front while iterating oldest first: they are delivered "
                                  "newest first (%s)" % (b.path, e[:120]), sites=["%s:%d" % (b.file, t["line"])])
            else:
                ctx.instance("EVENT-ORDER", {"fn": b.path, "op": op, "ok": False})
                ctx.violation("EVENT-ORDER", b.path, op, "%s puts events it took from the front of the queue back with %s: events still queued (decoded later) overtake them"
                              % (b.path, op), sites=["%s:%d" % (b.file, t["line"])])
    if n_ops == 0:
        ctx.anchor("EVENT-ORDER", "events_queue")
    # a body that sets events aside must give them back on every Ok return; an Ok return that skips the give-back is tolerated only
    # behind poll(None), which never returns Ok(None) (its loop ends only when the event queue is non-empty)
    from ..flow import ok_return_blocks
    for b0 in prog.bodies:
        if not (b0.file or "").endswith("unix.rs") or b0.path in poll_family or (b0.closure_root or "") in poll_family:
            continue
        if hosts(prog, b0.path) != {b0.path}:
            continue          # a private helper expanded into its only caller: judged there, together with the caller's poll / give-back
        b = inl(prog, b0.path, keep=POLL) or b0
        gb = [bb for bb, t in b.calls() if re.search(r"VecDeque::<T, A>::push_front$|VecDeque<T, A> as std::iter::Extend", callee_name(t) or "") and t["args"]
              and re.search(r"\.events_queue$", arg_place(b, t, 0) or "")]
        polls = [(bb, t) for bb, t in b.calls() if (callee_name(t) or "") == poll.path]
        if not gb or not polls:
            continue
        bcfg = b.cfg()
        oks = ok_return_blocks(b)
        skipping = []
        for pb, pt in polls:
            okp, wit = bcfg.must_pass(gb, start=pb, exits=oks)
            if not okp:
                skipping.append((pb, pt, wit))
        for pb, pt, wit in skipping:
            targ = expr(b, pt["args"][1]) if len(pt["args"]) > 1 else "?"
            blocking = targ in ("Option::None()", "Option::None")
            ctx.instance("EVENT-ORDER", {"fn": b.path, "ok_return_without_give_back_after_poll": True, "poll_timeout": targ, "unreachable_because_blocking": blocking, "ok": blocking})
            if not blocking:
                ctx.violation("EVENT-ORDER", b.path, "set-aside-lost", "%s can return Ok without giving the events it set aside back to the queue (path %s) and polls with timeout %s, so that "
                              "path is reachable: a wake-up, key or resize that arrived meanwhile is lost" % (b.path, wit, targ), sites=["%s:%d" % (b.file, pt["line"])])


def loop_heads_reaching(cfg, start):
    heads = set(cfg.loops().keys())
    return [h for h in heads if h in cfg.reachable_from(start)]
