MUTANTS = [
    {"id": "C10-text-unclamped", "prop": "C10", "expect": "CLAMP-CONTRACT",
     "edits": [("src/view/text.rs", "        *layout = Layout::new().with_size(ct.clamp(size));\n        Ok(())\n    }\n}\n\nimpl View for String", "        *layout = Layout::new().with_size(size);\n        Ok(())\n    }\n}\n\nimpl View for String")]},
    {"id": "C10-container-shrink-unclamped", "prop": "C10", "expect": "CLAMP-CONTRACT",
     "edits": [("src/view/container.rs", "                .saturating_add(self.margins.top)\n                .saturating_add(self.margins.bottom)\n                .clamp(ct.min.height, ct.max.height)", "                .saturating_add(self.margins.top)\n                .saturating_add(self.margins.bottom)")]},
    {"id": "C10-fill-ignores-constraint", "prop": "C10", "expect": "CLAMP-CONTRACT",
     "edits": [("src/view/mod.rs", "        *layout = Layout::new().with_size(ct.max());\n        Ok(())\n    }\n}\n\nimpl View for SurfaceView", "        *layout = Layout::new().with_size(Size::new(ct.max().height + 1, ct.max().width));\n        Ok(())\n    }\n}\n\nimpl View for SurfaceView")]},
    {"id": "C10-orig-space-around-div-zero", "prop": "C10", "expect": "TOTAL",
     "edits": [("src/view/flex.rs", "let space = unused / children.len().max(1);", "let space = unused / children.len();")]},
    {"id": "C10-render-without-apply-to", "prop": "C10", "expect": "CONTAINMENT",
     "edits": [("src/view/mod.rs", "        let cell = Cell::new_char(Face::new(None, Some(*self), FaceAttrs::default()), ' ');\n        layout.apply_to(surf).fill(cell);", "        let cell = Cell::new_char(Face::new(None, Some(*self), FaceAttrs::default()), ' ');\n        let mut surf = surf;\n        surf.view_mut(..layout.size().height, ..layout.size().width).fill(cell);")]},
    {"id": "C10-child-constraint-min-above-max", "prop": "C10", "expect": "VALID-CT",
     "edits": [("src/view/container.rs", "            height: if self.align_vertical == Align::Expand {\n                child_size_max.height\n            } else {", "            height: if self.align_vertical == Align::Expand {\n                container_size.height\n            } else {")]},
    {"id": "C10-flex-remain-reduced-before-share", "prop": "C10", "expect": "FLEX-SHAPE",
     "edits": [("src/view/flex.rs", "                let child_major_max = ((major_remain as f64) * flex / flex_total).round() as usize;\n                flex_total -= flex;", "                flex_total -= flex;\n                let child_major_max = ((major_remain as f64) * flex / flex_total.max(1.0)).round() as usize;")]},
    {"id": "C10-size-cells-guard-dropped", "prop": "C10", "expect": "DIV-GUARD",
     "edits": [("src/image.rs", "        if pixels_per_cell.is_empty() || self.size().is_empty() {", "        if self.size().is_empty() {")]},
    {"id": "C10-fragment-index-out-of-table", "prop": "C10", "expect": "TOTAL",
     "edits": [("src/view/frame.rs", "    } else if index + 1 < size {\n        1\n    } else {\n        2\n    }", "    } else if index + 1 < size {\n        1\n    } else {\n        3\n    }")]},
    {"id": "C10-flex-sibling-advance-only-when-nonempty", "prop": "C10", "expect": "FLEX-SHAPE",
     "edits": [("src/view/flex.rs", "            major_offset += child_size.major(direction);\n            major_offset += space_between;\n\n            child_layout_opt = child_layout.sibling();", "            major_offset += child_size.major(direction);\n            major_offset += space_between;\n\n            child_layout_opt = if child_size.is_empty() {\n                Some(child_layout)\n            } else {\n                child_layout.sibling()\n            };")]},
    {"id": "C10-benign-rename", "prop": "C10", "benign": True,
     "edits": [("src/view/flex.rs", "let space = unused / children.len().max(1);", "let gap = unused / children.len().max(1);\n                let space = gap;")]},
]

L = "src/view/layout.rs"
MUTANTS += [
    {"id": "C10-hit-right-edge-inclusive", "prop": "C10", "expect": "HIT-TEST",
     "edits": [(L, "&& self.pos.col < child.pos.col + child.size.width", "&& self.pos.col <= child.pos.col + child.size.width")]},
    {"id": "C10-hit-bottom-edge-inclusive", "prop": "C10", "expect": "HIT-TEST",
     "edits": [(L, "&& self.pos.row < child.pos.row + child.size.height", "&& self.pos.row <= child.pos.row + child.size.height")]},
    {"id": "C10-hit-left-edge-exclusive", "prop": "C10", "expect": "HIT-TEST",
     "edits": [(L, "if child.pos.col <= self.pos.col", "if child.pos.col < self.pos.col")]},
    {"id": "C10-hit-width-height-swapped", "prop": "C10", "expect": "HIT-TEST",
     "edits": [(L, "&& self.pos.col < child.pos.col + child.size.width", "&& self.pos.col < child.pos.col + child.size.height"),
               (L, "&& self.pos.row < child.pos.row + child.size.height", "&& self.pos.row < child.pos.row + child.size.width")]},
    {"id": "C10-hit-rebase-swapped", "prop": "C10", "expect": "HIT-TEST",
     "edits": [(L, "                    row: self.pos.row - child.pos.row,\n                    col: self.pos.col - child.pos.col,", "                    row: self.pos.row - child.pos.col,\n                    col: self.pos.col - child.pos.row,")]},
    {"id": "C10-hit-no-rebase", "prop": "C10", "expect": "HIT-TEST",
     "edits": [(L, "                self.pos = Position {\n                    row: self.pos.row - child.pos.row,\n                    col: self.pos.col - child.pos.col,\n                };\n", "")]},
    {"id": "C10-hit-apply-to-inclusive", "prop": "C10", "expect": "HIT-TEST",
     "edits": [(L, "let cols = self.pos.col..self.pos.col + self.size.width;", "let cols = self.pos.col..self.pos.col + self.size.width + 1;")]},
    {"id": "C10-hit-first-child-only", "prop": "C10", "expect": "HIT-TEST",
     "edits": [(L, "                self.current.replace(child_id);\n                break;\n            }\n            child_id_opt = self.store[child_id.0].sibling;", "                self.current.replace(child_id);\n                break;\n            }\n            if child.size.is_empty() {\n                break;\n            }\n            child_id_opt = self.store[child_id.0].sibling;")]},
    {"id": "C10-hit-benign-flipped-operators", "prop": "C10", "benign": True,
     "edits": [(L, "if child.pos.col <= self.pos.col\n                && self.pos.col < child.pos.col + child.size.width", "if self.pos.col >= child.pos.col\n                && child.size.width + child.pos.col > self.pos.col")]},
    {"id": "C10-hit-benign-rows-first", "prop": "C10", "benign": True,
     "edits": [(L, "if child.pos.col <= self.pos.col\n                && self.pos.col < child.pos.col + child.size.width\n                && child.pos.row <= self.pos.row\n                && self.pos.row < child.pos.row + child.size.height",
                "if child.pos.row <= self.pos.row\n                && self.pos.row < child.pos.row + child.size.height\n                && child.pos.col <= self.pos.col\n                && self.pos.col < child.pos.col + child.size.width")]},
]

MUTANTS += [
    {"id": "C10-align-offset-abs-min", "prop": "C10", "expect": "TOTAL",
     "edits": [("src/view/container.rs", "(space - size).saturating_sub(offset.unsigned_abs() as usize)", "(space - size).saturating_sub(offset.abs() as usize)")]},
]

MUTANTS += [
    {"id": "C10-orig-container-margin-plain-add", "prop": "C10", "expect": "TOTAL",
     "edits": [("src/view/container.rs", "                .align(child_size.height, child_size_max.height)\n                .saturating_add(self.margins.top),", "                .align(child_size.height, child_size_max.height)\n                + self.margins.top,")]},
    {"id": "C10-orig-scrollbar-thumb-end", "prop": "C10", "expect": "TOTAL",
     "edits": [("src/view/scrollbar.rs", "index >= offset.saturating_add(size)", "index >= offset + size")]},
    {"id": "C10-orig-cell-layout-glyph-width", "prop": "C10", "expect": "TOTAL",
     "edits": [("src/render.rs", "        if cursor.col.saturating_add(cell_size.width) <= max_width {", "        if cursor.col + cell_size.width <= max_width {")]},
]
