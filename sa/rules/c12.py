"""C12 — structural clauses of the sixel output of `<image::SixelImageHandler as image::ImageHandler>::draw` (DESIGN.md §5 C12).

The property taken whole (pixel-exact decoding of the emitted stream) is value-level and is NOT claimed.  Decided here, from the MIR
of `draw` only, are the clauses whose truth lies in the shape of the function:

  FRAMING  what reaches `out` on every Ok path; the bytes assembled in the local buffer form one `ESC P q .. ESC \\` string
  HEADER   raster attributes and where their width/height come from
  PALETTE  register definitions (index, channel order, scale), palette size
  BAND     band loop, 6 samples per column, bit provenance of the sixel character, `$` / `-` terminators, colour selection
  RLE      shape of the run-length output, offset update
  CACHE    what is stored, under which key, and what a hit emits
  TOTAL    panic freedom of the handler body (obligations + structurally checked lemmas)

Technique: every write to the buffer is an *event* at a MIR call terminator; `write!` templates are decoded from the compiled
`fmt::Arguments` template constant (literal pieces and placeholders), values by single-definition chasing into term trees.  The CFG
with events is an automaton over tokens (literal byte / decimal number / dynamic data byte); its language (whole buffer, one band,
one colour run list, one run) is checked for inclusion in hand-written reference automata built from refs/sixel.json; tokens are
assigned grammar roles by the trimmed product and each role's value provenance is compared with the required source.

Robustness to behaviour-preserving refactorings (seeded/benign/C12-*): the clauses are decided on draw with its crate-private
single-caller helpers expanded in place (`expanded_body`: sa/inline.py restricted to non-exported fns, so that Surface::view,
ColorPalette::colors .. stay the vocabulary of the clauses; `thread_returns` removes the infeasible "helper failed, caller
continues" paths); a `&mut` of the buffer is followed through moves and reborrows (`Sinks._alias_calls`), the buffer itself through
moves; `for x in &c` reads as `c.iter()`; closures handed to iterator adaptors are evaluated path by path in draw's own terms
(`closure_paths`), which decides `<slots>.filter(sample == colour).fold(0, |c, i| c | 1 << i)` and
`while it.next_if(|next| next == (column + repeats, code)).is_some()` like the loops they replace; `extend(repeat(x).take(n))`
is the loop writing x n times."""
import json
import os
import re

from ..mir import call_matches, callee_name
from ..flow import TRANSPARENT_CALLS, ok_return_blocks, err_return_blocks

CLAIM = {
    "text": "Structural clauses (necessary conditions) of the sixel output of SixelImageHandler::draw, decided on its MIR. FRAMING: on every Ok path `out` "
            "receives nothing (quantize returned None), or exactly once the cached bytes (cache hit), or exactly once the local buffer, which is final when "
            "written; every path from the buffer's creation to its emission spells a token string of the language ESC P q \"1;1;W;H (#i;2;r;g;b)* "
            "((#c data* $)* -)* ESC \\ (write!/write_all/push/extend_from_slice events, format templates decoded from the compiled fmt::Arguments, numbers "
            "are Display of unsigned integers); every failure exit after the buffer's creation is `?` on a sink write. HEADER: the raster attributes follow the "
            "introducer directly, W = qimg.width(), H = qimg.height(), qimg = .1 of Image::quantize(img.view(..h, ..).map(..)) with h = (img.height()/6)*6. "
            "PALETTE: quantize gets a constant size <= 256; the register number is the enumerate index over palette.colors(), exactly one definition per entry, "
            "r,g,b = round(to_rgb()[0|1|2] / 2.55) as u8 (<= 100) in that order, colour system 2. BAND: rows 0..qimg.height() step 6, columns 0..width; sample "
            "slot i of a [_; 6] array = qimg[row+i][col]; sixel character = 63 + OR of 1<<i over the slots equal to the colour (bit 0 = top row), reset per colour; "
            "pushed once per distinct colour and column into run lists cleared per band; `#` is followed by the run list's key; one `$` per run list and one `-` "
            "per band (per-iteration languages). RLE: one run writes (!n? | ?*)(!m code | code*) with n = column - offset over a 0..n loop, m = repeats over a "
            "0..m loop, the byte after !m is the run's code; offset := 0 per colour and column + repeats after every run; repeats counts peeked successors "
            "(column + repeats, same code) that are consumed. CACHE: lookup and store use the same key function of the image on the same cache, the stored "
            "value is the emitted buffer, stored on every Ok path after emission, a hit writes the cached bytes and returns. TOTAL: no panic/overflow in the "
            "handler body (interpreter + lemmas ENUM-INDEX, BITS6, RUN-ORDER, CACHE-ACCOUNT, REM-LE; assumption SIZE-BOUND: dimensions < 2^31). "
            "NOT claimed: pixel-exact equality of the decoded picture with the quantised image, correctness of the quantiser/dithering (and their panic freedom: "
            "Image::quantize, ColorPalette, OcTree, KDTree are outside the TOTAL scope, see C13), the run-length arithmetic, HashMap iteration order, eviction.",
    "technique": "MIR write-event extraction with decoded format templates; token automaton of the CFG checked for language inclusion in reference "
                 "automata (whole buffer and per loop iteration) built from refs/sixel.json; role assignment through the trimmed product; value provenance "
                 "by single-definition term trees; dominance/must-pass rules; obligation discharge with structurally checked lemmas",
    "design_ref": "DESIGN.md §5 C12",
}

DRAW = "<image::SixelImageHandler as image::ImageHandler>::draw"
REFS = os.path.join(os.path.dirname(os.path.dirname(os.path.abspath(__file__))), "refs", "sixel.json")
UNSIGNED = ("u8", "u16", "u32", "u64", "u128", "usize")


# =================================================================================================
# term trees (single-definition chasing; references and derefs are transparent)
# =================================================================================================
def parse_bytes_text(text):
    """rustc's rendering of a byte-string constant `b"..."` (escape_ascii) -> bytes, or None"""
    if not (text.startswith('b"') and text.endswith('"')):
        return None
    s = text[2:-1]
    out = bytearray()
    i = 0
    simple = {"n": 10, "r": 13, "t": 9, "0": 0, "\\": 92, '"': 34, "'": 39}
    while i < len(s):
        c = s[i]
        if c != "\\":
            if ord(c) > 126:
                return None
            out.append(ord(c))
            i += 1
            continue
        if i + 1 >= len(s):
            return None
        e = s[i + 1]
        if e == "x":
            try:
                out.append(int(s[i + 2:i + 4], 16))
            except ValueError:
                return None
            i += 4
        elif e in simple:
            out.append(simple[e])
            i += 2
        else:
            return None
    return bytes(out)


CANON_INTO_ITER = [
    (r"^&('\w+ )?std::collections::HashMap<", "std::collections::HashMap::<K, V, S, A>::iter"),
    (r"^&('\w+ )?std::collections::HashSet<", "std::collections::HashSet::<T, S, A>::iter"),
    (r"^&('\w+ )?(\[.*\]|std::vec::Vec<.*>)$", "core::slice::<impl [T]>::iter"),
    (r"^&('\w+ )?mut (\[.*\]|std::vec::Vec<.*>)$", "core::slice::<impl [T]>::iter_mut"),
]


class Terms:
    def __init__(self, body):
        self.b = body
        self.memo = {}
        # locals whose memory is handed out as `&mut local`: their value is not their initialiser; keep identity as ("cell", l, init)
        self.cells = set()
        for blk in body.blocks:
            for st in blk["stmts"]:
                if st["k"] == "assign" and st["rv"]["k"] in ("ref", "rawptr") and (st["rv"].get("mut") or st["rv"]["k"] == "rawptr") and not st["rv"]["place"]["p"]:
                    self.cells.add(st["rv"]["place"]["l"])
                if st["k"] == "assign" and st["place"]["p"] and st["place"]["p"][0]["k"] != "deref" and st["place"]["l"] > body.arg_count:
                    self.cells.add(st["place"]["l"])

    # ---- construction ----------------------------------------------------------------------------
    def op(self, o):
        if o["k"] == "const":
            return self.const(o["c"])
        return self.place(o["place"])

    def const(self, c):
        if "int" in c:
            return ("int", int(c["int"]))
        if "float" in c:
            return ("float", float(c["float"]))
        if "fn" in c:
            return ("fn", c["fn"]["path"])
        if "bytes" in c:
            return ("bytes", bytes(c["bytes"]))
        b = parse_bytes_text(c.get("text", "") or "")
        if b is not None:
            return ("bytes", b)
        return ("const", c.get("text", "?"))

    def place(self, p, seen=frozenset()):
        return self.apply(self.local(p["l"], seen), p["p"], seen)

    def local(self, l, seen=frozenset()):
        if l in self.memo:
            return self.memo[l]
        b = self.b
        if 0 < l <= b.arg_count:
            r = ("arg", l)
        else:
            ds = b.defs_of(l)
            if len(ds) != 1 or l in seen or len(seen) > 60:
                r = ("var", l)
            else:
                r = self.rvalue(ds[0], seen | {l})
                if l in self.cells:
                    r = ("cell", l, r)
        if not seen:
            self.memo[l] = r
        return r

    def rvalue(self, d, seen):
        bb, si, rv = d
        if si == "term":
            t = rv
            name = callee_name(t) or "<indirect>"
            if any(call_matches(t, p) for p in TRANSPARENT_CALLS) and t["args"]:
                return self.opx(t["args"][0], seen)
            if len(t["args"]) == 1 and call_matches(t, r"^std::iter::IntoIterator::into_iter$"):
                # `for x in &collection` is `for x in collection.iter()`: one canonical term for both
                self_ty = (t["fn"].get("generics") or [""])[0]
                for rx, canon in CANON_INTO_ITER:
                    if re.match(rx, self_ty):
                        name = canon
                        break
            return ("call", name, tuple(self.opx(a, seen) for a in t["args"]), bb)
        k = rv["k"]
        if k == "use":
            return self.opx(rv["a"], seen)
        if k in ("ref", "rawptr"):
            return self.place(rv["place"], seen)
        if k == "agg":
            ak = rv["ak"]
            name = ak
            if ak == "adt":
                name = rv["adt"] + (("::" + rv["variant"]) if rv.get("is_enum") else "")
            elif ak == "closure":
                name = rv.get("def", "closure")
            return ("agg", ak, name, tuple(self.opx(f, seen) for f in rv["fields"]))
        if k == "bin":
            op = rv["op"]
            ovf = op.endswith("WithOverflow")
            return ("bin", op.replace("WithOverflow", ""), self.opx(rv["a"], seen), self.opx(rv["b"], seen), ovf)
        if k == "un":
            return ("un", rv["op"], self.opx(rv["a"], seen))
        if k == "cast":
            if rv["ck"].startswith("PointerCoercion"):
                return self.opx(rv["a"], seen)
            return ("cast", rv["ck"], rv["ty"], self.opx(rv["a"], seen))
        if k == "discr":
            return ("discr", self.place(rv["place"], seen))
        if k == "repeat":
            try:
                n = int(rv["n"])
            except (ValueError, TypeError):
                n = None
            return ("repeat", self.opx(rv["a"], seen), n)
        return ("?", k)

    def opx(self, o, seen):
        if o["k"] == "const":
            return self.const(o["c"])
        return self.place(o["place"], seen)

    def apply(self, base, projs, seen=frozenset()):
        for e in projs:
            k = e["k"]
            if k == "deref":
                continue
            if k == "field":
                if base[0] == "agg" and base[1] in ("tuple", "adt", "closure") and e["i"] < len(base[3]):
                    base = base[3][e["i"]]
                elif base[0] == "bin" and base[4]:
                    base = ("bin", base[1], base[2], base[3], False) if e["name"] == "0" else ("ovf", base)
                else:
                    base = ("field", base, e["name"])
            elif k == "downcast":
                if base[0] == "agg" and base[1] == "adt" and base[2].endswith("::" + e["variant"]):
                    pass
                else:
                    base = ("variant", base, e["variant"])
            elif k == "cindex":
                if base[0] == "agg" and base[1] == "array" and not e["from_end"] and e["offset"] < len(base[3]):
                    base = base[3][e["offset"]]
                else:
                    base = ("idx", base, -e["offset"] if e["from_end"] else e["offset"])
            elif k == "index":
                base = ("idxv", base, self.local(e["l"], seen))
            else:
                base = ("?", "proj:" + k)
        return base

    # ---- text ------------------------------------------------------------------------------------
    def show(self, t, depth=0):
        if depth > 14:
            return ".."
        k = t[0]
        s = lambda x: self.show(x, depth + 1)
        if k == "int":
            return str(t[1])
        if k == "float":
            return repr(t[1])
        if k == "bytes":
            return "b" + json.dumps(t[1].decode("latin-1"))
        if k == "arg":
            return self.b.varnames.get(t[1], "arg%d" % t[1])
        if k == "var":
            nm = self.b.varnames.get(t[1])
            return ("var:" + nm) if nm else "_%d" % t[1]
        if k == "field":
            return "%s.%s" % (s(t[1]), t[2])
        if k == "variant":
            return "%s@%s" % (s(t[1]), t[2])
        if k == "idx":
            return "%s[%d]" % (s(t[1]), t[2])
        if k == "idxv":
            return "%s[%s]" % (s(t[1]), s(t[2]))
        if k == "call":
            return "%s(%s)" % (short_name(t[1]), ", ".join(s(a) for a in t[2]))
        if k == "bin":
            return "%s(%s, %s)" % (t[1], s(t[2]), s(t[3]))
        if k == "un":
            return "%s(%s)" % (t[1], s(t[2]))
        if k == "cast":
            return "(%s as %s)" % (s(t[3]), t[2])
        if k == "agg":
            return "%s(%s)" % (short_name(t[2]), ", ".join(s(a) for a in t[3]))
        if k == "repeat":
            return "[%s; %s]" % (s(t[1]), t[2])
        if k == "discr":
            return "discr(%s)" % s(t[1])
        if k == "cell":
            nm = self.b.varnames.get(t[1])
            return "%s<%s>" % (nm or "_%d" % t[1], s(t[2]))
        if k == "fn":
            return "fn:" + t[1]
        if k == "ovf":
            return "overflow(%s)" % s(t[1])
        return "<%s>" % (t[1] if len(t) > 1 else k)


def short_name(p):
    m = re.match(r"^<(.*) as ([^<>]*?)(<.*>)?>::(\w+)$", p)
    if m:
        return "%s::%s" % (m.group(2).split("::")[-1], m.group(4))
    q = re.sub(r"<[^<>]*>", "", re.sub(r"<[^<>]*>", "", p))
    parts = [x for x in q.split("::") if x]
    return "::".join(parts[-2:]) if len(parts) >= 2 else p


def uncell(t):
    while t[0] == "cell":
        t = t[2]
    return t


def is_call(t, rx):
    t = uncell(t)
    return t[0] == "call" and re.search(rx, t[1]) is not None


def strip_bb(t):
    """tree without call block identities (for comparing the *shape* of two occurrences of the same expression)"""
    if not isinstance(t, tuple):
        return t
    if t and t[0] == "call":
        return ("call", t[1], tuple(strip_bb(a) for a in t[2]))
    return tuple(strip_bb(x) for x in t)


def match(t, pat):
    """structural equality where a call pattern written without a block id (3-tuple) matches that call at any block"""
    if isinstance(t, tuple) and t and t[0] == "cell" and not (isinstance(pat, tuple) and pat and pat[0] == "cell"):
        return match(t[2], pat)
    if isinstance(pat, tuple) and pat and pat[0] == "call" and len(pat) == 3:
        return isinstance(t, tuple) and t[0] == "call" and t[1] == pat[1] and len(t[2]) == len(pat[2]) and all(match(x, y) for x, y in zip(t[2], pat[2]))
    if isinstance(pat, tuple):
        return isinstance(t, tuple) and len(t) == len(pat) and all(match(x, y) for x, y in zip(t, pat))
    return t == pat


def children(t):
    k = t[0]
    if k == "call":
        return list(t[2])
    if k == "agg":
        return list(t[3])
    if k == "bin":
        return [t[2], t[3]]
    if k in ("un", "cell"):
        return [t[2]]
    if k == "cast":
        return [t[3]]
    if k in ("field", "variant", "idx", "repeat", "discr", "ovf"):
        return [t[1]]
    if k == "idxv":
        return [t[1], t[2]]
    return []


def subterms(t, out=None):
    if out is None:
        out = []
    out.append(t)
    for c in children(t):
        subterms(c, out)
    return out


# iterator adaptors that are the identity on the iteration source
def strip_into_iter(t):
    t = uncell(t)
    while is_call(t, r"IntoIterator>?::into_iter$") and len(t[2]) == 1:
        t = uncell(t[2][0])
    return t


def next_call(t):
    """t = payload of `Some` of an `Iterator::next(it)` call -> (bb of the call, iterator term with into_iter stripped) or None"""
    if t[0] == "variant" and t[2] == "Some" and is_call(t[1], r"(^|::)Iterator(<.*>)?>?::next$|^std::iter::Iterator::next$|Iterator for .*>::next$") and len(uncell(t[1])[2]) == 1:
        return uncell(t[1])[3], strip_into_iter(uncell(t[1])[2][0])
    return None


def item_of(t):
    """decompose `next(..)@Some.0[.f..]` -> (bb, iterator, [field names]) or None"""
    fields = []
    while t[0] == "field":
        fields.append(t[2])
        t = t[1]
    fields.reverse()
    nc = next_call(t)
    if nc is None or not fields or fields[0] != "0":
        return None
    return nc[0], nc[1], fields[1:]


# =================================================================================================
# closures: the value a closure returns, path by path, in terms of the creating body's terms
# =================================================================================================
class ClosureTerms(Terms):
    """term trees of a closure body: local 1 (the environment) is the closure aggregate of the creating body, so a captured
    variable reads as the creating body's term for it; parameters read as the given terms.  Calls inside the closure carry
    (closure path, block) instead of a block number, so they never compare equal to a block of the creating body."""

    def __init__(self, body, env, params):
        Terms.__init__(self, body)
        self.subst = {1: env}
        for i, t in enumerate(params):
            self.subst[2 + i] = t

    def local(self, l, seen=frozenset()):
        if l in self.subst:
            return self.subst[l]
        return Terms.local(self, l, seen)

    def rvalue(self, d, seen):
        r = Terms.rvalue(self, d, seen)
        if r[0] == "call" and d[1] == "term" and len(r) == 4 and isinstance(r[3], int):
            r = ("call", r[1], r[2], (self.b.path, r[3]))
        return r


class FnTerms(ClosureTerms):
    """term trees of a function item applied to the given argument terms (parameters are locals 1..n, no environment)"""

    def __init__(self, body, params):
        Terms.__init__(self, body)
        self.subst = {1 + i: t for i, t in enumerate(params)}


def apply_callable(prog, f, params):
    """value of `f(params..)` for a closure aggregate or function item with exactly one loop free path, as a term of the
    calling body, else None"""
    try:
        paths = closure_paths(prog, f, params, limit=4)
    except (KeyError, TypeError):
        return None
    if not paths or len(paths) != 1 or paths[0][0]:
        return None
    return paths[0][1]


ARRAY_MAP = r"^(std|core)::array::<impl \[T; N\]>::map$"


def pointwise(prog, t, depth=0):
    """`arr.map(f)[k]` is `f(arr[k])` (f pure: its value is what the caller goes on to pin down); a direct call of a crate
    function with one loop free path is its returned value.  Applied at the root of t repeatedly; t when nothing applies."""
    if depth > 6:
        return t
    u = uncell(t)
    k = None
    if u[0] == "idx" and isinstance(u[2], int) and u[2] >= 0:
        k = u[2]
    elif u[0] == "idxv" and uncell(u[2])[0] == "int":
        k = uncell(u[2])[1]
    if k is not None and is_call(u[1], ARRAY_MAP) and len(uncell(u[1])[2]) == 2:
        arr, f = uncell(u[1])[2]
        r = apply_callable(prog, f, [pointwise(prog, ("idx", arr, k), depth + 1)])
        if r is not None:
            return pointwise(prog, r, depth + 1)
    if u[0] == "call" and prog.body(u[1]) is not None and not re.search(r"^<.* as .*>::", u[1]):
        r = apply_callable(prog, ("fn", u[1]), list(u[2]))
        if r is not None:
            return pointwise(prog, r, depth + 1)
    return t


def closure_of(prog, t):
    """closure aggregate term -> its body, else None"""
    t = uncell(t)
    if t[0] == "agg" and t[1] == "closure":
        return prog.body(t[2])
    return None


def closure_paths(prog, clo, params, limit=64):
    """every path of a (loop free) closure from entry to return as (conditions, returned term, terms object):
    conditions = [(discriminant term, value as int | None for `otherwise`, values excluded by `otherwise`)].
    None when the closure is not understood (loops, more than `limit` paths, several creating-site shapes)."""
    clo = uncell(clo)
    if clo[0] == "fn":
        # a function item used as the callable (`.map(helper)`): same thing without an environment
        cb = prog.body(clo[1])
        if cb is None or len(params) != cb.arg_count:
            return None
        tm = FnTerms(cb, params)
    else:
        cb = closure_of(prog, clo)
        if cb is None or len(params) != cb.arg_count - 1:
            return None
        tm = ClosureTerms(cb, clo, params)
    out = []
    # (bb, conditions, last definition of _0, visited)
    st = [(0, (), None, frozenset())]
    while st:
        bb, conds, ret, seen = st.pop()
        if bb in seen or len(out) + len(st) > limit:
            return None
        seen = seen | {bb}
        blk = cb.blocks[bb]
        for si, s_ in enumerate(blk["stmts"]):
            if s_["k"] == "assign" and s_["place"]["l"] == 0:
                if s_["place"]["p"]:
                    return None
                ret = (bb, si, s_["rv"])
        t = blk["term"]
        k = t["k"]
        if k == "return":
            if ret is None:
                return None
            out.append((list(conds), tm.rvalue(ret, frozenset()), tm))
        elif k == "goto":
            st.append((t["t"], conds, ret, seen))
        elif k in ("assert", "drop") and t["t"] >= 0:
            st.append((t["t"], conds, ret, seen))
        elif k == "call" and t["t"] >= 0:
            if t["dest"]["l"] == 0:
                if t["dest"]["p"]:
                    return None
                ret = (bb, "term", t)
            st.append((t["t"], conds, ret, seen))
        elif k == "switch":
            d = tm.op(t["d"])
            for v, tg in zip(t["vals"], t["targets"]):
                st.append((tg, conds + ((d, int(v), ()),), ret, seen))
            if not cb.blocks[t["otherwise"]]["term"]["k"] == "unreachable":
                st.append((t["otherwise"], conds + ((d, None, tuple(int(v) for v in t["vals"])),), ret, seen))
        else:
            return None
    return out


def closure_truth(prog, clo, params):
    """for a closure returning bool: the paths on which it returns true, each as a list of (term, truth) atoms whose conjunction
    is that path's condition (`a && b` gives one path [(a, True), (b, True)]).  None when not understood."""
    paths = closure_paths(prog, clo, params)
    if paths is None:
        return None
    out = []
    for conds, val, tm in paths:
        atoms = []
        for (d, v, excl) in conds:
            if v is not None and v in (0, 1):
                pol = bool(v)
            elif v is None and excl == (0,):
                pol = True
            elif v is None and excl == (1,):
                pol = False
            else:
                return None
            d = uncell(d)
            while d[0] == "un" and d[1] == "Not":
                d, pol = uncell(d[2]), not pol
            atoms.append((d, pol))
        dead = False
        work = [(val, True)]
        while work:
            v_, pol = work.pop()
            v_ = uncell(v_)
            if v_[0] == "int" and v_[1] in (0, 1):
                dead = dead or bool(v_[1]) != pol
            elif v_[0] == "un" and v_[1] == "Not":
                work.append((v_[2], not pol))
            elif v_[0] == "bin" and v_[1] == "BitAnd" and pol:
                work += [(v_[2], True), (v_[3], True)]          # `a & b` on bools
            else:
                atoms.append((v_, pol))
        if not dead:
            out.append(atoms)
    return out


# =================================================================================================
# compiled format templates (library/core/src/fmt/mod.rs, `fmt::Arguments` internal representation)
# =================================================================================================
def decode_fmt_template(tb):
    """-> list of ('lit', bytes) | ('arg', index or None, default_options: bool); None when the byte string is not a valid template"""
    out = []
    i = 0
    n = len(tb)
    while True:
        if i >= n:
            return None
        c = tb[i]
        i += 1
        if c == 0:
            return out if i == n else None
        if c < 0x80:
            if i + c > n:
                return None
            out.append(("lit", bytes(tb[i:i + c])))
            i += c
        elif c == 0x80:
            if i + 2 > n:
                return None
            ln = tb[i] | (tb[i + 1] << 8)
            i += 2
            if i + ln > n:
                return None
            out.append(("lit", bytes(tb[i:i + ln])))
            i += ln
        elif c >= 0xC0:
            default = (c == 0xC0)
            idx = None
            if c & 0x01:
                i += 4
            if c & 0x02:
                i += 2
            if c & 0x04:
                i += 2
            if c & 0x08:
                if i + 2 > n:
                    return None
                idx = tb[i] | (tb[i + 1] << 8)
                i += 2
                default = (c == 0xC8)
            out.append(("arg", idx, default))
        else:
            return None


# =================================================================================================
# sinks and events
# =================================================================================================
def operands_of_rv(rv):
    k = rv["k"]
    if k in ("use", "cast", "un", "repeat"):
        return [rv["a"]]
    if k == "bin":
        return [rv["a"], rv["b"]]
    if k == "agg":
        return list(rv["fields"])
    return []


def local_uses(body, l):
    """every mention of local l in non-cleanup blocks: (bb, si|'term', kind, info)
    kinds: def store refmut ref use(operand, bare) useproj(operand with projection) arg calldest discr switch drop"""
    out = []
    for bb, blk in enumerate(body.blocks):
        if blk["cleanup"]:
            continue
        for si, s in enumerate(blk["stmts"]):
            if s["k"] != "assign":
                continue
            pl = s["place"]
            if pl["l"] == l:
                out.append((bb, si, "def" if not pl["p"] else "store", s))
            rv = s["rv"]
            if rv["k"] in ("ref", "rawptr") and rv["place"]["l"] == l:
                out.append((bb, si, "refmut" if rv.get("mut") or rv["k"] == "rawptr" else "ref", s))
            elif rv["k"] == "discr" and rv["place"]["l"] == l:
                out.append((bb, si, "discr", s))
            for o in operands_of_rv(rv):
                if o["k"] in ("copy", "move") and o["place"]["l"] == l:
                    out.append((bb, si, "use" if not o["place"]["p"] else "useproj", s))
            for e in pl["p"] + (rv.get("place", {}).get("p", []) if rv["k"] in ("ref", "rawptr", "discr") else []):
                if e["k"] == "index" and e["l"] == l:
                    out.append((bb, si, "use", s))
        t = blk["term"]
        k = t["k"]
        if k == "call":
            for i, a in enumerate(t["args"]):
                if a["k"] in ("copy", "move") and a["place"]["l"] == l:
                    out.append((bb, "term", "arg", (i, t, bool(a["place"]["p"]))))
            if t["dest"]["l"] == l:
                out.append((bb, "term", "calldest" if not t["dest"]["p"] else "store", t))
            f = t["fn"]
            if f.get("indirect") and f["indirect"].get("k") in ("copy", "move") and f["indirect"]["place"]["l"] == l:
                out.append((bb, "term", "use", t))
        elif k == "switch":
            if t["d"]["k"] in ("copy", "move") and t["d"]["place"]["l"] == l:
                out.append((bb, "term", "switch", t))
        elif k == "assert":
            c = t["cond"]
            if c["k"] in ("copy", "move") and c["place"]["l"] == l:
                out.append((bb, "term", "switch", t))
        elif k == "drop":
            if t["place"]["l"] == l:
                out.append((bb, "term", "drop", t))
    return out


WRITE_ALL_RX = r"^std::io::Write::write_all$"
WRITE_FMT_RX = r"^std::io::Write::write_fmt$"


class Event:
    def __init__(self, bb, sink, kind, term):
        self.bb = bb
        self.sink = sink        # 'buf' | 'out'
        self.kind = kind        # 'write_all' | 'write_fmt' | 'flush'
        self.term = term
        self.tokens = []        # for buf events
        self.fill = None        # term of the count when the event writes its (single) token that many times
        self.source = None      # for out write_all: term tree of the byte slice
        self.line = term.get("line")


def fill_of(t):
    """`repeat(x).take(n)` / `repeat_n(x, n)` -> (x, n) else None"""
    t = strip_into_iter(t)
    if is_call(t, r"Iterator(<.*>)?>?::take$") and len(t[2]) == 2 and is_call(t[2][0], r"^std::iter::repeat$") and len(uncell(t[2][0])[2]) == 1:
        return uncell(t[2][0])[2][0], t[2][1]
    if is_call(t, r"^std::iter::repeat_n$") and len(t[2]) == 2:
        return t[2][0], t[2][1]
    return None


class Sinks:
    """locates the `out` parameter, the byte buffer local and every event on them; `problems` lists constructs not understood"""

    def __init__(self, body, tm):
        self.body = body
        self.tm = tm
        self.problems = []
        self.events = {}        # bb -> Event
        self.out = None
        self.buf = None
        self.buf_moves = []     # (bb, call term, arg index) where the buffer is moved into a call
        self.buf_def_bb = None
        self._find()

    def _ref_consumers(self, r):
        """uses of a reference temporary other than its definition"""
        return [u for u in local_uses(self.body, r) if u[2] not in ("def", "calldest")]

    def _find(self):
        b = self.body
        outs = [l for l in range(1, b.arg_count + 1) if re.search(r"dyn std::io::Write", b.local_ty(l))]
        if len(outs) != 1:
            self.problems.append(("out-parameter", "expected exactly one `&mut dyn Write` parameter, found %d" % len(outs)))
            return
        self.out = outs[0]
        # ---- buffer: the Vec<u8> local that receives io::Write calls through `&mut local` (directly, or through a `&mut Vec<u8>`
        # handed on by moves / reborrows, e.g. into the parameter of an expanded helper)
        cands = set()
        for l in range(b.arg_count + 1, len(b.locals)):
            if not re.match(r"^std::vec::Vec<u8(, .*)?>$", b.local_ty(l)):
                continue
            calls, _ = self._alias_calls(l, "buf", owner=True)
            if any(call_matches(t, WRITE_ALL_RX) or call_matches(t, WRITE_FMT_RX) for (_, t) in calls):
                cands.add(l)
        if len(cands) != 1:
            self.problems.append(("buffer-local", "expected exactly one local Vec<u8> written through io::Write, found %d" % len(cands)))
            return
        self.buf = cands.pop()
        self._scan_sink(self.buf, "buf")
        self._scan_sink(self.out, "out")

    def _alias_calls(self, l, which, owner):
        """every call that receives (as its receiver) a `&mut` alias of the sink: `&mut l` when l owns the bytes (owner) or l itself
        when it is a `&mut` to them, handed on through moves, unsize/reborrow temporaries and `&mut *r` (so also through the
        parameter of an expanded helper).  -> ([(bb, call term)], [problem])"""
        b = self.body
        calls, problems = [], []
        seen = set()
        work = []          # reference locals to follow

        def start_ref(info):
            """info: the `r = &mut place` statement"""
            if info["place"]["p"]:
                problems.append((which + "-borrow", "mutable borrow stored into a place"))
            else:
                work.append(info["place"]["l"])

        if owner:
            for (bb, si, kind, info) in local_uses(b, l):
                if kind == "refmut":
                    if info["rv"]["place"]["p"]:
                        problems.append((which + "-borrow", "mutable borrow of a part of the sink"))
                    else:
                        start_ref(info)
        else:
            work.append(l)
        while work:
            r = work.pop()
            if r in seen:
                continue
            seen.add(r)
            if r != l and len(b.defs_of(r)) != 1:
                problems.append((which + "-borrow", "a `&mut` of the sink lives in a local with %d definitions" % len(b.defs_of(r))))
                continue
            for (bb, si, kind, info) in local_uses(b, r):
                if kind in ("def", "calldest"):
                    if r == l:
                        problems.append(("out-reassigned", "the `out` parameter is assigned"))
                    continue
                if kind == "refmut":
                    if [e["k"] for e in info["rv"]["place"]["p"]] != ["deref"]:
                        problems.append((which + "-borrow", "mutable borrow of a part of the sink"))
                    else:
                        start_ref(info)            # reborrow `&mut *r`
                elif kind in ("ref", "drop"):
                    continue                       # shared borrows cannot change the bytes
                elif kind == "use" and si != "term" and not info["place"]["p"] and (
                        info["rv"]["k"] == "use" or (info["rv"]["k"] == "cast" and info["rv"]["ck"].startswith("PointerCoercion"))):
                    work.append(info["place"]["l"])    # moved on (also into the parameter of an expanded helper)
                elif kind == "arg" and info[0] == 0 and not info[2]:
                    calls.append((bb, info[1]))
                else:
                    problems.append((which + "-borrow", "a `&mut` of the sink is not consumed as the receiver of a call (%s)" % kind))
        return calls, problems

    def _scan_sink(self, l, which):
        b = self.body
        calls, problems = self._alias_calls(l, which, owner=(which == "buf"))
        self.problems += problems
        for (bb, t) in sorted(calls, key=lambda c: c[0]):
            self._event(bb, t, which)
        if which == "out":
            return
        ndef = 0
        owners = [l]           # the buffer, and the locals it is moved into (e.g. the by-value parameter of an expanded helper)
        seen = set()
        while owners:
            o = owners.pop()
            if o in seen:
                continue
            seen.add(o)
            if o != l:
                if len(b.defs_of(o)) != 1:
                    self.problems.append(("buffer-moved", "the buffer is moved into a local with %d definitions" % len(b.defs_of(o))))
                    continue
                calls, problems = self._alias_calls(o, which, owner=True)
                self.problems += problems
                for (bb, t) in sorted(calls, key=lambda c: c[0]):
                    self._event(bb, t, which)
            for (bb, si, kind, info) in local_uses(b, o):
                if kind in ("def", "calldest"):
                    if o != l:
                        continue
                    ndef += 1
                    self.buf_def_bb = bb
                    if not (kind == "calldest" and call_matches(info, r"^std::vec::Vec::<T>::(new|with_capacity)$")):
                        self.problems.append(("buffer-origin", "the buffer is not created by Vec::new()/with_capacity()"))
                elif kind in ("refmut", "ref", "drop"):
                    continue
                elif kind == "use" and si != "term" and info["rv"]["k"] == "use" and info["rv"]["a"]["k"] == "move" and not info["place"]["p"]:
                    m = info["place"]["l"]
                    cons = self._ref_consumers(m)
                    if len(cons) == 1 and cons[0][2] == "arg" and not cons[0][3][2]:
                        self.buf_moves.append((cons[0][0], cons[0][3][1], cons[0][3][0]))
                    elif all(c[2] == "drop" for c in cons):
                        continue
                    else:
                        owners.append(m)
                elif kind == "arg" and not info[2]:
                    self.buf_moves.append((bb, info[1], info[0]))
                else:
                    self.problems.append((which + "-use", "use of the sink that is not understood (%s)" % kind))
        if ndef != 1:
            self.problems.append(("buffer-origin", "the buffer local has %d definitions" % ndef))

    def _event(self, bb, t, which):
        if bb in self.events:
            self.problems.append((which + "-event", "two sink operations in one block"))
            return
        if which == "buf" and call_matches(t, r"^std::vec::Vec::<T, A>::(reserve|reserve_exact|shrink_to_fit|shrink_to)$"):
            return          # capacity only: the bytes are unchanged
        if call_matches(t, WRITE_ALL_RX) and len(t["args"]) == 2:
            ev = Event(bb, which, "write_all", t)
            src = self.tm.op(t["args"][1])
            ev.source = src
            if which == "buf":
                ev.tokens = self._bytes_tokens(src, t)
        elif call_matches(t, WRITE_FMT_RX) and len(t["args"]) == 2:
            ev = Event(bb, which, "write_fmt", t)
            ev.source = self.tm.op(t["args"][1])
            ev.tokens = self._fmt_tokens(ev.source)
        elif call_matches(t, r"^std::io::Write::flush$"):
            ev = Event(bb, which, "flush", t)
        elif which == "buf" and call_matches(t, r"^std::vec::Vec::<T, A>::extend_from_slice$") and len(t["args"]) == 2:
            ev = Event(bb, which, "write_all", t)
            ev.source = self.tm.op(t["args"][1])
            ev.tokens = self._bytes_tokens(ev.source, t)
        elif which == "buf" and call_matches(t, r"Extend<.*>>::extend$|^std::iter::Extend::extend$") and len(t["args"]) == 2 and fill_of(self.tm.op(t["args"][1])) is not None:
            # `buf.extend(repeat(x).take(n))`: n copies of one byte, the iterator form of `for _ in 0..n { buf.push(x) }`
            x, n = fill_of(self.tm.op(t["args"][1]))
            ev = Event(bb, which, "write_all", t)
            ev.source = ("agg", "array", "array", (x,))
            ev.tokens = self._bytes_tokens(ev.source, t)
            ev.fill = n
        elif which == "buf" and call_matches(t, r"^std::vec::Vec::<T, A>::push$") and len(t["args"]) == 2:
            ev = Event(bb, which, "write_all", t)
            ev.source = ("agg", "array", "array", (self.tm.op(t["args"][1]),))
            ev.tokens = self._bytes_tokens(ev.source, t)
        else:
            self.problems.append((which + "-call", "the sink is passed to %s" % (callee_name(t) or "an indirect call")))
            return
        self.events[bb] = ev

    # ---- tokens ----------------------------------------------------------------------------------
    def _bytes_tokens(self, src, t):
        if src[0] == "bytes":
            return [("lit", c) for c in src[1]]
        if src[0] == "agg" and src[1] == "array":
            toks = []
            for f in src[3]:
                if f[0] == "int" and 0 <= f[1] <= 255:
                    toks.append(("lit", f[1]))
                else:
                    toks.append(("dyn", f))
            return toks
        return [("bad", "byte slice " + self.tm.show(src))]

    def _fmt_tokens(self, a):
        if is_call(a, r"^std::fmt::Arguments::<'a>::from_str$") and len(a[2]) == 1 and a[2][0][0] == "bytes":
            return [("lit", c) for c in a[2][0][1]]
        if not (is_call(a, r"^std::fmt::Arguments::<'a>::new$") and len(a[2]) == 2 and a[2][0][0] == "bytes"):
            return [("bad", "format arguments " + self.tm.show(a)[:120])]
        pieces = decode_fmt_template(a[2][0][1])
        args = a[2][1]
        if pieces is None or not (args[0] == "agg" and args[1] == "array"):
            return [("bad", "format template not decodable")]
        toks = []
        nxt = 0
        for p in pieces:
            if p[0] == "lit":
                toks += [("lit", c) for c in p[1]]
                continue
            idx = p[1] if p[1] is not None else nxt
            if p[1] is None:
                nxt += 1
            if idx >= len(args[3]):
                return [("bad", "format placeholder without argument")]
            arg = args[3][idx]
            if not p[2]:
                toks.append(("bad", "placeholder with non-default format options"))
                continue
            if not (is_call(arg, r"^core::fmt::rt::Argument::<'_>::new_display$") and len(arg[2]) == 1):
                toks.append(("bad", "placeholder not formatted with Display: " + self.tm.show(arg)[:80]))
                continue
            gen = self.body.blocks[arg[3]]["term"]["fn"].get("generics") or []
            ty = re.sub(r"^(&('\w+ )?(mut )?)+", "", gen[-1]) if gen else None
            if ty not in UNSIGNED:
                toks.append(("bad", "Display of a %s value (not an unsigned integer: may print characters other than digits)" % ty))
                continue
            toks.append(("num", arg[2][0], ty))
        return toks


# =================================================================================================
# token automata: code graph, reference NFA, inclusion and role assignment
# =================================================================================================
class NFA:
    def __init__(self, name):
        self.name = name
        self.trans = {}       # state -> [(label, dst, role)]
        self.eps = {}         # state -> [dst]
        self.start = None
        self.accept = set()
        self.group = {}       # state -> rule name
        self.n = 0

    def state(self, name, group):
        self.group.setdefault(name, group)
        self.trans.setdefault(name, [])
        self.eps.setdefault(name, [])
        return name

    def add(self, src, label, dst, role=None):
        self.trans[src].append((label, dst, role))

    def add_eps(self, src, dst):
        self.eps[src].append(dst)

    def seq(self, group, src, items, dst, tag):
        """chain of labels from src to dst through fresh states `tag.k`; items: label or (label, role)"""
        cur = src
        for i, it in enumerate(items):
            lab, role = it if (isinstance(it, tuple) and len(it) == 2 and isinstance(it[0], tuple)) else (it, None)
            nxt = dst if i == len(items) - 1 else self.state("%s.%d" % (tag, i + 1), group)
            self.add(cur, lab, nxt, role)
            cur = nxt

    def closure(self, S):
        S = set(S)
        st = list(S)
        while st:
            x = st.pop()
            for y in self.eps.get(x, ()):
                if y not in S:
                    S.add(y)
                    st.append(y)
        return frozenset(S)


def L(c):
    return ("lit", c if isinstance(c, int) else ord(c))


NUM = ("num",)
DATA = ("data",)
DYN = ("dyn",)


def label_matches(label, tok, data_range):
    k = label[0]
    if k == "lit":
        return tok[0] == "lit" and tok[1] == label[1]
    if k == "num":
        return tok[0] == "num"
    if k == "dyn":
        return tok[0] == "dyn"
    if k == "data":
        return tok[0] == "dyn" or (tok[0] == "lit" and data_range[0] <= tok[1] <= data_range[1])
    return False


def tok_name(tok):
    if tok[0] == "lit":
        c = tok[1]
        if c == 0x1b:
            return "lit-ESC"
        if c == 0x5c:
            return "lit-backslash"
        if 33 <= c < 127 and chr(c) not in "/":
            return "lit-" + chr(c)
        return "lit-0x%02x" % c
    return tok[0]


class CodeGraph:
    """blocks are nodes; an event block's tokens label the edges to its normal successors (through chain nodes)"""

    def __init__(self, body, events, sink="buf"):
        self.body = body
        self.edges = {}     # node -> [(tok or None, dst, occ)]
        for bb, blk in enumerate(body.blocks):
            if blk["cleanup"]:
                continue
            ev = events.get(bb)
            toks = ev.tokens if (ev is not None and ev.sink == sink) else []
            succ = body.succs(bb)
            if not toks:
                self.edges[("B", bb)] = [(None, ("B", s), None) for s in succ]
                continue
            if ev.fill is not None and len(toks) == 1:
                # zero or more copies of the token
                star = ("E", bb, 1)
                self.edges[("B", bb)] = [(toks[0], star, (bb, 0))] + [(None, ("B", s), None) for s in succ]
                self.edges[star] = [(toks[0], star, (bb, 0))] + [(None, ("B", s), None) for s in succ]
                continue
            cur = ("B", bb)
            for i, tk in enumerate(toks):
                last = i == len(toks) - 1
                if last:
                    self.edges[cur] = [(tk, ("B", s), (bb, i)) for s in succ]
                else:
                    nxt = ("E", bb, i + 1)
                    self.edges[cur] = [(tk, nxt, (bb, i))]
                    cur = nxt

    def sub(self, start, accept, removed=()):
        """edges restricted to nodes on some path start -> accept that does not continue through accept / removed nodes"""
        fw = set()
        st = [start]
        while st:
            x = st.pop()
            if x in fw:
                continue
            fw.add(x)
            if x in accept or x in removed:
                continue
            for (_, d, _) in self.edges.get(x, ()):
                st.append(d)
        pred = {}
        for x in fw:
            if x in accept or x in removed:
                continue
            for (_, d, _) in self.edges.get(x, ()):
                pred.setdefault(d, []).append(x)
        bw = set()
        st = [a for a in accept if a in fw]
        while st:
            x = st.pop()
            if x in bw:
                continue
            bw.add(x)
            for p in pred.get(x, ()):
                st.append(p)
        keep = fw & bw
        ed = {}
        for x in keep:
            if x in accept:
                ed[x] = []
                continue
            ed[x] = [(tk, d, occ) for (tk, d, occ) in self.edges.get(x, ()) if d in keep]
        return ed


def check_inclusion(edges, start, accept, nfa, data_range):
    """every token path start->accept of the code graph is accepted by the NFA?  Returns (violations, roles, reachable)
    violations: ('dead', node, tok, states, occ) | ('incomplete', node, states);  roles: role -> {occ: tok}"""
    viol = []
    if start not in edges:
        return [("empty", None, None, (), None)], {}, False
    S0 = nfa.closure({nfa.start})
    seen = set()
    st = [(start, S0)]
    while st:
        node, S = st.pop()
        if (node, S) in seen:
            continue
        seen.add((node, S))
        if node in accept:
            if not (S & nfa.accept):
                viol.append(("incomplete", node, None, tuple(sorted(S)), None))
            continue
        for (tk, d, occ) in edges.get(node, ()):
            if tk is None:
                st.append((d, S))
                continue
            S2 = set()
            for q in S:
                for (lab, q2, role) in nfa.trans.get(q, ()):
                    if label_matches(lab, tk, data_range):
                        S2.add(q2)
            if not S2:
                viol.append(("dead", node, tk, tuple(sorted(S)), occ))
                continue
            st.append((d, nfa.closure(S2)))
    # ---- roles through the trimmed product of code graph x NFA
    fw = set()
    st = [(start, q) for q in S0]
    pedges = {}
    while st:
        x = st.pop()
        if x in fw:
            continue
        fw.add(x)
        node, q = x
        if node in accept:
            continue
        for (tk, d, occ) in edges.get(node, ()):
            if tk is None:
                pedges.setdefault(x, []).append(((d, q), None, None, None))
                st.append((d, q))
                continue
            for (lab, q2, role) in nfa.trans.get(q, ()):
                if label_matches(lab, tk, data_range):
                    for q3 in nfa.closure({q2}):
                        pedges.setdefault(x, []).append(((d, q3), role, occ, tk))
                        st.append((d, q3))
    rev = {}
    for x, es in pedges.items():
        for (y, role, occ, tk) in es:
            rev.setdefault(y, []).append(x)
    bw = set()
    st = [(n, q) for (n, q) in fw if n in accept and q in nfa.accept]
    while st:
        x = st.pop()
        if x in bw:
            continue
        bw.add(x)
        for p in rev.get(x, ()):
            st.append(p)
    roles = {}
    for x, es in pedges.items():
        if x not in bw:
            continue
        for (y, role, occ, tk) in es:
            if role is not None and y in bw:
                roles.setdefault(role, {})[occ] = tk
    return viol, roles, True


# =================================================================================================
# reference automata (as-built shape grammar; a sublanguage of the DEC sixel data grammar of refs/sixel.json)
# =================================================================================================
def grammar_whole(refs):
    """ESC P q  " 1 ; 1 ; W ; H  ( # reg ; 2 ; r ; g ; b )*  ( ( # sel  data*  $ )*  - )*  ESC \\"""
    fr, ct = refs["framing"], refs["controls"]
    sep = L(refs["separator"]["byte"])
    g = NFA("sixel")
    for nm, grp in (("start", "FRAMING"), ("introduced", "HEADER"), ("palette", "PALETTE"), ("band-start", "BAND"), ("band", "BAND"),
                    ("run", "BAND"), ("end", "FRAMING")):
        g.state(nm, grp)
    g.start = "start"
    g.accept = {"end"}
    g.seq("FRAMING", "start", [L(c) for c in fr["introducer"]] + [L(fr["final"])], "introduced", "introducer")
    g.seq("HEADER", "introduced", [L(ct["raster"]["byte"]), L("1"), sep, L("1"), sep, (NUM, "W"), sep, (NUM, "H")], "palette", "raster")
    g.seq("PALETTE", "palette", [L(ct["color"]["byte"]), (NUM, "reg"), sep, L(str(ct["color"]["rgb_system"])), sep, (NUM, "r"), sep, (NUM, "g"), sep, (NUM, "b")],
          "palette", "register")
    g.add_eps("palette", "band-start")
    # band-start: nothing emitted yet in this band; band: at least one colour run list emitted in this band
    for s in ("band-start", "band"):
        g.seq("BAND", s, [L(ct["color"]["byte"]), (NUM, "sel")], "run", "select-" + s)
    g.add("band-start", L(ct["new_line"]["byte"]), "band-start")
    g.add("band", L(ct["new_line"]["byte"]), "band-start")
    g.add("run", DATA, "run")
    g.state("repeat.1", "RLE")
    g.state("repeat.2", "RLE")
    g.add("run", L(ct["repeat"]["byte"]), "repeat.1")
    g.add("repeat.1", NUM, "repeat.2", "count")
    g.add("repeat.2", DATA, "run", "repeated")
    g.add("run", L(ct["carriage_return"]["byte"]), "band")
    g.seq("FRAMING", "band-start", [L(c) for c in fr["terminator"]], "end", "terminator")
    return g


def grammar_band(refs):
    """one band-loop iteration: ( # sel data* $ )* -"""
    ct = refs["controls"]
    g = NFA("band-iteration")
    for nm in ("band-start", "run", "band-end"):
        g.state(nm, "BAND")
    g.start = "band-start"
    g.accept = {"band-end"}
    g.seq("BAND", "band-start", [L(ct["color"]["byte"]), (NUM, "sel")], "run", "select")
    g.add("run", DATA, "run")
    g.state("repeat.1", "RLE")
    g.state("repeat.2", "RLE")
    g.add("run", L(ct["repeat"]["byte"]), "repeat.1")
    g.add("repeat.1", NUM, "repeat.2")
    g.add("repeat.2", DATA, "run")
    g.add("run", L(ct["carriage_return"]["byte"]), "band-start")
    g.add("band-start", L(ct["new_line"]["byte"]), "band-end")
    return g


def grammar_colour(refs):
    """one iteration of the per-colour loop: # sel data* $"""
    ct = refs["controls"]
    g = NFA("colour-iteration")
    for nm in ("colour-start", "run", "colour-end"):
        g.state(nm, "BAND")
    g.start = "colour-start"
    g.accept = {"colour-end"}
    g.seq("BAND", "colour-start", [L(ct["color"]["byte"]), (NUM, "sel")], "run", "select")
    g.add("run", DATA, "run")
    g.state("repeat.1", "RLE")
    g.state("repeat.2", "RLE")
    g.add("run", L(ct["repeat"]["byte"]), "repeat.1")
    g.add("repeat.1", NUM, "repeat.2")
    g.add("repeat.2", DATA, "run")
    g.add("run", L(ct["carriage_return"]["byte"]), "colour-end")
    return g


def grammar_run(refs):
    """one iteration of the run loop:  ( ! skip ? | ?* )  ( ! count CODE | CODE* )"""
    ct, dt = refs["controls"], refs["data"]
    g = NFA("run-iteration")
    for nm in ("run-start", "blanks", "skipped", "codes", "run-end"):
        g.state(nm, "RLE")
    g.start = "run-start"
    g.accept = {"run-start", "blanks", "skipped", "codes", "run-end"}
    g.seq("RLE", "run-start", [L(ct["repeat"]["byte"]), (NUM, "skip"), (L(dt["blank"]), "skip-char")], "skipped", "skip")
    g.add("run-start", L(dt["blank"]), "blanks", "blank")
    g.add("blanks", L(dt["blank"]), "blanks", "blank")
    for s in ("run-start", "blanks", "skipped"):
        g.seq("RLE", s, [L(ct["repeat"]["byte"]), (NUM, "repeats"), (DYN, "repeated-code")], "run-end", "repeat-" + s)
        g.add(s, DYN, "codes", "code")
    g.add("codes", DYN, "codes", "code")
    return g


# =================================================================================================
# loops driven by `Iterator::next`
# =================================================================================================
class Loop:
    """`loop { match it.next() { Some(x) => body, None => break } }`: head = block of the next() call"""

    def __init__(self, body, tm, bb, t):
        self.head = bb
        self.term = t
        self.iter = strip_into_iter(tm.op(t["args"][0])) if t["args"] else ("?", "iter")
        self.dest = t["dest"]["l"]
        self.some = None
        self.none = None
        sw = body.blocks[t["t"]]["term"] if t["t"] >= 0 else None
        if sw is not None and sw["k"] == "switch":
            d = tm.op(sw["d"])
            if d == ("discr", ("var", self.dest)) or (d[0] == "discr" and d[1][0] == "call" and d[1][3] == bb):
                for v, tg in zip(sw["vals"], sw["targets"]):
                    if v == "1":
                        self.some = tg
                    elif v == "0":
                        self.none = tg
                if self.none is None:
                    self.none = sw["otherwise"]
                if self.some is None and sw["vals"] == ["0"]:
                    self.some = sw["otherwise"]

    def ok(self):
        return self.some is not None and self.none is not None


def find_loops(body, tm):
    out = []
    cfg = body.cfg()
    for bb, t in body.calls():
        if call_matches(t, r"^std::iter::Iterator::next$") and len(t["args"]) == 1:
            lp = Loop(body, tm, bb, t)
            # a loop head is reachable from its own Some branch
            if lp.ok() and bb in cfg.reachable_from(lp.some):
                out.append(lp)
    return out


def in_loop(cfg, lp, bb):
    """bb lies in the body of loop lp: reachable from the Some branch without passing the head, and reaches the head"""
    return bb in cfg.reachable_from(lp.some, removed={lp.head}) and lp.head in cfg.reachable_from(bb)


def range_iter(t):
    """Range{start, end} aggregate -> (start, end) or None"""
    if t[0] == "agg" and t[1] == "adt" and t[2] == "std::ops::Range" and len(t[3]) == 2:
        return t[3][0], t[3][1]
    return None


# =================================================================================================
# private helpers of draw are expanded in place
# =================================================================================================
def private_fn_spans(src):
    """(file, first line, last line) of every fn item that is not exported (`fn`, `pub(crate) fn`, .. but not `pub fn`) and is
    not a trait's provided method: the functions a refactoring may freely create, split or dissolve"""
    out = []
    for (f, impl_self, impl_trait, it, in_test) in src.fns:
        if in_test or impl_trait is not None or (impl_self or "").startswith("trait "):
            continue
        vis = (it.get("vis") or "").replace(" ", "")
        if vis == "pub":
            continue
        out.append((f, it["line"], it.get("end_line", it["line"])))
    return out


def is_private_helper(spans, b):
    return b is not None and b.kind in ("Fn", "AssocFn") and not b.impl_trait and any(f == b.file and lo <= b.line <= hi for (f, lo, hi) in spans)


def expanded_body(ctx, path):
    """`path` with the crate-private helpers that only it calls expanded in place (sa/inline.py).  Exported functions and trait
    methods (Surface::view, ColorPalette::colors, ..) are the vocabulary the clauses are written in and stay calls."""
    from .. import inline
    prog = ctx.prog
    spans = private_fn_spans(ctx.src)
    orig = inline.inlinable
    cache = prog.__dict__.setdefault("_inl_cache", {})
    saved = cache.pop(path, None)

    def only_private(prog_, callee, into_root, *a, **kw):
        return is_private_helper(spans, callee) and orig(prog_, callee, into_root, *a, **kw)
    inline.inlinable = only_private
    try:
        body = inline.inlined(prog, path, keep="c12-only-private^")
    finally:
        inline.inlinable = orig
        for k in [k for k in cache if isinstance(k, tuple) and k[0] == path and k[1] == "c12-only-private^"]:
            cache.pop(k, None)
        if saved is not None:
            cache[path] = saved
    if body is not prog.body(path):
        body = thread_returns(body)
    return body, spans


def _variant_after(t, arg_variant):
    """variant index of the destination of a call whose outcome is fixed by its callee / its argument's variant, else None"""
    gen = t["fn"].get("generics") or []
    self_ty = gen[0] if gen else ""
    if call_matches(t, r"FromResidual.*::from_residual$"):
        if self_ty.startswith("std::result::Result<"):
            return 1                                        # Result::from_residual(Err(e)) is Err(From::from(e))
        if self_ty.startswith("std::option::Option<"):
            return 0
        return None
    if call_matches(t, r"^std::ops::Try::branch$|Try>::branch$") and arg_variant is not None:
        if self_ty.startswith("std::result::Result<"):
            return arg_variant                              # Ok(0) -> Continue(0), Err(1) -> Break(1)
        if self_ty.startswith("std::option::Option<"):
            return 1 - arg_variant                          # None(0) -> Break(1), Some(1) -> Continue(0)
    return None


def thread_returns(body):
    """An expanded helper leaves its result in one local on all of its return paths, which merge before the caller looks at the
    result (`helper(..)?`, `match helper(..)`, `if helper(..)`), so the CFG contains the infeasible combinations "helper failed,
    caller continues".  Where a block inside an expanded helper fixes the variant / constant of the result and the blocks from
    there to the caller's switch on it form a straight line (goto, drop, `Try::branch`, plain moves), the edge is redirected to
    the switch target that variant selects.  Statements are not touched (term trees are flow insensitive); blocks of draw itself
    keep their numbers.  Returns a new Body (the given one when nothing was threaded)."""
    import copy
    from ..mir import Body
    blocks = body.blocks

    def follow(start_bb, env):
        """-> switch target selected, walking single-successor blocks from start_bb with env: local -> ('v', variant) | ('c', int)"""
        bb = start_bb
        for _ in range(40):
            blk = blocks[bb]
            if blk["cleanup"]:
                return None
            for st in blk["stmts"]:
                if st["k"] != "assign":
                    continue
                pl, rv = st["place"], st["rv"]
                if pl["p"]:
                    env.pop(pl["l"], None)
                    continue
                val = None
                if rv["k"] == "use" and rv["a"]["k"] in ("copy", "move") and not rv["a"]["place"]["p"]:
                    val = env.get(rv["a"]["place"]["l"])
                elif rv["k"] == "use" and rv["a"]["k"] == "const" and "int" in rv["a"]["c"]:
                    val = ("c", int(rv["a"]["c"]["int"]))
                elif rv["k"] == "discr" and not rv["place"]["p"] and env.get(rv["place"]["l"], ("?",))[0] == "v":
                    val = ("c", env[rv["place"]["l"]][1])
                elif rv["k"] == "agg" and rv.get("ak") == "adt" and rv.get("is_enum"):
                    val = ("v", rv["vi"])
                elif rv["k"] in ("ref", "rawptr") and (rv.get("mut") or rv["k"] == "rawptr"):
                    env.pop(rv["place"]["l"], None)
                if val is None:
                    env.pop(pl["l"], None)
                else:
                    env[pl["l"]] = val
            t = blk["term"]
            k = t["k"]
            if k == "goto":
                bb = t["t"]
            elif k == "drop" and t["t"] >= 0:
                env.pop(t["place"]["l"], None)
                bb = t["t"]
            elif k == "call" and t["t"] >= 0 and not t["dest"]["p"]:
                a0 = t["args"][0] if t["args"] else None
                av = env.get(a0["place"]["l"]) if a0 is not None and a0["k"] in ("copy", "move") and not a0["place"]["p"] else None
                v = _variant_after(t, av[1] if av and av[0] == "v" else None)
                if v is None:
                    return None
                env[t["dest"]["l"]] = ("v", v)
                bb = t["t"]
            elif k == "switch":
                d = t["d"]
                dv = env.get(d["place"]["l"]) if d["k"] in ("copy", "move") and not d["place"]["p"] else None
                if dv is None or dv[0] != "c":
                    return None
                for v, tg in zip(t["vals"], t["targets"]):
                    if int(v) == dv[1]:
                        return tg
                return t["otherwise"]
            else:
                return None
        return None

    redirect = {}
    for bb, blk in enumerate(blocks):
        if not blk.get("inl_from") or blk["cleanup"]:
            continue
        t = blk["term"]
        if t["k"] not in ("goto", "call") or t.get("t", -1) < 0:
            continue
        # the block must itself fix something: a whole-local enum aggregate / constant, or a call with a fixed outcome
        fixes = any(st["k"] == "assign" and not st["place"]["p"] and (
            (st["rv"]["k"] == "agg" and st["rv"].get("is_enum")) or (st["rv"]["k"] == "use" and st["rv"]["a"]["k"] == "const" and "int" in st["rv"]["a"]["c"]))
            for st in blk["stmts"])
        if t["k"] == "call":
            fixes = _variant_after(t, None) is not None and not t["dest"]["p"]
        if not fixes:
            continue
        tg = follow(bb, {})
        if tg is not None and tg != t["t"]:
            redirect[bb] = tg
    if not redirect:
        return body
    j = copy.deepcopy(body.j)
    for bb, tg in redirect.items():
        j["blocks"][bb]["term"]["t"] = tg
        j["blocks"][bb]["term"]["threaded_from"] = blocks[bb]["term"]["t"]
    j["threaded_edges"] = len(redirect)
    return Body(j, body.prog)


# =================================================================================================
# the check
# =================================================================================================
class A:
    """analysis state shared by the rule functions"""
    pass


def site(a, bb):
    blk = a.body.blocks[bb]
    ln = blk["term"].get("line")
    if not ln:
        for s in blk["stmts"]:
            if s.get("line"):
                ln = s["line"]
                break
    return ["%s:%s" % (a.body.file, ln)] if ln else [a.body.loc]


def states_text(states):
    return ",".join(sorted(states))


def report_grammar(ctx, a, viol, nfa, default_rule, what):
    """turn inclusion violations into rule violations; the rule is the group of the reference state the code was in"""
    for (kind, node, tk, S, occ) in viol:
        if kind == "empty":
            ctx.anchor(default_rule, what + "-language-empty", "no path of %s reaches its end: the construct is not understood" % what)
            continue
        groups = sorted({nfa.group.get(q, default_rule) for q in S}) or [default_rule]
        names = sorted({q.split(".")[0] for q in S})
        bb = node[1]
        if kind == "incomplete":
            ctx.violation("FRAMING" if nfa.name == "sixel" else default_rule, DRAW, "%s-incomplete-in-%s" % (what, "+".join(names)),
                          "%s can end while the sixel grammar is in state {%s}: the %s is not complete there" % (what, states_text(S), nfa.name), sites=site(a, bb))
            continue
        rule = groups[0] if len(groups) == 1 else default_rule
        exp = sorted({("%s" % (tok_name(lab) if lab[0] == "lit" else lab[0])) for q in S for (lab, _, _) in nfa.trans.get(q, ())})
        msg = "%s: after reaching grammar state {%s} the code writes %s; the %s grammar allows only {%s} there" % (
            what, states_text(S), tk[1] if tk[0] == "bad" else tok_name(tk) + ((" " + a.tm.show(tk[1])[:80]) if tk[0] in ("num", "dyn") else ""), nfa.name, ", ".join(exp))
        ctx.violation(rule, DRAW, "%s-%s-after-%s" % (what, tok_name(tk), "+".join(names)), msg, sites=site(a, occ[0] if occ else bb))


def run(ctx):
    prog = ctx.prog
    ctx.explanation = (
        "Decides the clauses of C12 whose truth lies in the SHAPE of SixelImageHandler::draw, as necessary conditions, from its MIR: "
        "FRAMING (each Ok path writes to `out` nothing, or once the cached bytes on a cache hit, or once the finished local buffer; the buffer's "
        "token language is inside ESC P q <raster> <registers>* (<colour runs> -)* ESC \\ and only I/O `?` exits lie inside), HEADER (raster "
        "attributes \"1;1;W;H directly after the introducer, W/H = width/height of the quantised image of the view ..height with height = "
        "(img.height()/6)*6), PALETTE (quantize with a constant size <= 256; #i;2;r;g;b with i the enumerate index over palette.colors() and "
        "r,g,b = round(channel k / 2.55), k = 0,1,2), BAND (rows 0..qimg.height() step 6, columns 0..width, samples row+i of that column, sixel "
        "character = 63 + OR of 1<<i over the rows holding the colour, one `$` per colour run list and one `-` per band, colour selection by map "
        "key), RLE (per run: optional skip `!n?`/`?`*, then `!n` + exactly one code byte or plain code bytes; counts are column-offset and repeats; "
        "offset := column + repeats), CACHE (stored value is the emitted buffer under the looked-up key; a hit emits only the cached bytes), TOTAL "
        "(no panic in the handler body: interpreter + lemmas ENUM-INDEX, BITS6, RUN-ORDER, CACHE-ACCOUNT, REM-LE + assumption SIZE-BOUND). "
        "NOT decided and NOT claimed: pixel-exact equality of the decoded picture with the quantised image, correctness of the quantiser and of the "
        "dithering (Image::quantize, ColorPalette, OcTree, KDTree: their panic obligations are outside the TOTAL scope too, see C13), the run-length "
        "ARITHMETIC (that skips and repeats add up to the right columns), HashMap iteration order (colour runs of one band may appear in any order).")
    ctx.assume("I/O errors of `out` abort the draw (Err paths are not part of the emitted language); Vec<u8> as io::Write appends exactly the bytes it is given; "
               "Display of an unsigned integer prints its decimal digits only")
    ctx.assume("SIZE-BOUND: image dimensions (rows, columns) are below 2^31, so sums of a row/column index and a run length fit usize")
    ctx.assume("Surface::map and Image::quantize preserve the shape of their input (width of the quantised image = width of the source view); "
               "Image::quantize returns palette indices < palette.colors().len() (quantiser correctness, C13)")
    ctx.trust("refs/sixel.json", "sixel grammar facts written by hand from DEC STD 070 / VT330/340 Programmer Reference (ch.14) / 'All About SIXELs'")
    ctx.trust("fmt::Arguments template encoding", "decoded as documented in library/core/src/fmt/mod.rs of the pinned toolchain; undecodable templates fail closed")

    ctx.rule("FRAMING", "out receives nothing, the cached bytes once, or the finished buffer once; buffer language = one ESC P q .. ESC \\ string; only I/O failure exits inside", floor=7)
    ctx.rule("HEADER", "raster attributes \"1;1;W;H directly after the introducer; W,H from the quantised view ..(height/6)*6; band height constants agree", floor=5)
    ctx.rule("PALETTE", "palette size constant <= 256; #index;2;r;g;b with index = enumerate index over palette.colors(), r,g,b = round(channel/2.55) in order", floor=6)
    ctx.rule("BAND", "band/column loops, 6 samples per column, bit provenance of the sixel character, `$` per colour and `-` per band, colour selection", floor=13)
    ctx.rule("RLE", "run iteration language; counts are column-offset / repeats; repeated byte is the code; offset := column + repeats", floor=10)
    ctx.rule("CACHE", "stored bytes = emitted buffer, same key function for lookup and store, a hit emits the cached bytes and returns", floor=5)

    try:
        refs = json.load(open(REFS))
    except Exception as e:
        ctx.anchor("FRAMING", "refs/sixel.json", "reference data unreadable: %s" % e)
        return
    if prog.body(DRAW) is None:
        ctx.anchor("FRAMING", "SixelImageHandler::draw", "MIR body of %s not found" % DRAW)
        return
    # the structural clauses are decided on draw with its private single-caller helpers expanded in place: block and local
    # numbers of draw's own code are unchanged, the helpers' blocks are appended
    body, spans = expanded_body(ctx, DRAW)
    a = A()
    a.refs = refs
    a.body = body
    a.plain_body = prog.body(DRAW)
    a.private_spans = spans
    if body is not a.plain_body:
        ctx.note("draw is analysed with %d call(s) of private single-caller helpers expanded in place: %s" % (
            body.j.get("inlined_calls", 0), ", ".join(sorted({blk["inl_from"] for blk in body.blocks if blk.get("inl_from")}))))
    a.tm = Terms(body)
    a.cfg = body.cfg()
    a.sinks = Sinks(body, a.tm)
    a.data_range = (refs["data"]["first"], refs["data"]["last"])
    if a.sinks.problems or a.sinks.buf is None:
        for (what, msg) in a.sinks.problems:
            ctx.anchor("FRAMING", what, "%s (fail closed)" % msg)
        return
    a.loops = find_loops(body, a.tm)
    a.graph = CodeGraph(body, a.sinks.events, "buf")
    a.ok_blocks = ok_return_blocks(body)
    a.err_blocks = err_return_blocks(body)
    a.roles = {}
    framing(ctx, a)
    quant = header(ctx, a)
    a.quant = quant
    palette(ctx, a, quant)
    band(ctx, a, quant)
    rle(ctx, a)
    cache(ctx, a)
    ctx.exhaustive = False
    total(ctx, a)


def whole_slice_of(src):
    """the Vec all of whose bytes the slice expression denotes: v.as_slice(), &*v / deref coercion, &v[..]"""
    if is_call(src, r"^std::vec::Vec::<T, A>::as_slice$|Deref>::deref$") and len(uncell(src)[2]) == 1:
        return uncell(src)[2][0]
    if is_call(src, r"ops::Index(<.*>)?>?::index$") and len(uncell(src)[2]) == 2:
        r = uncell(src)[2][1]
        if r[0] == "agg" and r[1] == "adt" and r[2] == "std::ops::RangeFull":
            return uncell(src)[2][0]
        return None
    return src


def framing(ctx, a):
    body, tm, cfg, ev = a.body, a.tm, a.cfg, a.sinks.events
    buf = a.sinks.buf
    out_events = sorted(bb for bb, e in ev.items() if e.sink == "out" and e.kind != "flush")
    buf_events = sorted(bb for bb, e in ev.items() if e.sink == "buf")
    # ---- F2: what each emission writes -----------------------------------------------------------
    a.emit_buf = []
    a.emit_hit = []
    for bb in out_events:
        e = ev[bb]
        src = e.source
        kind = "other"
        x = whole_slice_of(src) if e.kind == "write_all" else None
        if x is not None:
            if x[0] == "cell" and x[1] == a.sinks.buf:
                kind = "buffer"
                a.emit_buf.append(bb)
            elif x[0] == "field" and x[2] == "0" and x[1][0] == "variant" and x[1][2] == "Some" and is_call(x[1][1], r"^lru::LruCache::<K, V, S>::(get|peek)$"):
                kind = "cached"
                a.emit_hit.append(bb)
                a.hit_lookup = x[1][1]
        ctx.instance("FRAMING", {"emission": tm.show(src)[:160], "kind": kind})
        if kind == "other":
            ctx.violation("FRAMING", DRAW, "out-receives-other-bytes", "`out` receives %s, which is neither the assembled buffer nor the cached bytes" % tm.show(src)[:200], sites=site(a, bb))
    if len(a.emit_buf) != 1:
        ctx.violation("FRAMING", DRAW, "buffer-emissions", "the assembled buffer is written to `out` at %d places, expected exactly one" % len(a.emit_buf), sites=[body.loc])
    # ---- F1: every Ok path emits at most once ----------------------------------------------------
    # walk the CFG with a saturating counter of emissions
    seen = set()
    st = [(0, 0)]
    twice = None
    while st:
        bb, n = st.pop()
        if (bb, n) in seen:
            continue
        seen.add((bb, n))
        n2 = n + (1 if bb in out_events else 0)
        if n2 >= 2:
            # only a violation when an Ok return is still reachable
            if a.ok_blocks & cfg.reachable_from(bb):
                twice = bb
            continue
        for s in body.succs(bb):
            st.append((s, n2))
    ctx.instance("FRAMING", {"out_emissions": out_events, "ok_path_with_two_emissions": twice is not None})
    if twice is not None:
        ctx.violation("FRAMING", DRAW, "two-emissions-on-one-path", "an Ok path of draw writes to `out` twice (second write in bb%d): more than one sequence, or cached bytes followed by a re-encoded image" % twice,
                      sites=site(a, twice))
    if not a.emit_buf:
        return
    emit = a.emit_buf[0]
    # ---- F3: every Ok path that creates the buffer emits it ---------------------------------------
    start = body.succs(a.sinks.buf_def_bb)[0]
    ok, wit = cfg.must_pass([emit], exits=a.ok_blocks, start=start)
    ctx.instance("FRAMING", {"buffer_created_in": a.sinks.buf_def_bb, "emitted_in": emit, "emitted_on_every_ok_path": ok})
    if not ok:
        ctx.violation("FRAMING", DRAW, "buffer-not-emitted", "an Ok path builds the sixel buffer but returns without writing it to `out` (blocks %s)" % wit, sites=site(a, emit))
    # ---- F4: the buffer is final when emitted -----------------------------------------------------
    after = cfg.reachable_from(emit)
    late = [bb for bb in buf_events if bb in after]
    ctx.instance("FRAMING", {"buffer_writes": len(buf_events), "writes_after_emission": late})
    for bb in late:
        ctx.violation("FRAMING", DRAW, "buffer-written-after-emission", "the buffer is written again after it was sent to `out`: what is cached differs from what was emitted", sites=site(a, bb))
    # ---- F5: the buffer language -------------------------------------------------------------------
    g = grammar_whole(a.refs)
    acc = {("B", emit)}
    edges = a.graph.sub(("B", start), acc)
    viol, roles, _ = check_inclusion(edges, ("B", start), acc, g, a.data_range)
    a.roles = roles
    ntok = sum(len(ev[bb].tokens) for bb in buf_events)
    ctx.instance("FRAMING", {"buffer_events": len(buf_events), "tokens": ntok, "grammar_violations": len(viol)})
    for bb in buf_events:
        for tk in ev[bb].tokens:
            if tk[0] == "bad":
                ctx.violation("FRAMING", DRAW, "write-not-understood", "a write to the buffer is not understood (fail closed): %s" % tk[1], sites=site(a, bb))
    report_grammar(ctx, a, viol, g, "FRAMING", "buffer")
    # ---- F6: failure exits between creation and emission are I/O errors of sink writes ------------
    after_creation = cfg.reachable_from(start)
    bad_exit = []
    n_exit = 0
    for bb in sorted(a.err_blocks):
        if bb not in after_creation:
            continue
        # residual origin: `?` on the result of a sink event
        t = body.blocks[bb]["term"]
        okx = t["k"] == "call" and bool(t["args"]) and io_residual(a, tm.op(t["args"][0]))
        n_exit += 1
        if not okx:
            bad_exit.append(bb)
    ctx.instance("FRAMING", {"failure_exits_after_buffer_creation": n_exit, "not_io": bad_exit})
    for bb in bad_exit:
        ctx.violation("FRAMING", DRAW, "non-io-failure-exit", "a failure exit after the creation of the buffer does not stem from `?` on a sink write", sites=site(a, bb))


def io_residual(a, t, seen=frozenset()):
    """the error value t stems from `?` on a sink write: its term contains the result of a sink event, or it is a Result local
    with several definitions (the return value of an expanded helper) all of whose definitions that can hold an error do"""
    subs = subterms(t)
    if any(x[0] == "call" and x[3] in a.sinks.events for x in subs):
        return True
    for x in subs:
        if x[0] != "var" or x[1] in seen:
            continue
        errs = 0
        for d in a.body.defs_of(x[1]):
            r = a.tm.rvalue(d, frozenset())
            if r[0] == "agg" and r[1] == "adt" and r[2].endswith("::Ok"):
                continue
            if not io_residual(a, r, seen | {x[1]}):
                return False
            errs += 1
        if errs:
            return True
    return False


def one_role(ctx, a, rule, role, what):
    """the unique token occurrence that plays `role` in the whole-buffer grammar -> (occ, tok) or None (reported)"""
    occs = a.roles.get(role, {})
    if len(occs) != 1:
        ctx.violation(rule, DRAW, "%s-occurrences" % role, "%s: expected exactly one write in the role of %s, found %d" % (what, role, len(occs)), sites=[a.body.loc])
        return None
    return list(occs.items())[0]


def img_args(body):
    return [l for l in range(1, body.arg_count + 1) if re.match(r"^&('\w+ )?image::Image$", body.local_ty(l))]


def header(ctx, a):
    """-> dict(call=Q, qimg=tree, palette=tree) of the quantize call, or None"""
    body, tm = a.body, a.tm
    bits = a.refs["data"]["bits"]
    qs = [(bb, t) for bb, t in body.calls() if call_matches(t, r"^image::Image::quantize$")]
    if len(qs) != 1:
        ctx.anchor("HEADER", "quantize-call", "draw calls Image::quantize %d times, expected once" % len(qs))
        return None
    qbb, qt = qs[0]
    Q = ("call", callee_name(qt), tuple(tm.op(x) for x in qt["args"]), qbb)
    payload = ("field", ("variant", Q, "Some"), "0")
    quant = {"call": Q, "bb": qbb, "palette": ("field", payload, "0"), "qimg": ("field", payload, "1")}
    imgs = img_args(body)
    img = ("arg", imgs[0]) if len(imgs) == 1 else None
    quant["img"] = img
    if img is None:
        ctx.anchor("HEADER", "image-parameter", "draw does not have exactly one `&Image` parameter")
        return quant
    # (1) position: roles W and H exist exactly once (the grammar puts them directly after the introducer)
    w = one_role(ctx, a, "HEADER", "W", "raster attributes")
    h = one_role(ctx, a, "HEADER", "H", "raster attributes")
    ctx.instance("HEADER", {"raster_attributes": "directly after ESC P q", "W": tm.show(w[1][1])[:120] if w else None, "H": tm.show(h[1][1])[:120] if h else None})
    # (2),(3) sources
    for role, got, fn in (("W", w, "width"), ("H", h, "height")):
        if got is None:
            ctx.instance("HEADER", {"role": role, "source": None})
            continue
        occ, tk = got
        want = ("call", "surface::Surface::" + fn, (quant["qimg"],))
        okv = match(tk[1], want)
        ctx.instance("HEADER", {"role": role, "source": tm.show(tk[1])[:160], "ok": okv})
        if not okv:
            ctx.violation("HEADER", DRAW, "%s-source" % role, "raster attribute %s (P%s) is %s, expected %s of the quantised image" % (
                role, "h" if role == "W" else "v", tm.show(tk[1])[:200], fn), sites=site(a, occ[0]))
    # (4) quantize input: view of the image parameter, rows ..HT, all columns, mapped
    src = Q[2][0] if Q[2] else ("?", "none")
    view = None
    if is_call(src, r"^surface::Surface::map$") and len(src[2]) == 2 and is_call(src[2][0], r"^surface::Surface::view$"):
        view = src[2][0]
    elif is_call(src, r"^surface::Surface::view$"):
        view = src
    HT = None
    okview = False
    if view is not None and len(view[2]) == 3 and view[2][0] == img:
        rows, cols = view[2][1], view[2][2]
        if rows[0] == "agg" and rows[2] == "std::ops::RangeTo" and len(rows[3]) == 1:
            HT = rows[3][0]
        elif range_iter(rows) and range_iter(rows)[0] == ("int", 0):
            HT = range_iter(rows)[1]
        okview = HT is not None and cols[0] == "agg" and cols[2] == "std::ops::RangeFull"
    quant["full_columns"] = okview
    ctx.instance("HEADER", {"quantize_input": tm.show(src)[:200], "view_rows_to_HT_all_columns": okview})
    if not okview:
        ctx.violation("HEADER", DRAW, "quantize-input", "the quantised image is not `img.view(..height, ..)` (mapped): %s" % tm.show(src)[:200], sites=site(a, qbb))
    # (5) HT = (img.height() / 6) * 6   (or img.height() - img.height() % 6)
    hi = ("call", "surface::Surface::height", (img,))
    okh = False
    if HT is not None:
        six = ("int", bits)
        cands = [("bin", "Mul", ("bin", "Div", hi, six, False), six, False), ("bin", "Mul", six, ("bin", "Div", hi, six, False), False),
                 ("bin", "Sub", hi, ("bin", "Rem", hi, six, False), False)]
        okh = any(match(HT, c) for c in cands)
    ctx.instance("HEADER", {"height": tm.show(HT)[:120] if HT is not None else None, "multiple_of_band_height": okh, "band_height": bits})
    if HT is not None and not okh:
        ctx.violation("HEADER", DRAW, "height-not-multiple-of-6", "the view height is %s, not (img.height() / %d) * %d: the declared raster height need not be a whole number of %d-row bands" % (
            tm.show(HT)[:160], bits, bits, bits), sites=site(a, qbb))
    return quant


def grammar_register(refs):
    """one iteration of the palette loop: # reg ; 2 ; r ; g ; b  exactly once"""
    ct = refs["controls"]
    sep = L(refs["separator"]["byte"])
    g = NFA("register-definition")
    g.state("register-start", "PALETTE")
    g.state("register-end", "PALETTE")
    g.start = "register-start"
    g.accept = {"register-end"}
    g.seq("PALETTE", "register-start", [L(ct["color"]["byte"]), NUM, sep, L(str(ct["color"]["rgb_system"])), sep, NUM, sep, NUM, sep, NUM], "register-end", "register")
    return g


def iteration_language(ctx, a, lp, g, rule, what):
    """language of one iteration of loop lp (Some branch -> back at the head) is included in g"""
    acc = {("B", lp.head)}
    edges = a.graph.sub(("B", lp.some), acc)
    viol, roles, _ = check_inclusion(edges, ("B", lp.some), acc, g, a.data_range)
    report_grammar(ctx, a, viol, g, rule, what)
    return viol, roles


def channel_ty(a, x):
    """element type of the to_rgb() array a channel is read from ("u8" expected: only then is `f32::from` the same as `as f32`)"""
    c = uncell(x[1])
    bb = c[3]
    if isinstance(bb, int) and a.body.blocks[bb]["term"]["k"] == "call":
        m = re.fullmatch(r"\[(\w+); \d+\]", a.body.local_ty(a.body.blocks[bb]["term"]["dest"]["l"]))
        return m.group(1) if m else "?"
    return "?"


def palette(ctx, a, quant):
    body, tm = a.body, a.tm
    col = a.refs["controls"]["color"]
    sc = a.refs["channel_scale"]
    if quant is None:
        return
    Q = quant["call"]
    # (1) palette size
    size = Q[2][1] if len(Q[2]) > 1 else ("?", "none")
    oksz = size[0] == "int" and 1 <= size[1] <= col["registers"]
    ctx.instance("PALETTE", {"quantize_palette_size": tm.show(size), "max_registers": col["registers"], "ok": oksz})
    if not oksz:
        ctx.violation("PALETTE", DRAW, "palette-size", "Image::quantize is called with palette size %s; sixel colour numbers are 0..%d, so at most %d registers can be defined (%s)" % (
            tm.show(size), col["registers"] - 1, col["registers"], "constant required" if size[0] != "int" else "too large"), sites=site(a, quant["bb"]))
    # (2) register index
    reg = one_role(ctx, a, "PALETTE", "reg", "register definition")
    want_iter = ("call", "std::iter::Iterator::enumerate", (("call", "core::slice::<impl [T]>::iter", (("call", "image::ColorPalette::colors", (quant["palette"],)),)),))
    pal_loop_bb = None
    okr = False
    if reg is not None:
        it = item_of(reg[1][1])
        okr = it is not None and it[2] == ["0"] and match(it[1], want_iter)
        if it is not None:
            pal_loop_bb = it[0]
        ctx.instance("PALETTE", {"register_index": tm.show(reg[1][1])[:200], "is_enumerate_index_over_palette_colors": okr})
        if not okr:
            ctx.violation("PALETTE", DRAW, "register-index", "the register number written is %s, not the enumerate index over palette.colors(): colour numbers selected later may be undefined or defined with another colour" % (
                tm.show(reg[1][1])[:200]), sites=site(a, reg[0][0]))
    else:
        ctx.instance("PALETTE", {"register_index": None})
    # (3..5) channels
    for k, role in enumerate(("r", "g", "b")):
        got = one_role(ctx, a, "PALETTE", role, "register definition")
        if got is None:
            ctx.instance("PALETTE", {"channel": role, "source": None})
            continue
        occ, tk = got
        # the scaled value, seen through `to_rgb().map(f)[k]` / `helper(channel)` (closure or function item, one path)
        t = pointwise(ctx.prog, tk[1])
        shape = None
        chan = None
        div = None
        item = None
        if t[0] == "cast" and t[1] == "FloatToInt" and t[2] == "u8" and is_call(t[3], r"^std::f32::<impl f32>::round$|^std::f64::<impl f64>::round$"):
            d = t[3][2][0]
            if d[0] == "bin" and d[1] == "Div" and d[3][0] == "float":
                # `c as f32` or the lossless `f32::from(c)` (From::from is transparent in term trees)
                x = d[2][3] if (d[2][0] == "cast" and d[2][1] == "IntToFloat") else d[2]
                div = d[3][1]
                if x[0] == "idxv" and x[2][0] == "int":
                    x = ("idx", x[1], x[2][1])            # `rgb[0]` with a constant index is the pattern element `[r, ..]`
                if x[0] == "idx" and is_call(x[1], r"^rasterize::Color::to_rgb$") and len(uncell(x[1])[2]) == 1 and re.fullmatch(r"\[u8; \d+\]|u8", channel_ty(a, x)):
                    chan = x[2]
                    item = item_of(uncell(x[1])[2][0])
                    shape = "round(channel/d)"
        okscale = shape is not None and abs(div - sc["divisor"]) <= sc["tolerance"] and round(sc["channel_max"] / div) <= col["component_max"]
        okchan = chan == k
        okitem = item is not None and pal_loop_bb is not None and item[0] == pal_loop_bb and item[2] == ["1"]
        ctx.instance("PALETTE", {"channel": role, "source": tm.show(t)[:200], "to_rgb_index": chan, "divisor": div, "ok": bool(okscale and okchan and okitem)})
        if shape is None or not okscale:
            ctx.violation("PALETTE", DRAW, "%s-scale" % role, "component %s is %s, not round(channel / %s) as u8: the value must lie in 0..=%d (%s)" % (
                role, tm.show(t)[:200], sc["divisor"], col["component_max"], col["cite"][:120]), sites=site(a, occ[0]))
        elif not okchan:
            ctx.violation("PALETTE", DRAW, "%s-channel-order" % role, "component %s (position %d of Px;Py;Pz) is computed from to_rgb()[%s]; the order must be red, green, blue" % (role, k + 1, chan), sites=site(a, occ[0]))
        elif not okitem:
            ctx.violation("PALETTE", DRAW, "%s-colour-source" % role, "component %s is not computed from the colour enumerated together with the register index" % role, sites=site(a, occ[0]))
    # (6) exactly one definition per palette entry
    lp = [l for l in a.loops if l.head == pal_loop_bb]
    if len(lp) != 1:
        ctx.instance("PALETTE", {"palette_loop": None})
        if reg is not None and okr:
            ctx.anchor("PALETTE", "palette-loop", "the loop over palette.colors() is not understood")
        return
    viol, _ = iteration_language(ctx, a, lp[0], grammar_register(a.refs), "PALETTE", "palette-iteration")
    ctx.instance("PALETTE", {"palette_loop": tm.show(lp[0].iter)[:120], "one_definition_per_entry": not viol})


def refmut_consumers(a, l):
    """for every `&mut l` temporary: the call that consumes it (through unsize casts / moves) as (bb, term, arg index) or None"""
    body = a.body
    out = []
    for (bb, si, kind, info) in local_uses(body, l):
        if kind != "refmut":
            continue
        r = info["place"]["l"]
        hops = 0
        cons = None
        while hops < 6:
            hops += 1
            us = [u for u in local_uses(body, r) if u[2] not in ("def", "calldest")]
            if len(us) != 1:
                break
            u = us[0]
            if u[2] == "arg" and not u[3][2]:
                cons = (u[0], u[3][1], u[3][0])
                break
            if u[2] == "use" and u[3]["rv"]["k"] in ("use", "cast") and not u[3]["place"]["p"]:
                r = u[3]["place"]["l"]
                continue
            if u[2] == "ref" and not u[3]["place"]["p"]:      # reborrow `&mut *r`
                r = u[3]["place"]["l"]
                continue
            break
        out.append((bb, cons))
    return out


def deref_stores(a):
    """assignments through a pointer local: (bb, stmt, tree of the pointer, tree of the value)"""
    out = []
    for bb, si, st in a.body.assigns():
        pl = st["place"]
        if pl["p"] and pl["p"][0]["k"] == "deref":
            val = a.tm.op(st["rv"]["a"]) if st["rv"]["k"] == "use" else ("?", st["rv"]["k"])
            out.append((bb, st, a.tm.local(pl["l"]), val, len(pl["p"])))
    return out


def dominating_true_edge(a, bb, pred):
    """is block bb dominated by an edge X->Y of a switch whose discriminant satisfies pred(tree) -> 'true'|'false'|None (the
    truth value Y stands for).  Returns list of (X, truth) for all such edges."""
    out = []
    body, cfg = a.body, a.cfg
    for x, blk in enumerate(body.blocks):
        t = blk["term"]
        if blk["cleanup"] or t["k"] != "switch" or x not in cfg.reach:
            continue
        d = a.tm.op(t["d"])
        if not pred(d):
            continue
        edges = [(tg, v != "0") for v, tg in zip(t["vals"], t["targets"])]
        edges.append((t["otherwise"], t["vals"] == ["0"]))
        for (y, truth) in edges:
            if y != bb and not cfg.dominates(y, bb):
                continue
            if cfg.edge_dominates(x, y, bb):
                out.append((x, truth))
    return out


FOLD_RX = r"(^|::)Iterator(<.*>)?>?::fold$|^std::iter::Iterator::fold$|Iterator for .*>::fold$|as std::iter::Iterator>::fold$"
SYM_I = ("sym", "slot index")          # index of the current element of the sample array in an iterator chain
SYM_ACC = ("sym", "accumulator")


def strip_int_casts(t):
    while t[0] == "cast" and t[1] == "IntToInt":
        t = t[3]
    return t


def sample_chain(prog, a, t, S, bits):
    """iterator expression over the sample array S -> dict(item: term of the element handed on (SYM_I = its slot index),
    guards: [truth of a filter predicate, ..], n: number of slots) or None when an adaptor is not understood.
    Understood: S.iter() [.copied()/.cloned()] | 0..bits, then .enumerate() (only directly, so that the counter is the slot
    index), .filter(p), .map(f) with a branch-free f."""
    t = strip_into_iter(t)
    if is_call(t, r"^core::slice::<impl \[T\]>::iter$") and len(uncell(t)[2]) == 1:
        arr = uncell(t)[2][0]
        if arr[0] == "cell" and arr[1] == S and arr[2][0] == "repeat":
            return {"item": ("idxv", arr, SYM_I), "guards": [], "n": arr[2][2], "counted": False, "closures": []}
        return None
    r = range_iter(t)
    if r is not None:
        if r == (("int", 0), ("int", bits)):
            return {"item": SYM_I, "guards": [], "n": bits, "counted": False, "closures": []}
        return None
    if t[0] != "call" or not t[2]:
        return None
    name = t[1]
    if re.search(r"Iterator(<.*>)?>?::(copied|cloned)$", name) and len(t[2]) == 1:
        return sample_chain(prog, a, t[2][0], S, bits)
    if re.search(r"Iterator(<.*>)?>?::enumerate$", name) and len(t[2]) == 1:
        inner = sample_chain(prog, a, t[2][0], S, bits)
        if inner is None or inner["guards"] or inner["counted"]:
            return None
        return dict(inner, item=("agg", "tuple", "tuple", (SYM_I, inner["item"])), counted=True)
    if re.search(r"Iterator(<.*>)?>?::filter$", name) and len(t[2]) == 2:
        inner = sample_chain(prog, a, t[2][0], S, bits)
        if inner is None:
            return None
        truth = closure_truth(prog, t[2][1], [inner["item"]])
        if truth is None:
            return None
        cb = closure_of(prog, t[2][1])
        return dict(inner, guards=inner["guards"] + [truth], closures=inner["closures"] + [(cb.path, ClosureTerms(cb, uncell(t[2][1]), [inner["item"]]))])
    if re.search(r"Iterator(<.*>)?>?::map$", name) and len(t[2]) == 2:
        inner = sample_chain(prog, a, t[2][0], S, bits)
        if inner is None:
            return None
        paths = closure_paths(prog, t[2][1], [inner["item"]])
        if paths is None or len(paths) != 1 or paths[0][0]:
            return None
        return dict(inner, item=paths[0][1], closures=inner["closures"] + [(closure_of(prog, t[2][1]).path, paths[0][2])])
    return None


def fold_bits(prog, a, fold, key, S, bits):
    """`<chain over the sample array>.fold(0, |code, item| code | (1 << i))` with exactly the slots whose sample equals `key`
    passing the chain -> (ok, detail, {closure: path of the fold closure, n: slots})"""
    chain, init, g = fold[2]
    info = {"closure": None, "n": None, "chain_closures": []}
    ch = sample_chain(prog, a, chain, S, bits)
    if ch is None:
        return False, "the iterator chain %s is not understood" % a.tm.show(chain)[:160], info
    info["n"] = ch["n"]
    info["chain_closures"] = ch["closures"]
    if init != ("int", 0):
        return False, "the fold starts from %s, not 0" % a.tm.show(init), info
    paths = closure_paths(prog, g, [SYM_ACC, ch["item"]])
    cb = closure_of(prog, g)
    if paths is None or len(paths) != 1 or paths[0][0]:
        return False, "the fold closure is not a single expression", info
    info["closure"] = cb.path
    info["terms"] = paths[0][2]
    v = paths[0][1]
    sh = None
    if v[0] == "bin" and v[1] == "BitOr":
        x, y = v[2], v[3]
        if y == SYM_ACC:
            x, y = y, x
        if x == SYM_ACC and y[0] == "bin" and y[1] == "Shl" and y[2] == ("int", 1):
            sh = strip_int_casts(y[3])
    if sh != SYM_I:
        return False, "the fold closure returns %s, not accumulator | (1 << slot index)" % paths[0][2].show(v)[:160], info
    # exactly the slots holding the colour pass: one filter whose predicate is `sample == colour`
    sample = lambda u: u[0] == "idxv" and u[1][0] == "cell" and u[1][1] == S and u[2] == SYM_I
    if len(ch["guards"]) != 1 or len(ch["guards"][0]) != 1 or len(ch["guards"][0][0]) != 1:
        return False, "the chain does not filter the slots by exactly one test `sample == colour`", info
    d, pol = ch["guards"][0][0][0]
    e = equality_test(d)
    if e is None or e[0] != pol or not ((sample(e[1]) and e[2] == key) or (sample(e[2]) and e[1] == key)):
        return False, "the filter keeps the slots with %s%s, not those whose sample equals the colour" % ("" if pol else "not ", a.tm.show(d)[:160]), info
    if ch["n"] != bits:
        return False, "the chain runs over %s slots, a sixel has %d" % (ch["n"], bits), info
    return True, None, info


def band(ctx, a, quant):
    body, tm, cfg = a.body, a.tm, a.cfg
    if quant is None or quant.get("img") is None:
        return
    dt = a.refs["data"]
    bits = dt["bits"]
    qimg, img = quant["qimg"], quant["img"]
    # ---- (1) band loop ---------------------------------------------------------------------------
    want_band = ("call", "std::iter::Iterator::step_by", (("agg", "adt", "std::ops::Range", (("int", 0), ("call", "surface::Surface::height", (qimg,)))), ("int", bits)))
    bl = [l for l in a.loops if match(l.iter, want_band)]
    ctx.instance("BAND", {"band_loop": tm.show(bl[0].iter)[:160] if bl else None, "step": bits})
    if len(bl) != 1:
        ctx.violation("BAND", DRAW, "band-loop", "no unique loop over (0..qimg.height()).step_by(%d) (found %d; step_by loops: %s)" % (
            bits, len(bl), [tm.show(l.iter)[:120] for l in a.loops if is_call(l.iter, r"step_by$")]), sites=[body.loc])
        return
    LB = bl[0]
    a.LB = LB
    # ---- (2) column loop -------------------------------------------------------------------------
    wants = [("agg", "adt", "std::ops::Range", (("int", 0), ("call", "surface::Surface::width", (qimg,))))]
    if quant.get("full_columns"):
        wants.append(("agg", "adt", "std::ops::Range", (("int", 0), ("call", "surface::Surface::width", (img,)))))
    cl = [l for l in a.loops if any(match(l.iter, w) for w in wants) and in_loop(cfg, LB, l.head)]
    ctx.instance("BAND", {"column_loop": tm.show(cl[0].iter)[:120] if cl else None, "inside_band_loop": bool(cl)})
    if len(cl) != 1:
        ctx.violation("BAND", DRAW, "column-loop", "no unique loop over 0..width inside the band loop (found %d)" % len(cl), sites=site(a, LB.head))
        return
    LC = cl[0]
    a.LC = LC
    row_item = lambda t: (lambda it: it is not None and it[0] == LB.head and it[2] == [])(item_of(t))
    col_item = lambda t: (lambda it: it is not None and it[0] == LC.head and it[2] == [])(item_of(t))
    # ---- (3) samples -----------------------------------------------------------------------------
    def get_position(val):
        """val == *qimg.get(Position::new(r, c)).Some.0 -> (r, c) else None"""
        g = val
        if g[0] == "field" and g[2] == "0" and g[1][0] == "variant" and g[1][2] == "Some" and is_call(g[1][1], r"^surface::Surface::get$"):
            gc = uncell(g[1][1])
            if gc[2][0] == qimg and is_call(gc[2][1], r"^terminal::Position::new$") and len(uncell(gc[2][1])[2]) == 2:
                return uncell(gc[2][1])[2]
            pos_ = uncell(gc[2][1])
            if gc[2][0] == qimg and pos_[0] == "agg" and pos_[1] == "adt" and pos_[2] == "terminal::Position" and len(pos_[3]) == 2:
                return pos_[3]              # `Position { row, col }` (fields in declaration order) is `Position::new(row, col)`
        return None

    stores = []          # (bb, array local, slot, value): slot = ('enum', next bb) | ('range', next bb)
    for (bb, st, ptr, val, nproj) in deref_stores(a):
        it = item_of(ptr)
        if it is None or nproj != 1:
            continue
        src = it[1]
        if is_call(src, r"^std::iter::Iterator::enumerate$") and is_call(uncell(src)[2][0], r"^core::slice::<impl \[T\]>::iter_mut$"):
            arr = uncell(uncell(src)[2][0])[2][0]
            if arr[0] == "cell" and it[2] == ["1"]:
                stores.append((bb, arr[1], ("enum", it[0]), val))
    for bb, si, st in body.assigns():
        pl = st["place"]
        if len(pl["p"]) == 1 and pl["p"][0]["k"] == "index" and re.match(r"^\[\w+; \d+\]$", body.local_ty(pl["l"])) and st["rv"]["k"] == "use":
            val = tm.op(st["rv"]["a"])
            if get_position(val) is None:
                continue
            it = item_of(tm.local(pl["p"][0]["l"]))
            r = range_iter(it[1]) if it is not None and it[2] == [] else None
            slot = ("range", it[0]) if r is not None and r == (("int", 0), ("int", bits)) else ("?", None)
            stores.append((bb, pl["l"], slot, val))
    arrs = {x[1] for x in stores}
    if len(arrs) != 1:
        ctx.instance("BAND", {"sample_array": None})
        ctx.violation("BAND", DRAW, "sample-array", "no unique fixed-size sample array filled from qimg.get(..) slot by slot (found %d)" % len(arrs), sites=site(a, LC.head))
        return
    S = arrs.pop()
    arr = tm.local(S)
    if not (arr[0] == "cell" and arr[2][0] == "repeat"):
        ctx.instance("BAND", {"sample_array": tm.show(arr)})
        ctx.violation("BAND", DRAW, "sample-array", "the sample array is not initialised as `[c; N]`: %s" % tm.show(arr)[:120], sites=site(a, LC.head))
        return
    n = arr[2][2]
    okarr = n == bits and arr[2][1][0] == "int" and in_loop(cfg, LC, body.defs_of(S)[0][0])
    ctx.instance("BAND", {"sample_array": tm.show(arr), "length": n, "initialised_per_column": okarr})
    if not okarr:
        ctx.violation("BAND", DRAW, "sample-array-length", "the sample array is %s; a sixel column has %d rows and must be re-initialised for every column" % (tm.show(arr), bits), sites=site(a, LC.head))
    okstore = len(stores) == 1
    msg = None
    for (bb, _, slot, val) in stores:
        # value = *qimg.get(Position::new(row + i, col)).Some.0 with i the index of the slot written
        pos = get_position(val)
        good = False
        if slot[0] in ("enum", "range") and pos is not None and pos[0][0] == "bin" and pos[0][1] == "Add":
            x, y = pos[0][2], pos[0][3]
            if row_item(y):
                x, y = y, x
            iy = item_of(y)
            good = row_item(x) and iy is not None and iy[0] == slot[1] and iy[2] == (["0"] if slot[0] == "enum" else []) and col_item(pos[1])
        if not good:
            okstore = False
            msg = "sample slot written with %s" % tm.show(val)[:200]
    # no other mutable access to the array
    for (bb, cons) in refmut_consumers(a, S):
        if cons is None or not call_matches(cons[1], r"^core::slice::<impl \[T\]>::iter_mut$"):
            okstore = False
            msg = "the sample array is mutably borrowed by %s" % (callee_name(cons[1]) if cons else "an unknown consumer")
    if len([1 for (_, _, k, _) in local_uses(body, S) if k == "store"]) != len([1 for x in stores if x[2][0] != "enum"]):
        okstore = False
        msg = "the sample array is also written by other indexed stores"
    ctx.instance("BAND", {"sample_i_is_row_plus_i_of_column": okstore, "stores": len(stores)})
    if not okstore:
        ctx.violation("BAND", DRAW, "sample-source", "sample i of a column must be qimg[row + i][col] with i the slot index over all %d slots (%s)" % (bits, msg or "%d stores" % len(stores)), sites=site(a, stores[0][0]))
    # ---- (5) the push into the per-colour run lists ------------------------------------------------
    pushes = []
    for bb, t in body.calls():
        if call_matches(t, r"^std::vec::Vec::<T, A>::push$") and len(t["args"]) == 2:
            tgt = tm.op(t["args"][0])
            if is_call(tgt, r"hash_map::Entry::<'a, K, V>::(or_default|or_insert|or_insert_with)$") and is_call(uncell(tgt)[2][0], r"^std::collections::HashMap::<K, V, S, A>::entry$"):
                e = uncell(uncell(tgt)[2][0])
                if e[2][0][0] == "cell":
                    pushes.append((bb, t, e[2][0][1], e[2][1], tm.op(t["args"][1])))
    # A push that is the exact shortcut for a single-colour column is the general push under another spelling: when all `bits`
    # samples equal sample k, the set of the column's colours is {sample k} and every slot holds it, so the general path pushes
    # exactly once, (column, 0b111111 + offset) under key sample k.  Such a site is accepted next to the one general site when it
    # does precisely that, only then, after the samples were filled, and instead of (never in addition to) the general push.
    full_code = (1 << bits) - 1 + dt["offset"]
    fills = [l for l in a.loops if l.head in {x[2][1] for x in stores}]

    def uniform_shortcut(p, general):
        fb, ft, fmap, fkey, fval = p
        if not (fkey[0] == "idxv" and fkey[1] == arr and fkey[2][0] == "int" and 0 <= fkey[2][1] < bits):
            return "its key is not a sample of the column"
        if not (fval[0] == "agg" and fval[1] == "tuple" and len(fval[3]) == 2 and col_item(fval[3][0]) and const_int(fval[3][1]) == full_code):
            return "it does not push (column, %d)" % full_code
        if not okstore or not okarr or len(fills) != len(stores):
            return "the sample fill is not understood"

        def uniform(d):
            """discriminant -> True/False: the truth value of d that means `all samples are equal`, None: another test"""
            d, flip = uncell(d), False
            while d[0] == "un" and d[1] == "Not":
                d, flip = uncell(d[2]), not flip
            if not (d[0] == "call" and len(d[2]) == 2 and re.search(r"Iterator(<.*>)?>?::(all|any)$", d[1])):
                return None
            is_all = d[1].endswith("::all")
            ch = sample_chain(ctx.prog, a, d[2][0], S, bits)
            if ch is None or ch["guards"] or ch["n"] != bits:
                return None
            truth = closure_truth(ctx.prog, d[2][1], [ch["item"]])
            if truth is None or len(truth) != 1 or len(truth[0]) != 1:
                return None
            lit, pol = truth[0][0]
            e = equality_test(lit)
            if e is None:
                return None
            sample = lambda u: u[0] == "idxv" and u[1] == arr and u[2] == SYM_I
            fixed = lambda u: u[0] == "idxv" and u[1] == arr and u[2][0] == "int" and 0 <= u[2][1] < bits
            if not ((sample(e[1]) and fixed(e[2])) or (sample(e[2]) and fixed(e[1]))):
                return None
            cb_ = closure_of(ctx.prog, d[2][1])
            seen_closures[id(d)] = ch["closures"] + [(cb_.path, ClosureTerms(cb_, uncell(d[2][1]), [ch["item"]]))]
            means_eq = e[0] == pol          # the closure is true for a slot exactly when its sample equals the fixed one
            if is_all and means_eq:         # all(s == k)
                return not flip
            if not is_all and not means_eq:     # !any(s != k)
                return flip
            return None
        seen_closures = {}
        doms = [(x, truth) for (x, truth) in dominating_true_edge(a, fb, lambda d: uniform(d) is not None) if truth == uniform(tm.op(body.blocks[x]["term"]["d"]))]
        if not doms:
            return "it is not guarded by `all samples of the column are equal`"
        for cl_ in seen_closures.values():
            a.SHORTCUT["chain_closures"] += [c_ for c_ in cl_ if c_[0] not in [y[0] for y in a.SHORTCUT["chain_closures"]]]
        x = doms[0][0]
        if not (in_loop(cfg, LC, fb) and in_loop(cfg, LC, x)) or any(in_loop(cfg, l, fb) for l in a.loops if l is not LC and in_loop(cfg, LC, l.head)):
            return "it is not executed once per column"
        if not all(cfg.dominates(l.none, x) and in_loop(cfg, LC, l.head) for l in fills) or any(sb in cfg.reachable_from(x, removed={LC.head}) for (sb, _, _, _) in stores):
            return "the test does not come after the samples of the column were filled"
        nxt = body.succs(fb)[0]
        gb = general[0]
        if fb in cfg.reachable_from(nxt, removed={LC.head}) or gb in cfg.reachable_from(nxt, removed={LC.head}) or fb in cfg.reachable_from(body.succs(gb)[0], removed={LC.head}):
            return "the general push can follow or precede it in the same column"
        if fmap != general[2]:
            return "it pushes into another map"
        return None

    shortcuts = []
    a.SHORTCUT = {"chain_closures": [], "n": bits}      # closures of the understood chains over the sample slots (for TOTAL's lemmas)
    if len(pushes) > 1:
        gen = [p for p in pushes if not (p[3][0] == "idxv")]
        if len(gen) == 1:
            for p in pushes:
                if p is gen[0]:
                    continue
                why_not = uniform_shortcut(p, gen[0])
                ctx.instance("BAND", {"single_colour_column_shortcut": tm.show(p[4])[:120], "key": tm.show(p[3])[:80], "equivalent_to_general_push": why_not is None, "why_not": why_not})
                if why_not is None:
                    shortcuts.append(p)
            pushes = [p for p in pushes if p not in shortcuts]
    if len(pushes) != 1:
        ctx.instance("BAND", {"run_list_push": None})
        ctx.violation("BAND", DRAW, "run-list-push", "expected exactly one `map.entry(colour).or_default().push((column, code))` (besides exact single-colour-column shortcuts), found %d" % len(pushes), sites=site(a, LC.head))
        return
    pbb, pt, MAP, key, val = pushes[0]
    a.MAP, a.push_bb = MAP, pbb
    push_blocks = {pbb} | {p[0] for p in shortcuts}
    CODE = None      # loop form: the local the bits are OR-ed into
    FOLD = None      # iterator form: the `<chain>.fold(0, |code, ..| code | 1 << i)` call
    okpush = False
    if val[0] == "agg" and val[1] == "tuple" and len(val[3]) == 2:
        c0, c1 = val[3]
        if c1[0] == "bin" and c1[1] == "Add":
            x, y = c1[2], c1[3]
            if x[0] == "int":
                x, y = y, x
            if x[0] == "var" and y == ("int", dt["offset"]):
                CODE = x[1]
            elif is_call(x, FOLD_RX) and len(uncell(x)[2]) == 3 and y == ("int", dt["offset"]):
                FOLD = uncell(x)
        okpush = (CODE is not None or FOLD is not None) and col_item(c0)
    ctx.instance("BAND", {"pushed": tm.show(val)[:160], "is_column_and_code_plus_63": okpush})
    if not okpush:
        ctx.violation("BAND", DRAW, "code-offset", "the run lists receive %s, expected (column, sixel_code + %d): sixel data characters are the pixel bits plus %d ('?')" % (
            tm.show(val)[:200], dt["offset"], dt["offset"]), sites=site(a, pbb))
    # ---- (6) colours of a column: the entry key iterates a set filled from the samples -----------------
    kit = item_of(key)
    UNIQ = None
    LU = None
    if kit is not None and kit[2] == [] and is_call(kit[1], r"^std::collections::HashSet::<T, S, A>::iter$") and uncell(kit[1])[2][0][0] == "cell":
        UNIQ = uncell(kit[1])[2][0][1]
        lu = [l for l in a.loops if l.head == kit[0]]
        LU = lu[0] if lu else None
    okuniq = UNIQ is not None and LU is not None and in_loop(cfg, LC, LU.head) and in_loop(cfg, LU, pbb)
    why = None
    if UNIQ is not None:
        for (bb, cons) in refmut_consumers(a, UNIQ):
            if cons is None:
                okuniq, why = False, "unknown mutation of the colour set"
            elif call_matches(cons[1], r"^std::collections::HashSet::<T, S, A>::clear$"):
                continue
            elif call_matches(cons[1], r"Extend<T>>::extend$|^std::iter::Extend::extend$") and len(cons[1]["args"]) == 2:
                srcx = uncell(tm.op(cons[1]["args"][1]))
                if not (is_call(srcx, r"^std::iter::Iterator::(copied|cloned)$") and is_call(srcx[2][0], r"^core::slice::<impl \[T\]>::iter$")
                        and uncell(srcx[2][0])[2][0][0] == "cell" and uncell(srcx[2][0])[2][0][1] == S):
                    okuniq, why = False, "the colour set is extended from %s" % tm.show(srcx)[:120]
            elif call_matches(cons[1], r"^std::collections::HashSet::<T, S, A>::insert$") and len(cons[1]["args"]) == 2:
                # `for c in sixel.iter() { set.insert(*c); }`: the loop form of `set.extend(sixel.iter().copied())`
                iv = item_of(tm.op(cons[1]["args"][1]))
                srcx = uncell(iv[1]) if iv is not None else None
                while srcx is not None and is_call(srcx, r"^std::iter::Iterator::(copied|cloned)$"):
                    srcx = uncell(srcx[2][0])
                lps = [l for l in a.loops if iv is not None and l.head == iv[0]]
                if not (iv is not None and iv[2] == [] and is_call(srcx, r"^core::slice::<impl \[T\]>::iter$") and uncell(srcx)[2][0][0] == "cell" and uncell(srcx)[2][0][1] == S
                        and len(lps) == 1 and in_loop(cfg, LC, lps[0].head) and in_loop(cfg, lps[0], cons[0])
                        and cfg.must_pass([cons[0]], exits=[lps[0].head], start=lps[0].some)[0]):
                    okuniq, why = False, "insert() into the colour set is not an insertion of every sample of the column"
            else:
                okuniq, why = False, "the colour set is mutated by %s" % callee_name(cons[1])
    ctx.instance("BAND", {"entry_key": tm.show(key)[:160], "iterates_set_of_the_column_samples": okuniq})
    if not okuniq:
        ctx.violation("BAND", DRAW, "colour-key", "the run list is selected by %s, which is not an element of the set of this column's samples (%s): a colour could be pushed twice per column or under a wrong index" % (
            tm.show(key)[:160], why or "loop nesting"), sites=site(a, pbb))
    # ---- (4) bit provenance ----------------------------------------------------------------------
    a.CODE = CODE
    a.FOLD = None
    if CODE is not None and LU is not None:
        defs = body.defs_of(CODE)
        zero = [d for d in defs if d[1] != "term" and d[2]["k"] == "use" and tm.op(d[2]["a"]) == ("int", 0)]
        ors = [d for d in defs if d not in zero]
        okbits = len(zero) == 1 and len(ors) == 1
        L2 = None
        detail = "definitions: %s" % [tm.show(tm.rvalue(d, frozenset())) if d[1] != "term" else "call" for d in defs]
        if okbits:
            d = ors[0]
            rv = tm.rvalue(d, frozenset()) if d[1] != "term" else ("?", "call")
            sh = None
            if rv[0] == "bin" and rv[1] == "BitOr":
                x, y = rv[2], rv[3]
                if y == ("var", CODE):
                    x, y = y, x
                if x == ("var", CODE) and y[0] == "bin" and y[1] == "Shl" and y[2] == ("int", 1):
                    sh = y[3]
                    while sh[0] == "cast" and sh[1] == "IntToInt":
                        sh = sh[3]
            iti = item_of(sh) if sh is not None else None
            okbits = False
            form = None
            if iti is not None and iti[2] == ["0"] and is_call(iti[1], r"^std::iter::Iterator::enumerate$"):
                inner = uncell(iti[1])[2][0]
                if is_call(inner, r"^core::slice::<impl \[T\]>::iter$") and uncell(inner)[2][0][0] == "cell" and uncell(inner)[2][0][1] == S:
                    l2 = [l for l in a.loops if l.head == iti[0]]
                    L2 = l2[0] if l2 else None
                    form = "enum"
            elif iti is not None and iti[2] == [] and range_iter(iti[1]) == (("int", 0), ("int", bits)):
                l2 = [l for l in a.loops if l.head == iti[0]]
                L2 = l2[0] if l2 else None
                form = "range"
            if L2 is not None:
                # the OR is executed exactly when sample == colour
                def is_eq(dd):
                    e = equality_test(dd)
                    if e is None:
                        return False
                    p, q = e[1], e[2]
                    for (u, v) in ((p, q), (q, p)):
                        if v != key:
                            continue
                        iu = item_of(u)
                        if form == "enum" and iu is not None and iu[0] == L2.head and iu[2] == ["1"]:
                            return True
                        if form == "range" and u[0] == "idxv" and u[1][0] == "cell" and u[1][1] == S and u[2] == sh:
                            return True
                    return False
                # an edge stands for `sample == colour` when it is the true edge of `==` or the false edge of `!=`
                doms = [(x, True) for (x, truth) in dominating_true_edge(a, d[0], is_eq) if truth == equality_test(tm.op(body.blocks[x]["term"]["d"]))[0]]
                ok_guard = bool(doms)
                # conversely: from the true edge the OR is always reached before the next sample
                okbits = ok_guard and in_loop(cfg, L2, d[0])
                if okbits:
                    for (x, _) in doms:
                        tt = body.blocks[x]["term"]
                        means_eq = equality_test(tm.op(tt["d"]))[0]
                        ys = [tg for v, tg in zip(tt["vals"], tt["targets"]) if (v != "0") == means_eq] + ([tt["otherwise"]] if (tt["vals"] == ["0"]) == means_eq else [])
                        for y in ys:
                            okp, _ = cfg.must_pass([d[0]], exits=[L2.head], start=y)
                            okbits = okbits and okp
                if not ok_guard:
                    detail = "the OR is not guarded by `sample == colour`"
            else:
                detail = "bit index is %s, not the enumerate index over the sample array" % (tm.show(sh)[:120] if sh is not None else "?")
        ctx.instance("BAND", {"code_definitions": [tm.show(tm.rvalue(d, frozenset()))[:120] if d[1] != "term" else "call" for d in defs], "bit_i_is_sample_i": okbits})
        if not okbits:
            ctx.violation("BAND", DRAW, "bit-provenance", "the sixel code must be OR of (1 << i) over the sample slots i holding the colour (bit 0 = top row): %s" % detail, sites=site(a, defs[0][0] if defs else pbb))
        # reset per colour
        okreset = False
        if len(zero) == 1:
            z = zero[0][0]
            okreset = in_loop(cfg, LU, z) and (L2 is None or not in_loop(cfg, L2, z)) and cfg.dominates(z, pbb) and pbb not in cfg.reachable_from(body.succs(pbb)[0], removed={z}) \
                and (L2 is None or not in_loop(cfg, L2, pbb))
        ctx.instance("BAND", {"code_reset_per_colour_and_pushed_once": okreset})
        if not okreset:
            ctx.violation("BAND", DRAW, "code-reset", "the sixel code is not reset to 0 for every colour of every column before the sample scan, or is pushed inside the scan", sites=site(a, pbb))
    elif FOLD is not None and LU is not None:
        okbits, detail, info = fold_bits(ctx.prog, a, FOLD, key, S, bits)
        a.FOLD = dict(info, term=FOLD, ok=okbits)
        ctx.instance("BAND", {"code_definitions": [tm.show(FOLD)[:200]], "bit_i_is_sample_i": okbits})
        if not okbits:
            ctx.violation("BAND", DRAW, "bit-provenance", "the sixel code must be OR of (1 << i) over the sample slots i holding the colour (bit 0 = top row): %s" % detail, sites=site(a, FOLD[3]))
        # a fold starts from its initial value every time: evaluated once per colour, before the push
        fb = FOLD[3]
        okreset = in_loop(cfg, LU, fb) and cfg.dominates(fb, pbb) and pbb not in cfg.reachable_from(body.succs(pbb)[0], removed={fb})
        ctx.instance("BAND", {"code_reset_per_colour_and_pushed_once": okreset})
        if not okreset:
            ctx.violation("BAND", DRAW, "code-reset", "the sixel code is not computed afresh for every colour of every column before it is pushed", sites=site(a, pbb))
    else:
        ctx.instance("BAND", {"code_definitions": None})
        ctx.instance("BAND", {"code_reset_per_colour_and_pushed_once": None})
    # ---- (8) the map is only cleared (per band) and pushed into -----------------------------------------
    okmap = True
    why = None
    clears = []
    for (bb, cons) in refmut_consumers(a, MAP):
        if cons is None:
            okmap, why = False, "unknown mutation"
        elif call_matches(cons[1], r"^std::collections::HashMap::<K, V, S, A>::clear$"):
            clears.append(cons[0])
        elif call_matches(cons[1], r"^std::collections::HashMap::<K, V, S, A>::entry$") and cons[0] in [x for x in cfg.reaches(push_blocks)]:
            continue
        else:
            okmap, why = False, "mutated by %s" % callee_name(cons[1])
    okclear = any(in_loop(cfg, LB, c) and not in_loop(cfg, LC, c) and cfg.dominates(c, LC.head) and LC.head not in cfg.reachable_from(LB.some, removed={c}) for c in clears)
    a.map_ok = okmap and okclear
    ctx.instance("BAND", {"run_lists_cleared_per_band": okclear, "only_pushed_into": okmap})
    if not okmap:
        ctx.violation("BAND", DRAW, "run-lists-mutated", "the per-colour run lists are changed other than by clear() and the push: %s" % why, sites=site(a, pbb))
    if not okclear:
        ctx.violation("BAND", DRAW, "run-lists-not-cleared", "the per-colour run lists are not cleared at the start of every band before the column loop: runs of the previous band would be emitted again", sites=site(a, LB.head))
    # ---- (7) colour selection and the per-colour loop ----------------------------------------------------
    want_map_iter = r"^std::collections::HashMap::<K, V, S, A>::iter$"
    lm = [l for l in a.loops if is_call(l.iter, want_map_iter) and uncell(l.iter)[2][0][0] == "cell" and uncell(l.iter)[2][0][1] == MAP]
    if len(lm) != 1:
        ctx.instance("BAND", {"colour_loop": None})
        ctx.violation("BAND", DRAW, "colour-loop", "no unique loop over the per-colour run lists (found %d)" % len(lm), sites=site(a, LB.head))
        return
    LM = lm[0]
    a.LM = LM
    oknest = in_loop(cfg, LB, LM.head) and not in_loop(cfg, LC, LM.head) and cfg.dominates(LC.none, LM.head)
    ctx.instance("BAND", {"colour_loop": tm.show(LM.iter)[:100], "after_column_loop_inside_band": oknest})
    if not oknest:
        ctx.violation("BAND", DRAW, "colour-loop-nesting", "the run lists must be written once per band after all columns were scanned", sites=site(a, LM.head))
    sels = a.roles.get("sel", {})
    oksel = bool(sels)
    for occ, tk in sels.items():
        it = item_of(tk[1])
        if not (it is not None and it[0] == LM.head and it[2] == ["0"]):
            oksel = False
            ctx.violation("BAND", DRAW, "colour-selection", "`#` is followed by %s, not by the key of the run list being written" % tm.show(tk[1])[:160], sites=site(a, occ[0]))
    ctx.instance("BAND", {"colour_selections": len(sels), "selected_colour_is_run_list_key": oksel})
    # ---- (9),(10) one `-` per band, one `#c .. $` per colour ---------------------------------------------
    v1, _ = iteration_language(ctx, a, LB, grammar_band(a.refs), "BAND", "band-iteration")
    ctx.instance("BAND", {"band_iteration_language": "( # c data* $ )* -", "included": not v1})
    v2, _ = iteration_language(ctx, a, LM, grammar_colour(a.refs), "BAND", "colour-iteration")
    ctx.instance("BAND", {"colour_iteration_language": "# c data* $", "included": not v2})


def const_int(t):
    """value of a constant integer expression tree, else None"""
    t = uncell(t)
    while t[0] == "cast" and t[1] == "IntToInt":
        t = uncell(t[3])
    if t[0] == "int":
        return t[1]
    if t[0] == "bin":
        x, y = const_int(t[2]), const_int(t[3])
        if x is None or y is None:
            return None
        op = t[1]
        if op == "Add":
            return x + y
        if op == "Sub":
            return x - y
        if op == "Mul":
            return x * y
        if op == "BitOr":
            return x | y
        if op == "BitAnd":
            return x & y
        if op == "BitXor":
            return x ^ y
        if op == "Shl" and 0 <= y < 128:
            return x << y
        if op == "Shr" and 0 <= y < 128:
            return x >> y
    return None


def single_token_grammar(label, name):
    g = NFA(name)
    g.state("s", "RLE")
    g.state("e", "RLE")
    g.start = "s"
    g.accept = {"e"}
    g.add("s", label, "e")
    return g


def equality_test(d):
    """discriminant tree of a comparison -> (true_means_equal, lhs, rhs) or None"""
    d = uncell(d)
    if d[0] == "bin" and d[1] in ("Eq", "Ne"):
        return d[1] == "Eq", d[2], d[3]
    if d[0] == "call" and len(d[2]) == 2:
        if re.search(r"PartialEq(<.*>)?>?::eq$|PartialEq<&B> for &A>::eq$", d[1]):
            return True, d[2][0], d[2][1]
        if re.search(r"PartialEq(<.*>)?>?::ne$|PartialEq<&B> for &A>::ne$", d[1]):
            return False, d[2][0], d[2][1]
    return None


def is_add(t, x_pred, y_pred):
    t = uncell(t)
    if t[0] == "bin" and t[1] == "Add":
        p, q = t[2], t[3]
    elif t[0] == "call" and re.search(r"ops::Add(<.*>)?>?::add$", t[1]) and len(t[2]) == 2:
        p, q = t[2]
    else:
        return False
    return (x_pred(p) and y_pred(q)) or (x_pred(q) and y_pred(p))


def is_sub(t):
    t = uncell(t)
    if t[0] == "bin" and t[1] == "Sub":
        return t[2], t[3]
    if t[0] == "call" and re.search(r"ops::Sub(<.*>)?>?::sub$", t[1]) and len(t[2]) == 2:
        return t[2][0], t[2][1]
    return None


def rle(ctx, a):
    body, tm, cfg = a.body, a.tm, a.cfg
    a.rle_ok = False
    LM = getattr(a, "LM", None)
    if LM is None:
        return
    # ---- (1) the run loop --------------------------------------------------------------------------
    lrs = []
    for l in a.loops:
        it = l.iter
        if is_call(it, r"^std::iter::Iterator::peekable$") and is_call(uncell(it)[2][0], r"^core::slice::<impl \[T\]>::iter$"):
            src = item_of(uncell(uncell(it)[2][0])[2][0])
            if src is not None and src[0] == LM.head and src[2] == ["1"] and in_loop(cfg, LM, l.head):
                lrs.append(l)
    ctx.instance("RLE", {"run_loop": tm.show(lrs[0].iter)[:140] if lrs else None})
    if len(lrs) != 1:
        ctx.violation("RLE", DRAW, "run-loop", "no unique `while let Some((column, code)) = codes.next()` loop over the peekable run list of the colour being written (found %d)" % len(lrs), sites=site(a, LM.head))
        return
    LR = lrs[0]
    raw_it = tm.op(LR.term["args"][0])
    ITER = raw_it[1] if raw_it[0] == "cell" else None
    column = lambda t: (lambda it: it is not None and it[0] == LR.head and it[2] == ["0"])(item_of(t))
    code = lambda t: (lambda it: it is not None and it[0] == LR.head and it[2] == ["1"])(item_of(t))
    # ---- (2) language of one run -------------------------------------------------------------------
    viol, roles = iteration_language(ctx, a, LR, grammar_run(a.refs), "RLE", "run-iteration")
    ctx.instance("RLE", {"run_iteration_language": "( ! skip ? | ?* ) ( ! repeats CODE | CODE* )", "included": not viol, "roles": {k: len(v) for k, v in roles.items()}})
    # ---- (3) skip count ----------------------------------------------------------------------------
    OFFSET = None
    SHIFT = None
    oks = bool(roles.get("skip")) or bool(roles.get("blank"))
    for occ, tk in roles.get("skip", {}).items():
        sb = is_sub(tk[1])
        if sb is not None and column(sb[0]) and sb[1][0] == "var" and body.local_ty(sb[1][1]) in UNSIGNED:
            OFFSET = sb[1][1]
            SHIFT = tk[1]
        else:
            oks = False
            ctx.violation("RLE", DRAW, "skip-count", "the blank run written as `!n?` has n = %s, expected column - offset" % tm.show(tk[1])[:160], sites=site(a, occ[0]))
    ctx.instance("RLE", {"skip_count": tm.show(SHIFT)[:140] if SHIFT is not None else None, "is_column_minus_offset": oks})
    if not roles.get("skip") and not roles.get("blank"):
        ctx.violation("RLE", DRAW, "no-skip", "a run never skips to its column (neither `!n?` nor `?` repeated): runs that do not start at column 0 would be misplaced", sites=site(a, LR.head))
    # ---- (4) repeat count --------------------------------------------------------------------------
    REPEATS = None
    okr = True
    for occ, tk in roles.get("repeats", {}).items():
        if tk[1][0] == "var" and body.local_ty(tk[1][1]) in UNSIGNED:
            REPEATS = tk[1][1]
        else:
            okr = False
            ctx.violation("RLE", DRAW, "repeat-count", "the run written as `!n<code>` has n = %s, expected the counter of equal consecutive codes" % tm.show(tk[1])[:160], sites=site(a, occ[0]))
    # ---- (5) code bytes ------------------------------------------------------------------------------
    for role in ("repeated-code", "code"):
        okc = True
        for occ, tk in roles.get(role, {}).items():
            if not code(tk[1]):
                okc = False
                ctx.violation("RLE", DRAW, role + "-source", "the data byte written is %s, not the code of the run being written" % tm.show(tk[1])[:160], sites=site(a, occ[0]))
        ctx.instance("RLE", {"role": role, "writes": len(roles.get(role, {})), "is_run_code": okc})
    if not roles.get("repeated-code") and not roles.get("code"):
        ctx.violation("RLE", DRAW, "no-code", "a run iteration never writes its code byte", sites=site(a, LR.head))
    # ---- (6) the loops that write a byte several times -----------------------------------------------
    def counted_loop(occs, want_end, label, what):
        okl = True
        for occ in occs:
            bb = occ[0]
            inner = [l for l in a.loops if in_loop(cfg, LR, l.head) and in_loop(cfg, l, bb)]
            good = False
            fill = a.sinks.events[bb].fill if bb in a.sinks.events else None
            if fill is not None:
                good = bool(want_end(fill)) and not inner       # `extend(repeat(x).take(n))` is the loop
            for l in inner:
                r = range_iter(l.iter)
                if r is not None and r[0] == ("int", 0) and want_end(r[1]):
                    acc = {("B", l.head)}
                    edges = a.graph.sub(("B", l.some), acc)
                    v, _, _ = check_inclusion(edges, ("B", l.some), acc, single_token_grammar(label, what), a.data_range)
                    good = not v
            if not good:
                okl = False
                ctx.violation("RLE", DRAW, what + "-loop", "a %s byte is written outside a `for _ in 0..n` loop with one byte per iteration and n the run length" % what, sites=site(a, bb))
        return okl
    if roles.get("blank"):
        okb = counted_loop(list(roles["blank"]), lambda e: (is_sub(e) is not None and column(is_sub(e)[0]) and is_sub(e)[1][0] == "var" and (OFFSET is None or is_sub(e)[1][1] == OFFSET)), L(a.refs["data"]["blank"]), "blank")
        ctx.instance("RLE", {"blank_loop_over_0_to_column_minus_offset": okb})
    else:
        ctx.instance("RLE", {"blank_loop_over_0_to_column_minus_offset": None})
    if roles.get("code"):
        # the counter: from the `!n` form, else from the loop bound
        okc = counted_loop(list(roles["code"]), lambda e: e[0] == "var" and (REPEATS is None or e[1] == REPEATS), DYN, "code")
        ctx.instance("RLE", {"code_loop_over_0_to_repeats": okc})
    else:
        ctx.instance("RLE", {"code_loop_over_0_to_repeats": None})
    if OFFSET is None or REPEATS is None:
        # locate them through the loop bounds when only one output form is present
        for l in a.loops:
            r = range_iter(l.iter)
            if r is None or not in_loop(cfg, LR, l.head):
                continue
            if OFFSET is None and is_sub(r[1]) is not None and column(is_sub(r[1])[0]) and is_sub(r[1])[1][0] == "var":
                OFFSET = is_sub(r[1])[1][1]
            if REPEATS is None and r[1][0] == "var":
                REPEATS = r[1][1]
    ctx.instance("RLE", {"repeat_count": body.varnames.get(REPEATS) if REPEATS is not None else None, "ok": okr and REPEATS is not None})
    # ---- (7) offset := 0 per colour; offset := column + repeats at the end of every run ---------------------
    ok7 = False
    detail = "offset variable not found"
    if OFFSET is not None and REPEATS is not None:
        defs = body.defs_of(OFFSET)
        zero = [d for d in defs if d[1] != "term" and d[2]["k"] == "use" and tm.op(d[2]["a"]) == ("int", 0)]
        upd = [d for d in defs if d not in zero]
        detail = "definitions: %s" % [tm.show(tm.rvalue(d, frozenset()))[:80] for d in defs]
        if len(zero) == 1 and len(upd) == 1:
            u = upd[0]
            ut = tm.rvalue(u, frozenset())
            shape = is_add(ut, column, lambda t: t == ("var", REPEATS))
            z = zero[0][0]
            placed = in_loop(cfg, LM, z) and not in_loop(cfg, LR, z) and cfg.dominates(z, LR.head)
            okp, wit = cfg.must_pass([u[0]], exits=[LR.head], start=LR.some)
            once = u[0] not in cfg.reachable_from(body.succs(u[0])[0], removed={LR.head})
            # offset is not read again between the update and the next run (what is written in between does not matter)
            after_update = cfg.reachable_from(u[0], removed={LR.head})
            quiet = not any(kind not in ("def", "calldest", "drop") and ((bb == u[0] and (si == "term" or (u[1] != "term" and si > u[1]))) or (bb != u[0] and bb in after_update))
                            for (bb, si, kind, info) in local_uses(body, OFFSET))
            ok7 = shape and placed and okp and once and quiet
            if not shape:
                detail = "offset is updated to %s, expected column + repeats" % tm.show(ut)[:120]
            elif not placed:
                detail = "offset is not reset to 0 before the runs of every colour"
            elif not okp:
                detail = "a run iteration can end without updating offset (blocks %s)" % wit
            elif not quiet:
                detail = "offset is read again after it was updated for the next run"
    ctx.instance("RLE", {"offset": body.varnames.get(OFFSET) if OFFSET is not None else None, "reset_per_colour_and_updated_to_column_plus_repeats": ok7})
    if not ok7:
        ctx.violation("RLE", DRAW, "offset-update", "offset must be 0 at the start of a colour's run list and column + repeats after every run: %s" % detail, sites=site(a, LR.head))
    # ---- (8) repeats := 1; repeats += 1 only for the peeked successor (column + repeats, same code), consuming it ------
    ok8 = False
    detail = "repeat counter not found"
    if REPEATS is not None and ITER is not None:
        defs = body.defs_of(REPEATS)
        one = [d for d in defs if d[1] != "term" and d[2]["k"] == "use" and tm.op(d[2]["a"]) == ("int", 1)]
        inc = [d for d in defs if d not in one]
        detail = "definitions: %s" % [tm.show(tm.rvalue(d, frozenset()))[:80] for d in defs]
        peeks = [(bb, t) for bb, t in body.calls() if call_matches(t, r"^std::iter::Peekable::<I>::peek$") and tm.op(t["args"][0])[:2] == ("cell", ITER)]
        nexts = [bb for bb, t in body.calls() if call_matches(t, r"^std::iter::Iterator::next$") and tm.op(t["args"][0])[:2] == ("cell", ITER) and bb != LR.head]
        if len(one) == 1 and len(inc) == 1 and len(peeks) == 1 and len(nexts) == 1:
            pk = peeks[0][0]
            d = inc[0]
            it_ = tm.rvalue(d, frozenset())
            shape = is_add(it_, lambda t: t == ("var", REPEATS), lambda t: t == ("int", 1))
            placed = in_loop(cfg, LR, one[0][0]) and cfg.dominates(one[0][0], pk) and pk in cfg.reachable_from(d[0]) and one[0][0] not in cfg.reachable_from(pk, removed={LR.head})

            def peeked(t, f):
                # (*peek(..)@Some.0).f
                t = uncell(t)
                return t[0] == "field" and t[2] == f and t[1][0] == "field" and t[1][2] == "0" and t[1][1][0] == "variant" and t[1][1][2] == "Some" and \
                    uncell(t[1][1][1])[0] == "call" and uncell(t[1][1][1])[3] == pk

            def col_test(dd):
                e = equality_test(dd)
                if e is None:
                    return False
                for (u, v) in ((e[1], e[2]), (e[2], e[1])):
                    if peeked(u, "0") and is_add(v, column, lambda t: t == ("var", REPEATS)):
                        return True
                return False

            def code_test(dd):
                e = equality_test(dd)
                if e is None:
                    return False
                for (u, v) in ((e[1], e[2]), (e[2], e[1])):
                    if peeked(u, "1") and code(v):
                        return True
                return False
            g1 = [(x, truth) for (x, truth) in dominating_true_edge(a, d[0], col_test) if truth == equality_test(tm.op(body.blocks[x]["term"]["d"]))[0]]
            g2 = [(x, truth) for (x, truth) in dominating_true_edge(a, d[0], code_test) if truth == equality_test(tm.op(body.blocks[x]["term"]["d"]))[0]]
            okn, _ = cfg.must_pass(nexts, exits=[pk], start=d[0])
            consumed_only_here = cfg.dominates(d[0], nexts[0]) or cfg.dominates(nexts[0], d[0])
            same_iter = in_loop(cfg, LR, nexts[0])
            ok8 = bool(shape and placed and g1 and g2 and okn and consumed_only_here and same_iter)
            if not shape:
                detail = "the counter is changed to %s" % tm.show(it_)[:100]
            elif not (g1 and g2):
                detail = "the increment is not guarded by `next column == column + repeats` and `next code == code`"
            elif not okn:
                detail = "the counted element is not consumed from the iterator"
        nextifs = [(bb, t) for bb, t in body.calls() if call_matches(t, r"^std::iter::Peekable::<I>::next_if$") and len(t["args"]) == 2 and tm.op(t["args"][0])[:2] == ("cell", ITER)]
        if len(one) == 1 and len(inc) == 1 and not peeks and not nexts and len(nextifs) == 1:
            # `while codes.next_if(|(c, k)| *c == column + repeats && k == code).is_some() { repeats += 1 }`: next_if consumes the
            # peeked element exactly when the predicate holds
            nb, nt = nextifs[0]
            d = inc[0]
            it_ = tm.rvalue(d, frozenset())
            shape = is_add(it_, lambda t: t == ("var", REPEATS), lambda t: t == ("int", 1))
            placed = in_loop(cfg, LR, one[0][0]) and cfg.dominates(one[0][0], nb) and nb in cfg.reachable_from(d[0]) and one[0][0] not in cfg.reachable_from(nb, removed={LR.head}) \
                and in_loop(cfg, LR, nb)
            ELEM = ("sym", "peeked element")
            clo = uncell(tm.op(nt["args"][1]))
            truth = closure_truth(ctx.prog, clo, [ELEM])
            if truth is not None:
                a.NEXTIF = {"closure": closure_of(ctx.prog, clo).path, "terms": ClosureTerms(closure_of(ctx.prog, clo), clo, [ELEM])}
            okpred = False
            if truth is not None and len(truth) == 1:
                ncol = ncode = nother = 0
                for (dd, pol) in truth[0]:
                    e = equality_test(dd)
                    hit = None
                    if e is not None and e[0] == pol:
                        for (u, v) in ((e[1], e[2]), (e[2], e[1])):
                            if u == ("field", ELEM, "0") and is_add(v, column, lambda t: t == ("var", REPEATS)):
                                hit = "col"
                            elif u == ("field", ELEM, "1") and code(v):
                                hit = "code"
                    ncol += hit == "col"
                    ncode += hit == "code"
                    nother += hit is None
                okpred = ncol >= 1 and ncode >= 1 and nother == 0

            def taken(dd):
                """discriminant that tells whether next_if returned Some -> truth value standing for Some, else None"""
                dd = uncell(dd)
                if dd[0] == "discr" and uncell(dd[1])[0] == "call" and uncell(dd[1])[3] == nb:
                    return True
                if dd[0] == "call" and len(dd[2]) == 1 and uncell(dd[2][0])[0] == "call" and uncell(dd[2][0])[3] == nb:
                    if re.search(r"Option::<T>::is_some$", dd[1]):
                        return True
                    if re.search(r"Option::<T>::is_none$", dd[1]):
                        return False
                return None
            g = [x for (x, truth_) in dominating_true_edge(a, d[0], lambda dd: taken(dd) is not None) if truth_ == taken(tm.op(body.blocks[x]["term"]["d"]))]
            # conversely every consumed element is counted before the next test
            counted = bool(g)
            for x in g:
                tt = body.blocks[x]["term"]
                some = taken(tm.op(tt["d"]))
                ys = [tg for v, tg in zip(tt["vals"], tt["targets"]) if (v != "0") == some] + ([tt["otherwise"]] if (tt["vals"] == ["0"]) == some else [])
                for y in ys:
                    counted = counted and cfg.must_pass([d[0]], exits=[nb, LR.head], start=y)[0]
            ok8 = bool(shape and placed and okpred and g and counted)
            if not shape:
                detail = "the counter is changed to %s" % tm.show(it_)[:100]
            elif truth is None:
                detail = "the predicate given to next_if is not understood"
            elif not okpred:
                detail = "the next_if predicate is not `next column == column + repeats` and `next code == code`"
            elif not (g and counted):
                detail = "the increment is not executed exactly when next_if returned an element"
    a.rle_ok = ok7 and ok8
    ctx.instance("RLE", {"repeats_counts_peeked_successors_with_same_code": ok8})
    if not ok8:
        ctx.violation("RLE", DRAW, "repeat-counter", "repeats must start at 1 and grow by one exactly when the peeked element is (column + repeats, same code), which is then consumed: %s" % detail, sites=site(a, LR.head))
    a.LR, a.OFFSET, a.REPEATS = LR, OFFSET, REPEATS


def cache(ctx, a):
    body, tm, cfg = a.body, a.tm, a.cfg
    imgs = img_args(body)
    img = ("arg", imgs[0]) if len(imgs) == 1 else None
    # ---- (1) lookup ------------------------------------------------------------------------------
    look = getattr(a, "hit_lookup", None)
    if look is None or not a.emit_hit:
        ctx.anchor("CACHE", "cache-lookup", "no emission of a value found by LruCache::get: the cache-hit path is not understood")
        return
    look = uncell(look)
    store_field, key = look[2][0], look[2][1]
    okkey = key[0] == "call" and len(key[2]) == 1 and key[2][0] == img
    okfield = store_field[0] == "field" and store_field[1] == ("arg", 1)
    ctx.instance("CACHE", {"lookup": tm.show(look)[:160], "key_is_function_of_the_image": okkey, "cache_is_field_of_self": okfield})
    if not (okkey and okfield):
        ctx.violation("CACHE", DRAW, "lookup-key", "the cache lookup %s is not keyed by a function of the image alone on a field of self" % tm.show(look)[:160], sites=site(a, look[3]))
    # ---- (2),(3) store -----------------------------------------------------------------------------
    others = [(bb, t) for bb, t in body.calls() if call_matches(t, r"^lru::LruCache::<K, V, S>::(put|push|get_or_insert|get_or_insert_mut|try_get_or_insert)$")]
    puts = []
    for (bb, t) in others:
        if call_matches(t, r"^lru::LruCache::<K, V, S>::(put|push)$") and len(t["args"]) == 3:
            v = tm.op(t["args"][2])
            if is_call(v, r"^std::clone::Clone::clone$|Clone>::clone$") and len(uncell(v)[2]) == 1 and v[0] != "cell":
                v = uncell(v)[2][0]
            if v[0] == "cell" and v[1] == a.sinks.buf:
                puts.append((bb, t, 2))
    stray = [(bb, t, i) for (bb, t, i) in a.sinks.buf_moves if bb not in [p[0] for p in puts]]
    okstore = len(puts) == 1 and not stray
    a.put_blocks = [p[0] for p in puts]
    ctx.instance("CACHE", {"stores": [callee_name(t) for _, t, _ in puts], "stored_value_is_the_emitted_buffer": okstore, "cache_insertions": len(others)})
    if not okstore or len(others) != 1:
        ctx.violation("CACHE", DRAW, "stored-value", "the value put into the cache is not the buffer that was written to `out` (%d cache insertions, %d of them store the buffer; buffer also moved into %s)" % (
            len(others), len(puts), [callee_name(t) for _, t, _ in stray]), sites=site(a, others[0][0]) if others else [body.loc])
        ctx.instance("CACHE", {"store_key": None})
    else:
        pbb, pt, _ = puts[0]
        sf, sk = tm.op(pt["args"][0]), tm.op(pt["args"][1])
        oksame = sf == store_field and strip_bb(sk) == strip_bb(key)
        ctx.instance("CACHE", {"store_key": tm.show(sk)[:120], "lookup_key": tm.show(key)[:120], "same_key_and_cache": oksame})
        if not oksame:
            ctx.violation("CACHE", DRAW, "store-key", "the buffer is stored under %s in %s but looked up under %s in %s: a second draw of the same image misses (or hits another image's bytes)" % (
                tm.show(sk)[:120], tm.show(sf), tm.show(key)[:120], tm.show(store_field)), sites=site(a, pbb))
        # ---- (5) stored on every Ok path after the emission
        if a.emit_buf:
            okp, wit = cfg.must_pass([pbb], exits=a.ok_blocks, start=a.emit_buf[0])
            ctx.instance("CACHE", {"stored_on_every_ok_path_after_emission": okp})
            if not okp:
                ctx.violation("CACHE", DRAW, "not-stored", "an Ok path emits the buffer without storing it: the next draw re-encodes the image (colour runs may come out in another order)", sites=site(a, pbb))
    # ---- (4) a hit writes the cached bytes and returns -----------------------------------------------
    hb = a.emit_hit[0]
    sw = body.blocks[look[3]]
    nxt = body.blocks[body.succs(look[3])[0]]["term"]
    some_edge = None
    if nxt["k"] == "switch":
        for v, tg in zip(nxt["vals"], nxt["targets"]):
            if v == "1":
                some_edge = (body.succs(look[3])[0], tg)
    guarded = some_edge is not None and cfg.edge_dominates(some_edge[0], some_edge[1], hb)
    rebuilt = a.sinks.buf_def_bb in cfg.reachable_from(hb)
    okhit, wit = cfg.must_pass([hb], exits=a.ok_blocks, start=some_edge[1]) if some_edge else (False, None)
    ctx.instance("CACHE", {"hit_branch_emits_cached_bytes": bool(guarded and okhit), "then_returns_without_encoding": not rebuilt})
    if not (guarded and okhit):
        ctx.violation("CACHE", DRAW, "hit-without-emission", "on a cache hit an Ok path returns without writing the cached bytes", sites=site(a, hb))
    if rebuilt:
        ctx.violation("CACHE", DRAW, "hit-falls-through", "after writing the cached bytes draw goes on to encode the image again", sites=site(a, hb))


def total(ctx, a):
    """TOTAL: no reachable panic/overflow/bounds failure in the body of SixelImageHandler::draw (and its closures).  The quantiser
    (Image::quantize, ColorPalette, OcTree, KDTree) and surface.rs are reachable but OUT of scope: their undischarged obligations are
    listed as notes only (C13 / C07 cover them)."""
    from .. import oblrules, obligations
    from ..flow import resolve_place
    body, tm, cfg, prog = a.body, a.tm, a.cfg, ctx.prog
    plain = a.plain_body          # draw as written (the program's own Body object): obligations are collected per written body
    dt = a.refs["data"]
    lemmas = {}
    LB, LC, LR = getattr(a, "LB", None), getattr(a, "LC", None), getattr(a, "LR", None)
    CODE, OFFSET, REPEATS = getattr(a, "CODE", None), getattr(a, "OFFSET", None), getattr(a, "REPEATS", None)
    FOLD, NEXTIF = getattr(a, "FOLD", None), getattr(a, "NEXTIF", None)

    # Obligations are collected per written body (that is how sa/oblrules.py keys them); the lemmas look at their operands in
    # the body the structural clauses were decided on:
    #   draw itself          -> the same terminator (blocks of draw keep their numbers in the expanded body)
    #   a private helper     -> its copy in every expansion of the helper into draw (a lemma must hold for every copy)
    #   an understood closure (fold over the sample array, next_if predicate) -> the closure's own term trees, in which
    #                           captured variables read as draw's terms and parameters as the chain's element
    closure_tms = {}
    SHORTCUT = getattr(a, "SHORTCUT", None)
    for c_ in (FOLD, NEXTIF, SHORTCUT):
        if c_ and c_.get("closure") and c_.get("terms") is not None:
            closure_tms[c_["closure"]] = c_["terms"]
        for (cp_, ctm_) in (c_ or {}).get("chain_closures", []):
            closure_tms[cp_] = ctm_
    expansions = {}
    for blk in body.blocks:
        if blk["term"].get("inl_call") and not blk["cleanup"]:
            expansions.setdefault(blk["term"]["inl_call"], []).append(blk["term"]["t"])

    def copies_for(b, o):
        """-> [(terminator, term trees, body)] or [] when the obligation cannot be looked at"""
        if o.term is None:
            return []
        if b.path == DRAW:
            return [(o.term, tm, body)]
        if b.path in closure_tms:
            return [(o.term, closure_tms[b.path], closure_tms[b.path].b)]
        out = []
        for bo in expansions.get(b.path, []):
            t_ = body.blocks[bo + o.bb]["term"] if bo + o.bb < len(body.blocks) else None
            if t_ is None or t_["k"] != o.term["k"] or body.blocks[bo + o.bb].get("inl_from") != b.path:
                return []
            out.append((t_, tm, body))
        return out

    def operands_of(t_, tmx):
        if t_["k"] == "assert":
            m = t_["msg"]
            return [tmx.op(m[k]) for k in ("a", "b", "index", "len") if isinstance(m.get(k), dict)]
        if t_["k"] == "call":
            return [tmx.op(x) for x in t_["args"]]
        return []

    class Site:
        pass
    sites = []
    for b_ in [plain] + [prog.body(p_) for p_ in sorted(set(expansions) | set(closure_tms)) if prog.body(p_) is not None]:
        obs_ = [o for o in obligations.collect(b_, lossy=False, unsafe=True) if not o.exp]
        keys_ = oblrules.site_keys(obs_)
        for o in obs_:
            cps = copies_for(b_, o)
            if not cps:
                continue
            s_ = Site()
            s_.path, s_.key, s_.o, s_.copies = b_.path, keys_[id(o)], o, cps
            s_.ops = [operands_of(t_, tmx) for (t_, tmx, _) in cps]
            sites.append(s_)

    def lemma(s_, name, why):
        lemmas[(s_.path, s_.key)] = (name, why)

    def where(s_):
        return {} if s_.path == DRAW else {"in": s_.path, "copies": len(s_.copies)}

    def enum_index(t):
        """enumerate index over a slice of a fixed-size array / value of a `0..n` loop / slot index of an understood iterator
        chain -> number of slots, else None"""
        while t[0] == "cast" and t[1] == "IntToInt":
            t = t[3]
        if t == SYM_I:
            ns_ = [c_["n"] for c_ in (FOLD, SHORTCUT) if c_ and c_.get("n") is not None and (c_ is FOLD or c_["chain_closures"])]
            return max(ns_) if ns_ else None       # slot index of the chain over the sample slots (fold / single-colour test)
        it = item_of(t)
        if it is not None and it[2] == [] and range_iter(it[1]) is not None:
            lo, hi = range_iter(it[1])
            return hi[1] if lo == ("int", 0) and hi[0] == "int" else None
        if it is None or it[2] != ["0"] or not is_call(it[1], r"^std::iter::Iterator::enumerate$"):
            return None
        inner = uncell(it[1])[2][0]
        if not is_call(inner, r"^core::slice::<impl \[T\]>::iter(_mut)?$"):
            return None
        arr = uncell(uncell(inner)[2][0])
        if arr[0] == "repeat":
            return arr[2]
        if arr[0] == "agg" and arr[1] == "array":
            return len(arr[3])
        return None

    # ---- ENUM-INDEX: 1 << i with i the enumerate index over a [T; N] array, N <= bit width ---------------------------
    ctx.rule("ENUM-INDEX", "shift amounts (array indices inside iterator closures) are enumerate / slot indices over a fixed-size array shorter than the bit width of the shifted type (not longer than the indexed array)", floor=1)
    for s_ in sites:
        if s_.o.kind == "OVF" and s_.o.sub == "Shl":
            ns, widths = [], []
            for (t_, tmx, bx), ops in zip(s_.copies, s_.ops):
                ns.append(enum_index(ops[1]) if len(ops) == 2 else None)
                dest_bits = None
                for st in bx.blocks[t_["t"]]["stmts"]:
                    if st["k"] == "assign" and st["rv"]["k"] == "bin" and st["rv"]["op"] == "Shl":
                        m = re.fullmatch(r"[iu](\d+)", bx.local_ty(st["place"]["l"]))
                        dest_bits = int(m.group(1)) if m else 64
                widths.append(dest_bits)
            good = all(n is not None and w is not None and n <= w for n, w in zip(ns, widths))
            ops = s_.ops[0]
            ctx.instance("ENUM-INDEX", dict({"shift_amount": s_.copies[0][1].show(ops[1])[:120] if len(ops) == 2 else None, "array_length": ns[0], "bit_width": widths[0], "ok": good}, **where(s_)))
            if good:
                lemma(s_, "ENUM-INDEX", "the shift amount is the enumerate index over a %d-element array, < %d" % (ns[0], widths[0]))
        elif s_.o.kind == "BOUNDS" and s_.o.sub == "Index" and s_.path in closure_tms:
            # `arr[i]` inside the closure of a chain over the slots 0..n: i < n <= len
            good = all(len(ops) == 2 and enum_index(ops[0]) is not None and ops[1][0] == "int" and enum_index(ops[0]) <= ops[1][1] for ops in s_.ops)
            ops = s_.ops[0]
            ctx.instance("ENUM-INDEX", dict({"index": s_.copies[0][1].show(ops[0])[:120] if ops else None, "len": s_.copies[0][1].show(ops[1])[:40] if len(ops) == 2 else None, "ok": good}, **where(s_)))
            if good:
                lemma(s_, "ENUM-INDEX", "the index is the slot index of an iterator chain over %d slots, the array has %d elements" % (enum_index(ops[0]), ops[1][1]))
    # ---- REM-LE: x - x % c with x a shape accessor of the shared `&Image` parameter ------------------------------------
    ctx.rule("REM-LE", "x - x % c cannot underflow when both x are the same accessor (height/width) of the `&Image` parameter", floor=0)
    imgs = img_args(body)
    for s_ in sites:
        if s_.o.kind == "OVF" and s_.o.sub == "Sub" and s_.o.term["k"] == "assert":
            cand = [ops for ops in s_.ops if len(ops) == 2 and ops[1][0] == "bin" and ops[1][1] == "Rem" and is_call(ops[0], r"^surface::Surface::(height|width)$")]
            if len(cand) == len(s_.ops):
                good = all(strip_bb(ops[1][2]) == strip_bb(ops[0]) and len(imgs) == 1 and uncell(ops[0])[2] == (("arg", imgs[0]),) for ops in cand)
                ops = cand[0]
                ctx.instance("REM-LE", dict({"minuend": tm.show(ops[0]), "subtrahend": tm.show(ops[1]), "ok": good}, **where(s_)))
                if good:
                    lemma(s_, "REM-LE", "x %% c <= x for the same x = %s (the image is borrowed shared for the whole call)" % tm.show(ops[0]))
                    ctx.trust("REM-LE", "Surface::height/width of an `&Image` are pure accessors of its immutable shape")
    # ---- PALETTE-LEN: arithmetic on the number of palette entries (buffer pre-sizing and the like) -----------------------------
    ctx.rule("PALETTE-LEN", "sums/products/quotients of constants, the palette length and image dimensions (buffer pre-sizing) are bounded: the palette of Image::quantize(.., N, ..) has at most N <= 256 entries, dimensions are below 2^31 (SIZE-BOUND)", floor=0)
    quant = getattr(a, "quant", None)
    qsize = None
    if quant is not None and len(quant["call"][2]) > 1 and quant["call"][2][1][0] == "int" and not any(v.rule == "PALETTE" and "palette-size" in v.key for v in ctx.violations):
        qsize = quant["call"][2][1][1]

    def upper(t):
        """upper bound of an unsigned expression over constants and the palette length, else None"""
        t = uncell(t)
        if t[0] == "int":
            return t[1] if t[1] >= 0 else None
        if qsize is not None and t[0] == "call" and re.search(r"(^|::)len$", t[1]) and len(t[2]) == 1:
            inner = uncell(t[2][0])
            if inner[0] == "call" and inner[1] == "image::ColorPalette::colors" and len(inner[2]) == 1 and strip_bb(uncell(inner[2][0])) == strip_bb(quant["palette"]):
                return qsize
            return None
        if qsize is not None and size_is_len and t[0] == "call" and t[1] == "image::ColorPalette::size" and len(t[2]) == 1 and strip_bb(uncell(t[2][0])) == strip_bb(quant["palette"]):
            return qsize                    # ColorPalette::size() is colors.len() (checked on its body)
        if t[0] == "call" and t[1] in ("surface::Surface::width", "surface::Surface::height") and len(t[2]) == 1 and quant is not None \
                and strip_bb(uncell(t[2][0])) in (strip_bb(quant["qimg"]), quant.get("img")):
            used_dims.append(1)
            return (1 << 31) - 1            # assumption SIZE-BOUND
        if t[0] == "bin" and t[1] in ("Div", "Shr") and uncell(t[3])[0] == "int" and uncell(t[3])[1] >= (1 if t[1] == "Div" else 0):
            return upper(t[2])              # x / c <= x, x >> c <= x
        if t[0] == "bin" and t[1] in ("Add", "Mul"):
            x, y = upper(t[2]), upper(t[3])
            if x is None or y is None:
                return None
            return x + y if t[1] == "Add" else x * y
        return None

    used_dims = []
    size_is_len = False
    sb_ = prog.body("image::ColorPalette::size")
    if sb_ is not None:
        from ..flow import arg_place
        cs_ = [(bb, t) for bb, t in sb_.calls() if not sb_.blocks[bb]["cleanup"]]
        size_is_len = len(cs_) == 1 and call_matches(cs_[0][1], r"^std::vec::Vec::<T, A>::len$") and cs_[0][1]["dest"] == {"l": 0, "p": []} \
            and re.search(r"^\(\*_1\)\.colors$", str(arg_place(sb_, cs_[0][1], 0) or "")) is not None

    def mentions_palette_len(t):
        """the expression itself (not a variable whose initial value happens to) contains palette.colors()"""
        t = uncell(t)
        if t[0] == "call" and t[1] in ("image::ColorPalette::colors", "image::ColorPalette::size", "surface::Surface::width", "surface::Surface::height"):
            return True
        return any(mentions_palette_len(c) for c in children(t) if c[0] != "cell" or t[0] in ("bin", "cast"))
    for s_ in sites:
        if s_.o.kind == "OVF" and s_.o.sub in ("Add", "Mul") and s_.o.term["k"] == "assert" and all(len(ops) == 2 and any(mentions_palette_len(x) for x in ops) for ops in s_.ops):
            del used_dims[:]
            ubs = [[upper(x) for x in ops] for ops in s_.ops]
            if any(None in u for u in ubs):
                continue                    # not an expression over constants, the palette length and image dimensions: not this lemma's
            # pure palette arithmetic has to fit 32 bits (any target); with image dimensions (SIZE-BOUND: < 2^31 each) the 64-bit usize of the analysed target
            good = all((u[0] + u[1] if s_.o.sub == "Add" else u[0] * u[1]) < ((1 << 64) if used_dims else (1 << 32)) for u in ubs)
            ctx.instance("PALETTE-LEN", dict({"operands": [tm.show(x)[:100] for x in s_.ops[0]], "upper_bounds": ubs[0], "ok": good}, **where(s_)))
            if good:
                ctx.assume("PALETTE-LEN: Image::quantize(.., N, ..) returns a palette of at most N colours (quantiser correctness, C13)")
                lemma(s_, "PALETTE-LEN", "palette.colors().len() <= %d (the constant handed to Image::quantize), so the result is at most %d" % (
                    qsize, max((u[0] + u[1] if s_.o.sub == "Add" else u[0] * u[1]) for u in ubs)))
    # ---- BITS6: code | (1 << i), i < 6  =>  code <= 63, code + 63 <= 126 ---------------------------------------------
    ctx.rule("BITS6", "the sixel code is 0 OR-ed with 1 << i for slot indices i < 6, so code + 63 <= 126 fits u8", floor=1)
    top = (1 << dt["bits"]) - 1 + dt["offset"]

    def bits6(ops):
        """-> (applies, holds, what)"""
        if len(ops) != 2 or ("int", dt["offset"]) not in ops:
            return False, False, None
        if FOLD and FOLD["term"] in ops:
            # iterator form: BAND has checked that the fold is 0 OR-ed with 1 << i for the slots i < n of the chain
            cb_ = prog.body(FOLD["closure"]) if FOLD.get("closure") else None
            return True, bool(FOLD["ok"]) and FOLD["n"] == dt["bits"] and top <= 255 and cb_ is not None and cb_.local_ty(0) == "u8", "fold over the sample slots"
        if CODE is not None and ("var", CODE) in ops:
            defs = body.defs_of(CODE)
            okd = True
            for d in defs:
                rv = tm.rvalue(d, frozenset()) if d[1] != "term" else ("?", "call")
                if rv == ("int", 0):
                    continue
                if rv[0] == "bin" and rv[1] == "BitOr" and ("var", CODE) in (rv[2], rv[3]):
                    other = rv[3] if rv[2] == ("var", CODE) else rv[2]
                    if other[0] == "bin" and other[1] == "Shl" and other[2] == ("int", 1) and (enum_index(other[3]) or 99) <= dt["bits"]:
                        continue
                okd = False
            return True, okd and top <= 255 and body.local_ty(CODE) == "u8", len(defs)
        return False, False, None
    for s_ in sites:
        if s_.o.kind == "OVF" and s_.o.sub == "Add":
            res = [bits6(ops) for ops in s_.ops]
            if all(r[0] for r in res):
                good = all(r[1] for r in res)
                ctx.instance("BITS6", dict({"code_definitions": res[0][2], "max_value": top, "ok": good}, **where(s_)))
                if good:
                    lemma(s_, "BITS6", "code is an OR of bits 0..%d, so code + %d <= %d" % (dt["bits"] - 1, dt["offset"], top))
    # ---- RUN-ORDER: column - offset ------------------------------------------------------------------------------------
    ctx.rule("RUN-ORDER", "columns of a run list are strictly increasing (pushed once per column in column order, list cleared per band) and offset = previous column + "
                          "repeats <= next column (the repeats-1 elements after a run start are its successors column+1..), so column - offset cannot underflow", floor=1)
    for s_ in sites:
        if s_.o.kind == "OVF" and s_.o.sub in ("Sub-call", "Sub"):
            if OFFSET is not None and all(len(ops) == 2 and ops[1] == ("var", OFFSET) for ops in s_.ops):
                its = [item_of(ops[0]) for ops in s_.ops]
                conds = {"minuend_is_run_column": all(it is not None and LR is not None and it[0] == LR.head and it[2] == ["0"] for it in its),
                         "run_lists_cleared_per_band_and_only_pushed": bool(getattr(a, "map_ok", False)),
                         "offset_and_repeats_structure": bool(getattr(a, "rle_ok", False)),
                         "one_push_per_colour_and_column_in_column_order": not any(v.rule == "BAND" and re.search(r"colour-key|code-offset|run-list-push|column-loop", v.key) for v in ctx.violations)}
                good = all(conds.values())
                ctx.instance("RUN-ORDER", dict(conds, ok=good, **where(s_)))
                if good:
                    lemma(s_, "RUN-ORDER", "offset <= column: see rule RUN-ORDER (side conditions checked by BAND and RLE)")
    # ---- CACHE-ACCOUNT: self.size == sum of the lengths of the cached buffers ---------------------------------------------
    ctx.rule("CACHE-ACCOUNT", "self.size is changed only by += len of the buffer put under a fresh key and -= len of the value popped; the cache only by get/put/pop_lru in draw: "
                              "size = total length of live cached Vecs (<= address space), so neither the addition overflows nor the subtraction underflows", floor=6)
    okacc = True
    n_size = 0
    # draw is looked at with its private helpers expanded (they are then not looked at on their own)
    acct_bodies = [(body if b is plain else b) for b in prog.bodies if b.file == body.file and b.path not in expansions]
    for b in acct_bodies:
        for (bb, si, rp, st) in __import__("sa.flow", fromlist=["writes_to_field"]).writes_to_field(b, r"\.size$"):
            base_l = (st["place"] if "place" in st else st["dest"])["l"]
            if "SixelImageHandler" not in b.local_ty(base_l):
                continue
            n_size += 1
            tb = Terms(b) if b is not body else tm
            val = tb.op(st["rv"]["a"]) if ("rv" in st and st["rv"]["k"] == "use") else ("?", "x")
            kind = None
            if b is body and val[0] == "bin" and val[2] == ("field", ("arg", 1), "size") and is_call(val[3], r"^std::vec::Vec::<T, A>::len$"):
                x = uncell(val[3])[2][0]
                if val[1] == "Add" and x[0] == "cell" and x[1] == a.sinks.buf:
                    # the same buffer is then put, on every path
                    puts = getattr(a, "put_blocks", [])
                    if puts and cfg.must_pass(puts, exits=a.ok_blocks, start=bb)[0]:
                        kind = "+= len(buffer put into the cache)"
                elif val[1] == "Sub" and x[0] == "field" and x[2] == "1" and x[1][0] == "field" and x[1][1][0] == "variant" and is_call(x[1][1][1], r"^lru::LruCache::<K, V, S>::pop_lru$"):
                    kind = "-= len(value popped from the cache)"
            ctx.instance("CACHE-ACCOUNT", {"fn": b.path, "size_write": tb.show(val)[:120], "kind": kind})
            if kind is None:
                okacc = False
                ctx.violation("CACHE-ACCOUNT", b.path, "size-write", "SixelImageHandler.size is written with %s, which is not the accounting of a cache insertion/eviction" % tb.show(val)[:160], sites=["%s:%d" % (b.file, st.get("line", b.line))])
        muts = [(bb, si, rp) for (bb, si, rp) in __import__("sa.flow", fromlist=["mut_borrows_of"]).mut_borrows_of(b, r"\.imgs$") if "SixelImageHandler" in b.local_ty(b.blocks[bb]["stmts"][si]["rv"]["place"]["l"])]
        for (bb, si, rp) in muts:
            r = b.blocks[bb]["stmts"][si]["place"]["l"]
            cons = [u for u in local_uses(b, r) if u[2] == "arg"]
            nm = callee_name(cons[0][3][1]) if len(cons) == 1 else None
            good = b is body and nm is not None and re.search(r"^lru::LruCache::<K, V, S>::(get|put|pop_lru|peek)$", nm) is not None
            ctx.instance("CACHE-ACCOUNT", {"fn": b.path, "cache_access": nm, "ok": good})
            if not good:
                okacc = False
                ctx.violation("CACHE-ACCOUNT", b.path, "cache-mutation", "the sixel cache is mutably used by %s outside the get/put/pop_lru accounting of draw" % nm, sites=[b.loc])
    ctors = 0
    for b in acct_bodies:
        for bb, si, st in b.assigns():
            rv = st["rv"]
            if rv["k"] == "agg" and rv["ak"] == "adt" and rv.get("adt") == "image::SixelImageHandler":
                ctors += 1
                tb = Terms(b) if b is not body else tm
                fl = dict(zip(rv.get("fnames") or [], [tb.op(f) for f in rv["fields"]]))
                good = is_call(fl.get("imgs", ("?", "")), r"^lru::LruCache::<K, V>::unbounded$") and fl.get("size") == ("int", 0)
                ctx.instance("CACHE-ACCOUNT", {"constructor": b.path, "imgs": tb.show(fl.get("imgs", ("?", "none")))[:80], "size": tb.show(fl.get("size", ("?", "none"))), "ok": good})
                if not good:
                    okacc = False
                    ctx.violation("CACHE-ACCOUNT", b.path, "constructor", "the handler must start with an empty unbounded cache and size 0 (a bounded cache evicts inside put() without the size being reduced)", sites=[b.loc])
    if ctors == 0:
        okacc = False
    fresh = not any(v.rule == "CACHE" for v in ctx.violations)
    if n_size < 2:
        okacc = False
    if okacc and fresh:
        for s_ in sites:
            if (s_.path == DRAW or s_.path in expansions) and s_.o.kind == "OVF" and s_.o.sub in ("Add", "Sub") and s_.o.term["k"] == "assert":
                if all(ops and ops[0] == ("field", ("arg", 1), "size") for ops in s_.ops):
                    lemma(s_, "CACHE-ACCOUNT", "size is the total length of the cached buffers (put only after a miss on the same key, popped value subtracted)")
    elif not okacc:
        ctx.anchor("CACHE-ACCOUNT", "accounting", "the cache size accounting is not of the understood shape")

    # ---- SIZE-BOUND assumption: sums of row/column indices and run lengths ---------------------------------------------------
    def index_like(t):
        t0 = t
        while t0[0] == "cast" and t0[1] == "IntToInt":
            t0 = t0[3]
        if t0[0] == "int":
            return t0[1] < (1 << 31)
        if enum_index(t0) is not None:
            return True
        it = item_of(t0)
        if it is not None:
            if LB is not None and it[0] == LB.head and it[2] == []:
                return True
            if LC is not None and it[0] == LC.head and it[2] == []:
                return True
            if LR is not None and it[0] == LR.head and it[2] == ["0"]:
                return True
        if REPEATS is not None and t0 == ("var", REPEATS):
            return True
        return False

    def assume(b, o):
        if o.kind != "OVF" or o.sub not in ("Add", "Add-call"):
            return None
        cps = copies_for(b, o)
        if cps and all(len(ops) == 2 and all(index_like(x) for x in ops) for ops in (operands_of(t_, tmx) for (t_, tmx, _) in cps)):
            return ("SIZE-BOUND", "both operands are row/column indices or run lengths of an image whose dimensions are below 2^31")
        return None

    helpers = {blk["inl_from"] for blk in body.blocks if blk.get("inl_from")}

    def scope(b):
        # draw, its closures, and the private helpers expanded into it (and their closures)
        return b.path == DRAW or b.closure_root == DRAW or b.path in helpers or b.closure_root in helpers

    cg = prog.callgraph()
    dyn, _ = cg.reach_split([DRAW])
    outside = sorted(p for p in dyn if prog.body(p) is not None and not scope(prog.body(p)) and prog.body(p).file.startswith("src/"))
    ctx.note("TOTAL scope is the handler body only; %d reachable crate bodies are NOT analysed here (quantiser: Image::quantize, ColorPalette, OcTree, KDTree -> C13; "
             "surface.rs accessors -> C07): %s" % (len(outside), ", ".join(outside[:40])))
    # Engine workaround (sa/absint.py is not this module's).  Analyzer.widen drops a difference bound on a loop head's phi symbols
    # when it grew, but the next join derives it afresh (the old state no longer has it, so it is kept), it grows, is dropped
    # again, .. and states_equal never holds ("absint: no fixpoint", e.g. `while it.next_if(..).is_some() { n += 1 }`, where the
    # bound between the counter and another phi symbol of the head alternates between present and absent; join_states also
    # derives vacuous bounds `hi(a) - lo(b)` = 2^64-1 from the intervals, which vanish when widening makes hi(a) infinite and
    # come back at the next join).  While TOTAL runs, a bound that went missing at a head twice after having been there stays
    # dropped at that head, and vacuous bounds are not recorded.  Dropping a bound only weakens the abstract state: sound.
    from .. import absint
    orig_join, orig_widen = absint.join_states, absint.Analyzer.widen

    def join_without_vacuous_bounds(states, bb, body_):
        out = orig_join(states, bb, body_)
        if out is not None:
            for pq, d_ in list(out.diffs.items()):
                if d_ >= (1 << 64) - 1:
                    del out.diffs[pq]
        return out

    def widen_with_memory(self, old, new, bb):
        r = orig_widen(self, old, new, bb)
        if old is None:
            return r
        mem = self.__dict__.setdefault("_c12_widen_mem", {}).setdefault(bb, {"seen": set(), "lost": {}})
        pref = "phi:%d:" % bb
        here = {pq for pq in old.diffs if pq[0].startswith(pref) or pq[1].startswith(pref)}
        for pq in (mem["seen"] - here) | {pq for pq in here if pq not in r.diffs}:
            mem["lost"][pq] = mem["lost"].get(pq, 0) + 1
        mem["seen"] = (mem["seen"] | here) - set(mem["lost"])
        for pq in list(r.diffs):
            if mem["lost"].get(pq, 0) >= 2:
                del r.diffs[pq]
        return r
    absint.Analyzer.widen = widen_with_memory
    absint.join_states = join_without_vacuous_bounds
    try:
        oblrules.run(ctx, "TOTAL", [DRAW], lossy=False, lemmas=lemmas, scope=scope, skip=lambda b: not scope(b), assume_filter=assume, floor_bodies=12,
                     desc="no reachable panic/overflow/bounds failure in the body of SixelImageHandler::draw (quantiser and surface.rs callees: notes only, see C13/C07)")
    finally:
        absint.join_states = orig_join
        absint.Analyzer.widen = orig_widen
