"""C20 — colours reduced for 256-colour and grey terminals are the closest available (table / shape clauses).

Everything is read from src.json trees of src/encoder.rs (`CUBE`, `GREYS`, `nearest`, `color_sgr_encode`) and
src/decoder.rs (`CUBE`, `GREYS`, `sgr_color`); reference data comes from sa/refs/xterm256.json.  `nearest`'s match arms are
given their value on concrete (table, index, v) triples by sa.consteval (denotation of the source expression, the
repository is never run).
"""
import json
import os

from ..src import find_all, expr_text, pat_text, lit_int
from ..consteval import Interp, Frame, Unsupported, emissions, subst, strip_try, pat_names

ENC = "src/encoder.rs"
DEC = "src/decoder.rs"
FN = "encoder::color_sgr_encode"
REFS = os.path.join(os.path.dirname(os.path.dirname(os.path.abspath(__file__))), "refs", "xterm256.json")

CLAIM = {
    "text": "Decides, from the source trees of the current tree: the encoder's f32 CUBE/GREYS tables equal the sRGB->linear transform of the "
            "xterm cube levels {0,95,135,175,215,255} and grey levels 8+10i to the printed 6 digits, are strictly increasing, and the decoder's "
            "integer tables are those levels; the emitted index is 16+36r+6g+b / 232+i with r,g,b,i the `nearest` indices of the matching "
            "channels / channel mean and stays inside 16..231 / 232..255; `nearest` returns, for every table and every insertion point, the "
            "index of the closest entry (both edges, interior compares both neighbours; ties to the upper one); the cube/grey choice compares "
            "color.distance(grey candidate) with color.distance(cube candidate) built from the same indices; grey depth uses four increasing "
            "thresholds mapped to 30,90,37,97 (increasing reference luminance), +10 for background, nothing for underline colour; true-colour "
            "holes are the to_rgb() channels in order. With per-channel nearest in a sorted table = Euclidean nearest in the cube, and nearest "
            "grey to the channel mean = Euclidean nearest grey, this yields the minimal-distance palette entry for opaque colours away from "
            "f32 midpoints. NOT decided: optimality at f32 rounding near midpoints, translucent colours (LinColor::from premultiplies alpha "
            "while distance() un-multiplies; dependency code is outside the facts), the luma formula itself.",
    "technique": "constant-table comparison against xterm/sRGB reference, expression-shape and linear-form rules, exhaustive denotation of `nearest` over all tables and insertion points",
    "design_ref": "DESIGN.md §5 C20",
}


# ----------------------------------------------------------------------------------------- helpers
def srgb_to_linear(level, ref):
    c = level / 255.0
    if c <= ref["threshold"]:
        return c / ref["linear_divisor"]
    return ((c + ref["offset"]) / ref["scale"]) ** ref["gamma"]


def luma709(rgb):
    return 0.2126 * rgb[0] / 255.0 + 0.7152 * rgb[1] / 255.0 + 0.0722 * rgb[2] / 255.0


def unref(e):
    while isinstance(e, dict) and e.get("k") in ("ref", "paren", "try"):
        e = e["e"]
    return e


def array_lits(expr):
    """literal nodes of `&[..]` / `[..]`"""
    e = unref(expr)
    if e is None or e.get("k") != "array":
        return None
    out = []
    for x in e["elems"]:
        if x.get("k") != "lit":
            return None
        out.append(x)
    return out


def decimals(lit):
    v = str(lit["v"])
    return len(v.split(".")[1]) if "." in v and "e" not in v.lower() else 0


def linform(e):
    """linear form {var: coef, 1: const} of an integer expression built from + * literals and local names; None otherwise"""
    e = unref(e)
    k = e.get("k")
    if k == "lit" and e["t"] == "int":
        return {1: int(e["v"])}
    if k == "path" and "::" not in e["p"]:
        return {e["p"]: 1}
    if k == "cast":
        return linform(e["e"])
    if k == "bin" and e["op"] in ("+", "-"):
        a, b = linform(e["l"]), linform(e["r"])
        if a is None or b is None:
            return None
        out = dict(a)
        for kk, v in b.items():
            out[kk] = out.get(kk, 0) + (v if e["op"] == "+" else -v)
        return out
    if k == "bin" and e["op"] == "*":
        a, b = linform(e["l"]), linform(e["r"])
        if a is None or b is None:
            return None
        if set(a) == {1}:
            return {kk: v * a[1] for kk, v in b.items()}
        if set(b) == {1}:
            return {kk: v * b[1] for kk, v in a.items()}
        return None
    return None


def block_value(b):
    """trailing expression of a block (or the expression itself)"""
    if b is None:
        return None
    if b.get("k") == "block":
        st = b.get("stmts") or []
        if len(st) == 1 and st[0]["k"] == "expr" and not st[0].get("semi"):
            return block_value(st[0]["e"])
        return None
    return b


class Lets:
    """sequential let-bindings of one block with shadowing resolved: every reference is rendered as name#version"""

    def __init__(self, params):
        self.ver = {p: 0 for p in params}
        self.defs = {}      # "name#v" -> (init expr with resolved names, position in pattern or None, pattern)

    def r(self, e):
        env = {n: {"k": "path", "p": "%s#%d" % (n, v), "line": 0} for n, v in self.ver.items()}
        return subst(e, env)

    def text(self, e):
        return expr_text(self.r(e))

    def bind(self, pat, init):
        ri = self.r(init) if init is not None else None
        names = []
        if pat["k"] == "ident":
            names = [(pat["name"], None)]
        elif pat["k"] in ("slice", "tuple"):
            names = [(x["name"], i) for i, x in enumerate(pat["elems"]) if x["k"] == "ident"]
        else:
            names = [(n, None) for n in pat_names(pat)]
        for n, pos in names:
            self.ver[n] = self.ver.get(n, -1) + 1
            self.defs["%s#%d" % (n, self.ver[n])] = (ri, pos, pat)

    def cur(self, name):
        return "%s#%d" % (name, self.ver[name]) if name in self.ver else None

    def def_of(self, e):
        """(init, pos, pat) of the versioned name a resolved path expression refers to"""
        e = unref(e)
        if e.get("k") == "path":
            return self.defs.get(e["p"])
        return None


def role_prefix_table(match_item):
    """("match", scrutinee, arms) over SGRColorType -> {role: bytes}"""
    out = {}
    for pat, items in match_item[2]:
        role = pat_text(pat).split("::")[-1]
        if len(items) == 1 and items[0][0] == "push" and items[0][1] is not None:
            out[role] = items[0][1]
        else:
            out[role] = None
    return out


def depth_arms(src):
    r = src.fn("color_sgr_encode", file=ENC)
    if r is None:
        return None, None, None
    f, item = r
    params = [i["pat"]["name"] for i in item["sig"]["inputs"] if i.get("pat")]
    ms = [s["e"] for s in item["body"]["stmts"] if s["k"] == "expr" and strip_try(s["e"]).get("k") == "match"]
    arms = {}
    for m in ms:
        for arm in m["arms"]:
            pt = pat_text(arm["pat"])
            if pt.startswith("ColorDepth::"):
                arms[pt.split("::")[-1]] = arm["body"]
    return item, params, arms


def truecolor_template(src):
    """Shape of the true-colour arm of color_sgr_encode, shared with C06.
    -> dict(prefix={role: bytes}, selector=bytes, holes=[channel position in to_rgb() or None ...], fmts=[..], marks=bool,
            source=expr text of the destructured value, order_ok=bool, problems=[...], line=int)   or None if not found"""
    item, params, arms = depth_arms(src)
    if not arms or "TrueColor" not in arms:
        return None
    body = arms["TrueColor"]
    items = emissions(body)
    lets = Lets(params)
    t = {"prefix": {}, "selector": None, "holes": [], "fmts": [], "marks": True, "source": None, "problems": [], "line": body.get("line", 0),
         "seq": []}
    i = 0
    while i < len(items):
        it = items[i]
        kind = it[0]
        if kind == "let":
            lets.bind(it[1], it[2])
        elif kind == "match" and expr_text(it[1]) == "sgr_color_type":
            t["prefix"] = role_prefix_table(it)
            t["seq"].append("prefix")
        elif kind == "push":
            t["seq"].append("lit")
            if t["selector"] is None:
                t["selector"] = it[1]
            else:
                t["problems"].append("extra literal chunk")
        elif kind == "write":
            t["seq"].append("hole")
            t["fmts"].append(it[1])
            pos = None
            src_txt = None
            if len(it[2]) == 1:
                d = lets.def_of(lets.r(it[2][0]))
                if d is not None and d[1] is not None and d[2]["k"] == "slice" and len(d[2]["elems"]) == 3:
                    pos = d[1]
                    src_txt = expr_text(d[0])
            t["holes"].append(pos)
            if src_txt is not None:
                if t["source"] is None:
                    t["source"] = src_txt
                elif t["source"] != src_txt:
                    t["problems"].append("holes come from different values")
            if not (i + 1 < len(items) and items[i + 1][0] == "mark"):
                t["marks"] = False
        elif kind == "mark":
            pass
        else:
            t["problems"].append("unexpected statement: %s" % kind)
        i += 1
    t["order_ok"] = t["seq"] == ["prefix", "lit", "hole", "hole", "hole"]
    t["color_param"] = params[1] if len(params) > 1 else None
    return t


# ----------------------------------------------------------------------------------------- run
def run(ctx):
    src = ctx.src
    ref = json.load(open(REFS))
    lay = ref["layout"]
    ctx.explanation = (
        "Decides table/shape clauses of C20 from src.json: (a) encoder f32 CUBE/GREYS = sRGB->linear of the xterm levels to the printed "
        "digits, strictly increasing, decoder integer tables = the xterm levels; (b) index arithmetic 16+36r+6g+b and 232+i with the "
        "variables bound to nearest(channel, CUBE) in channel order / nearest(mean, GREYS), ranges inside 16..231 and 232..255, decoder "
        "inverse layout; (c) `nearest`: comparator direction, Ok arm, and the Err arm evaluated for every table and insertion point against "
        "argmin |v - vs[i]|; tie direction recorded; (d) cube/grey choice compares color.distance of both candidates built from the same "
        "indices and picks the layout of the smaller; (e) grey depth thresholds/codes/+10/underline; (f) true-colour holes. NOT decided: "
        "f32 rounding at midpoints, translucent colours (premultiplied channels vs un-multiplied distance), dependency code (luma, distance).")
    ctx.assume("face colours reaching the encoder are opaque (alpha = 255): rasterize's LinColor::from premultiplies alpha while LinColor::distance un-multiplies; that code is outside the extracted facts")
    ctx.assume("rasterize::srgb_to_linear is the IEC 61966-2-1 transfer function (read once in rasterize-0.6.9/src/color.rs; not part of /repo)")
    ctx.extra["argument"] = ("the cube is a product of one sorted table per channel, so per-channel nearest minimises each squared term of the "
                             "Euclidean distance independently; for a grey (t,t,t) the squared distance is 3(t-mean)^2 + const, so nearest to the "
                             "channel mean minimises it; rule GREY-VS-CUBE then takes the smaller of the two minima")
    all_finite = True

    # ---------------- (a) tables -----------------------------------------------------------------------------
    ctx.rule("TABLE-LINEAR", "encoder f32 CUBE/GREYS = sRGB->linear(xterm level) to printed digits (<= 6), lengths 6/24, strictly increasing", floor=32)
    ctx.rule("TABLE-DECODER", "decoder u8 CUBE/GREYS = xterm cube levels / grey ramp, entry by entry", floor=30)
    enc_tables = {}
    for name, refkey in (("CUBE", "cube_levels"), ("GREYS", "grey_levels")):
        levels = ref[refkey]["values"]
        c = src.const(name, file=ENC)
        lits = array_lits(c[1]["expr"]) if c else None
        if lits is None or any(l["t"] not in ("float", "int") for l in lits):
            ctx.anchor("TABLE-LINEAR", "encoder::" + name)
            all_finite = False
        else:
            vals = [float(l["v"]) for l in lits]
            enc_tables[name] = vals
            site = ["%s:%d" % (ENC, c[1]["line"])]
            if len(vals) != len(levels):
                ctx.violation("TABLE-LINEAR", "encoder::" + name, "length", "%s has %d entries, xterm has %d levels" % (name, len(vals), len(levels)), sites=site)
            for i, (l, v) in enumerate(zip(lits, vals)):
                if i >= len(levels):
                    break
                exact = srgb_to_linear(levels[i], ref["srgb_transfer"])
                nd = max(decimals(l), 1)
                ok = nd <= 6 and abs(v - exact) <= 0.5 * 10 ** (-6) * (1 + 1e-6) and abs(round(exact, 6) - v) < 1e-9
                ctx.instance("TABLE-LINEAR", {"table": name, "i": i, "level": levels[i], "literal": l["v"], "srgb_to_linear": round(exact, 9)})
                if not ok:
                    ctx.violation("TABLE-LINEAR", "encoder::" + name, "entry-%d" % i,
                                  "%s[%d] = %s but sRGB->linear(%d/255) = %.7f (xterm level %d)" % (name, i, l["v"], levels[i], exact, levels[i]), sites=site)
            inc = all(a < b for a, b in zip(vals, vals[1:]))
            ctx.instance("TABLE-LINEAR", {"table": name, "strictly_increasing": inc})
            if not inc:
                ctx.violation("TABLE-LINEAR", "encoder::" + name, "not-increasing",
                              "%s is not strictly increasing: binary_search_by in `nearest` requires a sorted table" % name, sites=site)
        d = src.const(name, file=DEC)
        dl = array_lits(d[1]["expr"]) if d else None
        if dl is None or any(l["t"] != "int" for l in dl):
            ctx.anchor("TABLE-DECODER", "decoder::" + name)
            all_finite = False
        else:
            dv = [int(l["v"]) for l in dl]
            site = ["%s:%d" % (DEC, d[1]["line"])]
            if len(dv) != len(levels):
                ctx.violation("TABLE-DECODER", "decoder::" + name, "length", "%s has %d entries, xterm has %d" % (name, len(dv), len(levels)), sites=site)
            for i, v in enumerate(dv[:len(levels)]):
                ctx.instance("TABLE-DECODER", {"table": name, "i": i, "value": v, "xterm": levels[i]})
                if v != levels[i]:
                    ctx.violation("TABLE-DECODER", "decoder::" + name, "entry-%d" % i, "decoder %s[%d] = %d, xterm level is %d" % (name, i, v, levels[i]), sites=site)

    # ---------------- (c) nearest ------------------------------------------------------------------------------
    ctx.rule("NEAREST", "`nearest`: comparator `c.partial_cmp(&v)`, Ok(i) => i, Err(i) arm = argmin |v - vs[j]| for every table and insertion point", floor=38)
    nf = src.fn("nearest", file=ENC)
    grey_thresholds = None
    item, params, arms = depth_arms(src)
    if nf is None:
        ctx.anchor("NEAREST", "encoder::nearest")
        all_finite = False
    else:
        nitem = nf[1]
        nsite = ["%s:%d" % (ENC, nitem["line"])]
        pn = [i["pat"]["name"] for i in nitem["sig"]["inputs"]]
        mv = block_value(nitem["body"])
        scr = mv["e"] if mv is not None and mv.get("k") == "match" else None
        shape_ok = False
        if scr is not None and len(pn) == 2 and scr.get("k") == "mcall" and scr["m"] == "binary_search_by" and expr_text(scr["recv"]) == pn[1] \
                and len(scr["args"]) == 1 and scr["args"][0]["k"] == "closure" and len(scr["args"][0]["params"]) == 1:
            cl = scr["args"][0]
            cp = pat_names(cl["params"][0])
            b = block_value(cl["body"])
            if b is not None and b.get("k") == "mcall" and b["m"] in ("unwrap", "expect") and b["recv"].get("k") == "mcall" \
                    and b["recv"]["m"] == "partial_cmp" and len(cp) == 1:
                inner = b["recv"]
                shape_ok = expr_text(unref(inner["recv"])) == cp[0] and len(inner["args"]) == 1 and expr_text(unref(inner["args"][0])) == pn[0]
        ctx.instance("NEAREST", {"comparator": expr_text(scr["args"][0]) if scr and scr.get("args") else None, "element_vs_probe": shape_ok})
        if scr is None:
            ctx.anchor("NEAREST", "match-on-binary_search_by")
            all_finite = False
        elif not shape_ok:
            ctx.violation("NEAREST", "encoder::nearest", "comparator",
                          "binary_search_by comparator is not `|c| c.partial_cmp(&%s).unwrap()` (element compared to the probe); a reversed or different "
                          "comparator breaks the search on an increasing table" % pn[0], sites=nsite)
        if scr is not None:
            it = Interp(src)
            tables = dict(enc_tables)
            # grey thresholds literal from the Gray arm
            if arms and "Gray" in arms:
                for c in find_all(arms["Gray"], lambda n: n.get("k") == "call" and n["f"].get("k") == "path" and n["f"]["p"] == "nearest"):
                    al = array_lits(c["args"][1]) if len(c["args"]) == 2 else None
                    if al:
                        grey_thresholds = [float(x["v"]) for x in al]
                        tables["gray-thresholds"] = grey_thresholds
            tables["tie-probe"] = [0.0, 1.0]

            def run_arm(tag, k, v, vs):
                fr = Frame({pn[0]: v, pn[1]: list(vs)}, None, ENC)
                return it.match_value(mv, (tag, k), fr)

            reported = set()
            for tname, vs in tables.items():
                n = len(vs)
                if not all(a < b for a, b in zip(vs, vs[1:])):
                    continue        # reported by TABLE-LINEAR / GREY-DEPTH; `nearest` has no meaning on an unsorted table
                for k in range(n):
                    try:
                        r = run_arm("Ok", k, vs[k], vs)
                    except Unsupported as ex:
                        r = "not evaluable (%s)" % ex
                    if r != k and "ok-arm" not in reported:
                        reported.add("ok-arm")
                        ctx.violation("NEAREST", "encoder::nearest", "ok-arm", "Ok(%d) on table %s returns %r instead of %d" % (k, tname, r, k), sites=nsite)
                if tname == "tie-probe":
                    try:
                        r = run_arm("Err", 1, 0.5, vs)
                        ctx.note("nearest: a probe exactly between two entries goes to the %s neighbour (read off the Err arm on table [0,1], v=0.5)" % ("upper" if r == 1 else "lower"))
                        ctx.extra["nearest_ties"] = "upper" if r == 1 else "lower"
                    except Unsupported:
                        pass
                    continue
                for k in range(n + 1):
                    if k == 0:
                        probes = [vs[0] - 1.0, vs[0] - 1e-6]
                        shape = "lower-edge"
                    elif k == n:
                        probes = [vs[-1] + 1e-6, vs[-1] + 1.0]
                        shape = "upper-edge"
                    else:
                        lo, hi = vs[k - 1], vs[k]
                        probes = [lo + f * (hi - lo) for f in (0.01, 0.25, 0.49, 0.51, 0.75, 0.99)]
                        shape = "interior"
                    bad = None
                    for v in probes:
                        want = min(range(n), key=lambda j: abs(v - vs[j]))
                        try:
                            r = run_arm("Err", k, v, vs)
                        except Unsupported as ex:
                            r = "not evaluable (%s)" % ex
                        if r != want:
                            bad = (v, r, want)
                            break
                    ctx.instance("NEAREST", {"table": tname, "insertion_point": k, "probes": len(probes), "ok": bad is None})
                    if bad is not None and shape not in reported:
                        reported.add(shape)
                        ctx.violation("NEAREST", "encoder::nearest", shape,
                                      "Err(%d) on table %s with v=%.6f returns %s but the closest entry is index %d (%.6f)" % (k, tname, bad[0], bad[1], bad[2], vs[bad[2]]),
                                      sites=nsite, detail={"table": tname, "vs": vs, "v": bad[0], "got": str(bad[1]), "want": bad[2]})
            ctx.extra["nearest_eval_steps"] = it.steps

    # ---------------- arms of color_sgr_encode ---------------------------------------------------------------
    ctx.rule("INDEX-LAYOUT", "EightBit: index = 16+36r+6g+b / 232+i over nearest() indices bound to the matching channels, in range; decoder inverse layout", floor=7)
    ctx.rule("GREY-VS-CUBE", "EightBit: the choice compares color.distance(grey candidate) with color.distance(cube candidate) built from the same indices", floor=4)
    ctx.rule("GREY-DEPTH", "Gray: increasing thresholds, codes 30/90/37/97 of increasing reference luminance, +10 background, nothing for underline", floor=7)
    ctx.rule("TRUECOLOR", "TrueColor: <role prefix>;2;r;g;b with r,g,b the to_rgb() channels in order, one chunk each, plain {}", floor=5)
    if not arms or not all(a in arms for a in ("TrueColor", "EightBit", "Gray")):
        for r in ("INDEX-LAYOUT", "GREY-VS-CUBE", "GREY-DEPTH", "TRUECOLOR"):
            ctx.anchor(r, "color_sgr_encode-depth-arms")
        ctx.exhaustive = False
        return
    fsite = ["%s:%d" % (ENC, item["line"])]
    color_param = params[1]
    roles = ref["sgr_colour_params"]["role_prefix"]

    # ----- (b) + (d) EightBit
    eb = arms["EightBit"]
    items = emissions(eb)
    lets = Lets(params)
    cube_idx = {}       # versioned var -> channel position
    grey_idx = {}       # versioned var -> mean-ok bool
    chan = {}           # versioned channel var -> position
    lin_name = None
    cands = {}          # versioned var -> ("cube", [idx vars]) / ("grey", idxvar)
    index_if = None
    tail = []
    for it_ in items:
        kind = it_[0]
        if kind == "let":
            pat, init = it_[1], it_[2]
            rinit = lets.r(init)
            u = unref(rinit)
            is_index_if = u.get("k") == "if" and index_if is None
            lets.bind(pat, init)
            if pat["k"] == "slice" and u.get("k") == "mcall" and u["m"] == "into":
                srcv = unref(u["recv"])
                d = lets.defs.get(srcv.get("p")) if srcv.get("k") == "path" else None
                if d is not None and d[0] is not None and unref(d[0]).get("k") == "call" and unref(d[0])["f"].get("p") == "LinColor::from" \
                        and expr_text(unref(d[0])["args"][0]) == color_param + "#0":
                    lin_name = srcv["p"]
                    for i, x in enumerate(pat["elems"][:3]):
                        if x["k"] == "ident":
                            chan[lets.cur(x["name"])] = i
            elif pat["k"] == "ident" and u.get("k") == "call" and u["f"].get("p") == "nearest" and len(u["args"]) == 2:
                tbl = expr_text(unref(u["args"][1]))
                a0 = unref(u["args"][0])
                if tbl == "CUBE" and a0.get("k") == "path" and a0["p"] in chan:
                    cube_idx[lets.cur(pat["name"])] = chan[a0["p"]]
                elif tbl == "GREYS":
                    ok = False
                    if a0.get("k") == "bin" and a0["op"] == "/" and unref(a0["r"]).get("k") == "lit" and float(unref(a0["r"])["v"]) == 3.0:
                        cnt = {}

                        def add(e):
                            e = unref(e)
                            if e.get("k") == "bin" and e["op"] == "+":
                                return add(e["l"]) and add(e["r"])
                            if e.get("k") == "path":
                                cnt[e["p"]] = cnt.get(e["p"], 0) + 1
                                return True
                            return False
                        ok = add(a0["l"]) and len(chan) == 3 and cnt == {c: 1 for c in chan}
                    grey_idx[lets.cur(pat["name"])] = ok
            elif pat["k"] == "ident" and u.get("k") == "call" and u["f"].get("p") == "LinColor::new" and len(u["args"]) == 4:
                comps = []
                for a in u["args"][:3]:
                    a = unref(a)
                    if a.get("k") == "index":
                        comps.append((expr_text(unref(a["e"])), expr_text(unref(a["i"]))))
                    else:
                        comps.append((None, expr_text(a)))
                alpha = unref(u["args"][3])
                a_ok = alpha.get("k") == "lit" and float(alpha["v"]) == 1.0
                if all(t == "CUBE" for t, _ in comps):
                    cands[lets.cur(pat["name"])] = ("cube", [i for _, i in comps], a_ok)
                elif all(t == "GREYS" for t, _ in comps):
                    cands[lets.cur(pat["name"])] = ("grey", [i for _, i in comps], a_ok)
                else:
                    cands[lets.cur(pat["name"])] = ("mixed", comps, a_ok)
            elif is_index_if and pat["k"] == "ident":
                index_if = (lets.cur(pat["name"]), u)
        else:
            tail.append(it_)

    ok_chan = lin_name is not None and sorted(chan.values()) == [0, 1, 2]
    ctx.instance("INDEX-LAYOUT", {"channels": chan, "linear_colour": lin_name, "from": "LinColor::from(%s)" % color_param, "ok": ok_chan})
    if not ok_chan:
        ctx.anchor("INDEX-LAYOUT", "EightBit-channel-destructure", "cannot find `let [r, g, b, _] = <LinColor::from(%s)>.into()` in the EightBit arm" % color_param)
    by_pos = {pos: v for v, pos in cube_idx.items()}
    ok_cube = sorted(cube_idx.values()) == [0, 1, 2] and len(cube_idx) == 3
    ctx.instance("INDEX-LAYOUT", {"cube_indices": cube_idx, "grey_index": grey_idx})
    if not ok_cube:
        ctx.violation("INDEX-LAYOUT", FN, "cube-index-channels",
                      "the three nearest(.., CUBE) indices are not taken from the red, green and blue channel once each: %s" % cube_idx, sites=fsite)
    if len(grey_idx) != 1 or not list(grey_idx.values())[0]:
        ctx.violation("INDEX-LAYOUT", FN, "grey-index-mean",
                      "the grey index is not nearest((r + g + b) / 3.0, GREYS) over the three channels", sites=fsite)
    gvar = list(grey_idx)[0] if len(grey_idx) == 1 else None

    if index_if is None:
        ctx.anchor("INDEX-LAYOUT", "EightBit-index-if")
        ctx.anchor("GREY-VS-CUBE", "EightBit-index-if")
    else:
        idx_var, ife = index_if
        cond = unref(ife["cond"])
        then_f = linform(block_value(ife["then"])) if block_value(ife["then"]) is not None else None
        else_f = linform(block_value(ife.get("else"))) if block_value(ife.get("else")) is not None else None
        want_grey = {gvar: 1, 1: lay["grey_base"]} if gvar else None
        want_cube = {by_pos.get(0): lay["stride_red"], by_pos.get(1): lay["stride_green"], by_pos.get(2): lay["stride_blue"], 1: lay["cube_base"]} if ok_cube else None

        def classify(f):
            if f is None:
                return None
            if want_grey is not None and f == want_grey:
                return "grey"
            if want_cube is not None and f == want_cube:
                return "cube"
            return "other"
        tk, ek = classify(then_f), classify(else_f)
        # which side of the comparison is which candidate
        sides = []
        recvs = []
        if cond.get("k") == "bin" and cond["op"] in ("<", "<=", ">", ">="):
            for side in (cond["l"], cond["r"]):
                s = unref(side)
                if s.get("k") == "mcall" and s["m"] == "distance" and len(s["args"]) == 1:
                    recvs.append(expr_text(unref(s["recv"])))
                    a = unref(s["args"][0])
                    c = cands.get(a.get("p")) if a.get("k") == "path" else None
                    if c is None and a.get("k") == "call" and a["f"].get("p") == "LinColor::new":
                        c = ("inline", [], False)
                    sides.append(c)
                else:
                    sides.append(None)
                    recvs.append(None)
        ctx.instance("GREY-VS-CUBE", {"cond": expr_text(cond), "sides": [s[0] if s else None for s in sides], "receivers": recvs})
        cond_ok = len(sides) == 2 and all(s is not None for s in sides) and {sides[0][0], sides[1][0]} == {"grey", "cube"}
        if not cond_ok:
            ctx.violation("GREY-VS-CUBE", FN, "condition",
                          "the cube/grey decision `%s` does not compare distance(grey candidate) with distance(cube candidate)" % expr_text(cond), sites=fsite)
        recv_ok = len(recvs) == 2 and recvs[0] == recvs[1] == lin_name and lin_name is not None
        ctx.instance("GREY-VS-CUBE", {"receiver_is_requested_colour": recv_ok})
        if not recv_ok:
            ctx.violation("GREY-VS-CUBE", FN, "receiver", "both distances must be measured from the requested colour (%s); receivers are %s" % (lin_name, recvs), sites=fsite)
        # candidates built from the same indices
        for cv, (ckind, idxs, a_ok) in sorted(cands.items()):
            if ckind == "cube":
                good = ok_cube and idxs == [by_pos[0], by_pos[1], by_pos[2]] and a_ok
            elif ckind == "grey":
                good = gvar is not None and idxs == [gvar] * 3 and a_ok
            else:
                good = False
            ctx.instance("GREY-VS-CUBE", {"candidate": cv, "kind": ckind, "indices": idxs, "ok": good})
            if not good:
                ctx.violation("GREY-VS-CUBE", FN, "candidate-" + ckind,
                              "candidate colour %s is not LinColor::new of the table entries at the chosen indices in channel order with alpha 1.0: %s" % (cv.split("#")[0], idxs), sites=fsite)
        if cond_ok:
            left_kind = sides[0][0]
            smaller_left = cond["op"] in ("<", "<=")
            then_should = left_kind if smaller_left else sides[1][0]
            else_should = "cube" if then_should == "grey" else "grey"
            ctx.extra["grey_cube_ties"] = "ties go to the %s" % (else_should if cond["op"] in ("<", ">") else then_should)
            ctx.instance("INDEX-LAYOUT", {"then": then_f and {str(k): v for k, v in then_f.items()}, "else": else_f and {str(k): v for k, v in else_f.items()}, "then_is": tk, "else_is": ek})
            if tk == "other" or tk is None or ek == "other" or ek is None:
                which = "grey" if (then_should == "grey") == (tk in ("other", None)) else "cube"
                ctx.violation("INDEX-LAYOUT", FN, "index-" + which,
                              "palette index expression is not the xterm layout (%d + %d*r + %d*g + b / %d + i over the nearest() indices): then=%s else=%s"
                              % (lay["cube_base"], lay["stride_red"], lay["stride_green"], lay["grey_base"], expr_text(block_value(ife["then"])), expr_text(block_value(ife.get("else")))), sites=fsite)
            elif (tk, ek) != (then_should, else_should):
                ctx.violation("GREY-VS-CUBE", FN, "branches-swapped",
                              "when %s is closer the %s index is emitted" % (then_should, tk), sites=fsite)
            # ranges
            n_c, n_g = len(ref["cube_levels"]["values"]), len(ref["grey_levels"]["values"])
            enc_nc, enc_ng = len(enc_tables.get("CUBE", [])), len(enc_tables.get("GREYS", []))
            for f, kind, nidx, lo, hi in ((then_f if tk == "cube" else else_f, "cube", enc_nc, lay["cube_base"], lay["grey_base"] - 1),
                                          (then_f if tk == "grey" else else_f, "grey", enc_ng, lay["grey_base"], lay["palette_size"] - 1)):
                if f is None or classify(f) != kind or nidx == 0:
                    continue
                mx = f.get(1, 0) + sum(v * (nidx - 1) for k2, v in f.items() if k2 != 1)
                mn = f.get(1, 0)
                ctx.instance("INDEX-LAYOUT", {"range": kind, "min": mn, "max": mx, "allowed": [lo, hi]})
                if mn != lo or mx != hi:
                    ctx.violation("INDEX-LAYOUT", FN, "range-" + kind, "%s indices span %d..%d, xterm %s entries are %d..%d" % (kind, mn, mx, kind, lo, hi), sites=fsite)
        # template tail: prefix match, push "5", write index, mark
        seq = []
        pref = {}
        hole = None
        for t in tail:
            if t[0] == "match" and expr_text(t[1]) == "sgr_color_type":
                pref = role_prefix_table(t)
                seq.append("prefix")
            elif t[0] == "push":
                seq.append(("lit", t[1]))
            elif t[0] == "write":
                seq.append("hole")
                hole = (t[1], [expr_text(lets.r(a)) for a in t[2]])
            elif t[0] == "mark":
                seq.append("mark")
            else:
                seq.append(t[0])
        want_seq = ["prefix", ("lit", str(ref["sgr_colour_params"]["selector_indexed"]).encode()), "hole", "mark"]
        pref_ok = all(pref.get(r) == str(c).encode() for r, c in roles.items()) and len(pref) == len(roles)
        tmpl_ok = seq == want_seq and hole is not None and hole[0] == "{}" and hole[1] == [idx_var] and pref_ok
        ctx.instance("INDEX-LAYOUT", {"template": [s if isinstance(s, str) else s[1].decode() for s in seq], "hole": hole, "prefix": {k: (v.decode() if v else None) for k, v in pref.items()}})
        if not tmpl_ok:
            ctx.violation("INDEX-LAYOUT", FN, "eightbit-template", "EightBit arm does not emit <38|48|58>;5;<index> with the computed index as its own chunk: %s hole=%s" % (seq, hole), sites=fsite)

    # decoder inverse layout
    sc = src.fn("sgr_color", file=DEC)
    if sc is None:
        ctx.anchor("INDEX-LAYOUT", "decoder::sgr_color")
    else:
        dsite = ["%s:%d" % (DEC, sc[1]["line"])]
        ifs = [n for n in find_all(sc[1]["body"], lambda n: n.get("k") == "if" and n["cond"].get("k") == "bin" and n["cond"]["op"] == "<" and lit_int(n["cond"]["r"]) is not None)]
        th = [lit_int(n["cond"]["r"]) for n in ifs]
        want_th = [lay["system_count"], lay["grey_base"], lay["palette_size"]]
        ok_th = th == want_th
        consts = {}
        if ok_th:
            cube_blk = ifs[1]["then"]
            consts["cube"] = [lit_int(n) for n in find_all(cube_blk, lambda n: n.get("k") == "lit" and n["t"] == "int")]
            grey_blk = ifs[2]["then"]
            consts["grey"] = [lit_int(n) for n in find_all(grey_blk, lambda n: n.get("k") == "lit" and n["t"] == "int")]
            # evaluate the cube branch denotationally for every index 16..231 and the grey branch for 232..255
            it2 = Interp(src)
            it2.extern_fns["RGBA::new"] = lambda args: ("RGBA",) + tuple(args)
            bad = None
            body_if = ifs[0]
            for idx in range(0, lay["palette_size"]):
                try:
                    r = it2.eval(body_if, Frame({"index": idx}, None, DEC))
                except Unsupported as ex:
                    bad = (idx, "not evaluable: %s" % ex)
                    break
                if idx < lay["system_count"]:
                    continue
                if idx < lay["grey_base"]:
                    j = idx - lay["cube_base"]
                    lv = ref["cube_levels"]["values"]
                    want = ("Some", ("RGBA", lv[j // 36], lv[(j // 6) % 6], lv[j % 6], 255))
                else:
                    g = ref["grey_levels"]["values"][idx - lay["grey_base"]]
                    want = ("Some", ("RGBA", g, g, g, 255))
                if r != want:
                    bad = (idx, "%r, expected %r" % (r, want))
                    break
            ctx.instance("INDEX-LAYOUT", {"decoder_thresholds": th, "palette_entries_evaluated": lay["palette_size"] - lay["system_count"], "ok": bad is None})
            if bad is not None:
                ctx.violation("INDEX-LAYOUT", "decoder::sgr_color", "inverse-layout", "palette index %d decodes to %s" % bad, sites=dsite)
        else:
            ctx.instance("INDEX-LAYOUT", {"decoder_thresholds": th})
            ctx.violation("INDEX-LAYOUT", "decoder::sgr_color", "thresholds", "palette ranges are split at %s, xterm layout is %s" % (th, want_th), sites=dsite)

    # ----- (e) Gray
    gitems = emissions(arms["Gray"])
    glets = Lets(params)
    luma_var = None
    level_codes = None
    th_vals = None
    role_map = None
    wrote_before_role = False
    hole = None
    gseq = []
    level_var = None
    out_var = None
    for it_ in gitems:
        if it_[0] == "let":
            pat, init = it_[1], it_[2]
            u = unref(glets.r(init))
            glets.bind(pat, init)
            if pat["k"] != "ident":
                continue
            cur = glets.cur(pat["name"])
            if u.get("k") == "mcall" and u["m"] == "luma" and expr_text(unref(u["recv"])) == color_param + "#0":
                luma_var = cur
            elif u.get("k") == "match" and unref(u["e"]).get("k") == "call" and unref(u["e"])["f"].get("p") == "nearest":
                c = unref(u["e"])
                al = array_lits(c["args"][1]) if len(c["args"]) == 2 else None
                th_vals = [float(x["v"]) for x in al] if al else None
                probe = expr_text(unref(c["args"][0]))
                codes = {}
                wild = None
                for arm in u["arms"]:
                    bv = lit_int(block_value(arm["body"]) or {})
                    if arm["pat"]["k"] == "lit":
                        codes[lit_int(arm["pat"]["e"])] = bv
                    elif arm["pat"]["k"] == "wild":
                        wild = bv
                    else:
                        codes = None
                        break
                if codes is not None and th_vals:
                    n = len(th_vals)
                    level_codes = [codes.get(i) if i in codes else (wild if i >= len(codes) else None) for i in range(n)]
                    if sorted(codes) != list(range(len(codes))) or len(codes) + (1 if wild is not None else 0) < n or len(codes) > n:
                        level_codes = None
                level_var = cur
                if probe != luma_var:
                    luma_var = None
            elif u.get("k") == "match" and expr_text(unref(u["e"])) == params[3] + "#0":
                role_map = {}
                for arm in u["arms"]:
                    role_map[pat_text(arm["pat"]).split("::")[-1]] = arm["body"]
                out_var = cur
                wrote_before_role = any(s in ("hole", "lit") for s in gseq)
        elif it_[0] == "write":
            gseq.append("hole")
            hole = (it_[1], [expr_text(glets.r(a)) for a in it_[2]])
        elif it_[0] == "push":
            gseq.append("lit")
        elif it_[0] == "mark":
            gseq.append("mark")
        else:
            gseq.append(it_[0])

    ctx.instance("GREY-DEPTH", {"thresholds": th_vals, "probe_is_luma_of_colour": luma_var is not None})
    if th_vals is None or level_codes is None or role_map is None:
        ctx.anchor("GREY-DEPTH", "Gray-arm-shape", "Gray arm is not `match nearest(luma, &[..]) {i => code}` followed by `match sgr_color_type {..}`")
    else:
        if luma_var is None:
            ctx.violation("GREY-DEPTH", FN, "probe", "the level is not selected by nearest(%s.luma(), thresholds)" % color_param, sites=fsite)
        inc = all(a < b for a, b in zip(th_vals, th_vals[1:]))
        if not inc:
            ctx.violation("GREY-DEPTH", FN, "thresholds-not-increasing", "grey thresholds %s are not strictly increasing (binary search precondition, monotone level)" % th_vals, sites=fsite)
        ctx.instance("GREY-DEPTH", {"levels": len(th_vals), "codes": level_codes})
        if len(th_vals) != 4:
            ctx.violation("GREY-DEPTH", FN, "levels", "%d grey levels, four are available (black, bright black, white, bright white)" % len(th_vals), sites=fsite)
        sp = ref["sgr_colour_params"]
        sys16 = ref["system16_xterm_default"]["values"]

        def pal(code, normal, bright):
            if code is None:
                return None
            if normal <= code < normal + 8:
                return code - normal
            if bright <= code < bright + 8:
                return code - bright + 8
            return None
        pidx = [pal(c, sp["fg_normal_base"], sp["fg_bright_base"]) for c in level_codes]
        lum = [luma709(sys16[p]) if p is not None else None for p in pidx]
        grey_only = all(p is not None and len(set(sys16[p])) == 1 for p in pidx)
        mono = all(l is not None for l in lum) and all(a < b for a, b in zip(lum, lum[1:]))
        ctx.instance("GREY-DEPTH", {"palette_entries": pidx, "reference_luma": [round(l, 4) if l is not None else None for l in lum], "increasing": mono, "achromatic": grey_only})
        if not mono or not grey_only:
            ctx.violation("GREY-DEPTH", FN, "codes-not-monotone",
                          "level codes %s select palette entries %s whose reference luminance %s is not strictly increasing over achromatic entries"
                          % (level_codes, pidx, [round(l, 3) if l is not None else None for l in lum]), sites=fsite)
        # role handling
        lv = level_var
        fgb = block_value(role_map.get("Foreground"))
        fg_ok = fgb is not None and fgb.get("k") == "path" and fgb["p"] == lv
        ctx.instance("GREY-DEPTH", {"foreground": expr_text(fgb) if fgb else None, "ok": fg_ok})
        if not fg_ok:
            ctx.violation("GREY-DEPTH", FN, "foreground", "foreground does not emit the level code unchanged", sites=fsite)
        bgb = block_value(role_map.get("Background"))
        bf = linform(bgb) if bgb is not None else None
        off = sp["bg_normal_base"] - sp["fg_normal_base"]
        bg_ok = bf == {lv: 1, 1: off} and off == sp["bg_bright_base"] - sp["fg_bright_base"]
        ctx.instance("GREY-DEPTH", {"background": expr_text(bgb) if bgb else None, "offset": off, "ok": bg_ok})
        if not bg_ok:
            ctx.violation("GREY-DEPTH", FN, "background", "background code is not level code + %d (30-37 -> 40-47, 90-97 -> 100-107)" % off, sites=fsite)
        ub = role_map.get("Underline")
        ub = strip_try(ub) if ub else None
        u_ok = ub is not None and ub.get("k") == "return" and not wrote_before_role
        ctx.instance("GREY-DEPTH", {"underline": expr_text(ub) if ub else None, "emits_nothing": u_ok})
        if not u_ok:
            ctx.violation("GREY-DEPTH", FN, "underline", "underline colour must emit nothing in grey mode (return before any chunk is written)", sites=fsite)
        t_ok = gseq == ["hole", "mark"] and hole is not None and hole[0] == "{}" and hole[1] == [out_var]
        ctx.instance("GREY-DEPTH", {"template": gseq, "hole": hole, "ok": t_ok})
        if not t_ok:
            ctx.violation("GREY-DEPTH", FN, "template", "Gray arm does not write exactly the selected code as one chunk: %s %s" % (gseq, hole), sites=fsite)

    # ----- (f) TrueColor
    t = truecolor_template(src)
    if t is None:
        ctx.anchor("TRUECOLOR", "TrueColor-arm")
    else:
        sp = ref["sgr_colour_params"]
        for role, code in roles.items():
            got = t["prefix"].get(role)
            ctx.instance("TRUECOLOR", {"role": role, "prefix": got.decode() if got else None, "reference": code})
            if got != str(code).encode():
                ctx.violation("TRUECOLOR", FN, "prefix-" + role, "%s colour is introduced by %r, SGR uses %d" % (role, got, code), sites=fsite)
        sel_ok = t["selector"] == str(sp["selector_direct"]).encode()
        ctx.instance("TRUECOLOR", {"selector": t["selector"].decode() if t["selector"] else None, "sequence": t["seq"]})
        if not sel_ok or not t["order_ok"] or t["problems"]:
            ctx.violation("TRUECOLOR", FN, "template", "true-colour form is not <prefix>;2;<r>;<g>;<b>: sequence %s selector %r %s" % (t["seq"], t["selector"], t["problems"]), sites=fsite)
        src_ok = t["source"] == "%s#0.to_rgb()" % color_param
        holes_ok = t["holes"] == [0, 1, 2] and src_ok
        ctx.instance("TRUECOLOR", {"holes": t["holes"], "source": t["source"], "formats": t["fmts"], "one_chunk_each": t["marks"]})
        if not holes_ok:
            ctx.violation("TRUECOLOR", FN, "channel-order",
                          "the three components written are to_rgb() positions %s of %s, expected [0, 1, 2] of %s.to_rgb() (red, green, blue unchanged)" % (t["holes"], t["source"], color_param), sites=fsite)
        if any(f != "{}" for f in t["fmts"]) or not t["marks"]:
            ctx.violation("TRUECOLOR", FN, "format", "components must be written with a plain {} as separate chunks: formats %s, marks %s" % (t["fmts"], t["marks"]), sites=fsite)

    ctx.exhaustive = all_finite
