"""C20 mutants: breaking edits (must be reported, still compile) and benign edits (must stay silent).
edits: (file, old text occurring exactly once, new text)."""
E = "src/encoder.rs"
D = "src/decoder.rs"

_EIGHT = """            let c_red = nearest(r, CUBE);
            let c_green = nearest(g, CUBE);
            let c_blue = nearest(b, CUBE);
            let c_color = LinColor::new(CUBE[c_red], CUBE[c_green], CUBE[c_blue], 1.0);

            // nearest grey color
            let g_index = nearest((r + g + b) / 3.0, GREYS);
            let g_color = LinColor::new(GREYS[g_index], GREYS[g_index], GREYS[g_index], 1.0);

            // pick grey or cube based on the distance
            let index = if color.distance(g_color) < color.distance(c_color) {
                232 + g_index
            } else {
                16 + 36 * c_red + 6 * c_green + c_blue
            };
"""
_EIGHT_RENAMED = """            let ri = nearest(r, CUBE);
            let gi = nearest(g, CUBE);
            let bi = nearest(b, CUBE);
            let cube_candidate = LinColor::new(CUBE[ri], CUBE[gi], CUBE[bi], 1.0);

            let ramp = nearest((r + g + b) / 3.0, GREYS);
            let grey_candidate = LinColor::new(GREYS[ramp], GREYS[ramp], GREYS[ramp], 1.0);

            let index = if color.distance(grey_candidate) < color.distance(cube_candidate) {
                232 + ramp
            } else {
                16 + 36 * ri + 6 * gi + bi
            };
"""
_EIGHT_REORDERED = """            // nearest grey color
            let g_index = nearest((b + g + r) / 3.0, GREYS);
            let g_color = LinColor::new(GREYS[g_index], GREYS[g_index], GREYS[g_index], 1.0);

            let c_blue = nearest(b, CUBE);
            let c_green = nearest(g, CUBE);
            let c_red = nearest(r, CUBE);
            let c_color = LinColor::new(CUBE[c_red], CUBE[c_green], CUBE[c_blue], 1.0);

            // pick grey or cube based on the distance
            let index = if color.distance(c_color) > color.distance(g_color) {
                g_index + 232
            } else {
                c_blue + 6 * c_green + c_red * 36 + 16
            };
"""
_NEAREST_ERR = """            if index == 0 {
                0
            } else if index >= vs.len() {
                vs.len() - 1
            } else if (v - vs[index - 1]) < (vs[index] - v) {
                index - 1
            } else {
                index
            }
"""

MUTANTS = [
    # ---- (a) tables
    {"id": "C20-cube-entry-changed", "prop": "C20", "expect": "TABLE-LINEAR/encoder::CUBE/entry-1",
     "edits": [(E, "&[0.0, 0.114435,", "&[0.0, 0.114535,")]},
    {"id": "C20-greys-entries-swapped", "prop": "C20", "expect": "TABLE-LINEAR/encoder::GREYS",
     "edits": [(E, "0.019382, 0.029557,", "0.029557, 0.019382,")]},
    {"id": "C20-cube-last-digit", "prop": "C20", "expect": "TABLE-LINEAR/encoder::CUBE/entry-4",
     "edits": [(E, "0.679542, 1.0];", "0.679544, 1.0];")]},
    {"id": "C20-decoder-cube-level", "prop": "C20", "expect": "TABLE-DECODER/decoder::CUBE/entry-1",
     "edits": [(D, "[0x00, 0x5f, 0x87,", "[0x00, 0x5e, 0x87,")]},
    {"id": "C20-decoder-grey-level", "prop": "C20", "expect": "TABLE-DECODER/decoder::GREYS",
     "edits": [(D, "0x08, 0x12, 0x1c,", "0x08, 0x13, 0x1c,")]},
    # ---- (b) index layout
    {"id": "C20-swap-36-6", "prop": "C20", "expect": "INDEX-LAYOUT/encoder::color_sgr_encode/index-cube",
     "edits": [(E, "16 + 36 * c_red + 6 * c_green + c_blue", "16 + 6 * c_red + 36 * c_green + c_blue")]},
    {"id": "C20-grey-base-231", "prop": "C20", "expect": "INDEX-LAYOUT/encoder::color_sgr_encode/index-grey",
     "edits": [(E, "                232 + g_index\n", "                231 + g_index\n")]},
    {"id": "C20-green-index-from-red", "prop": "C20", "expect": "INDEX-LAYOUT/encoder::color_sgr_encode/cube-index-channels",
     "edits": [(E, "let c_green = nearest(g, CUBE);", "let c_green = nearest(r, CUBE);")]},
    {"id": "C20-grey-mean-of-two", "prop": "C20", "expect": "INDEX-LAYOUT/encoder::color_sgr_encode/grey-index-mean",
     "edits": [(E, "nearest((r + g + b) / 3.0, GREYS)", "nearest((r + g) / 2.0, GREYS)")]},
    {"id": "C20-eightbit-selector-2", "prop": "C20", "expect": "INDEX-LAYOUT/encoder::color_sgr_encode/eightbit-template",
     "edits": [(E, '            chunks.push(b"5");\n', '            chunks.push(b"2");\n')]},
    {"id": "C20-decoder-green-div-5", "prop": "C20", "expect": "INDEX-LAYOUT/decoder::sgr_color/inverse-layout",
     "edits": [(D, "let gi = index / 6;", "let gi = index / 5;")]},
    {"id": "C20-decoder-grey-threshold", "prop": "C20", "expect": "INDEX-LAYOUT/decoder::sgr_color/thresholds",
     "edits": [(D, "} else if index < 232 {", "} else if index < 231 {")]},
    # ---- (c) nearest
    {"id": "C20-nearest-lower-neighbour-only", "prop": "C20", "expect": "NEAREST/encoder::nearest/interior",
     "edits": [(E, "} else if (v - vs[index - 1]) < (vs[index] - v) {", "} else if (v - vs[index - 1]) < 0.05 {")]},
    {"id": "C20-nearest-branches-swapped", "prop": "C20", "expect": "NEAREST/encoder::nearest/interior",
     "edits": [(E, "} else if (v - vs[index - 1]) < (vs[index] - v) {", "} else if (v - vs[index - 1]) > (vs[index] - v) {")]},
    {"id": "C20-nearest-upper-edge-unguarded", "prop": "C20", "expect": "NEAREST/encoder::nearest/upper-edge",
     "edits": [(E, "} else if index >= vs.len() {", "} else if index > vs.len() {")]},
    {"id": "C20-nearest-lower-edge-wrong", "prop": "C20", "expect": "NEAREST/encoder::nearest/lower-edge",
     "edits": [(E, "            if index == 0 {\n                0\n", "            if index == 0 {\n                1\n")]},
    {"id": "C20-nearest-ok-arm-off-by-one", "prop": "C20", "expect": "NEAREST/encoder::nearest/ok-arm",
     "edits": [(E, "        Ok(index) => index,\n        Err(index) => {\n            if index == 0 {", "        Ok(index) => index.saturating_sub(1),\n        Err(index) => {\n            if index == 0 {")]},
    {"id": "C20-nearest-comparator-reversed", "prop": "C20", "expect": "NEAREST/encoder::nearest/comparator",
     "edits": [(E, "|c| c.partial_cmp(&v).unwrap()", "|c| v.partial_cmp(c).unwrap()")]},
    # ---- (d) grey vs cube
    {"id": "C20-grey-distance-with-itself", "prop": "C20", "expect": "GREY-VS-CUBE/encoder::color_sgr_encode/condition",
     "edits": [(E, "color.distance(g_color) < color.distance(c_color)", "color.distance(g_color) < color.distance(g_color) + c_color.distance(c_color)")]},
    {"id": "C20-grey-cube-branches-swapped", "prop": "C20", "expect": "GREY-VS-CUBE/encoder::color_sgr_encode/branches-swapped",
     "edits": [(E, "color.distance(g_color) < color.distance(c_color)", "color.distance(g_color) > color.distance(c_color)")]},
    {"id": "C20-cube-candidate-channels-swapped", "prop": "C20", "expect": "GREY-VS-CUBE/encoder::color_sgr_encode/candidate-cube",
     "edits": [(E, "LinColor::new(CUBE[c_red], CUBE[c_green], CUBE[c_blue], 1.0)", "LinColor::new(CUBE[c_green], CUBE[c_red], CUBE[c_blue], 1.0)")]},
    {"id": "C20-distance-from-candidate", "prop": "C20", "expect": "GREY-VS-CUBE/encoder::color_sgr_encode/receiver",
     "edits": [(E, "color.distance(g_color) < color.distance(c_color)", "c_color.distance(g_color) < color.distance(c_color)")]},
    # ---- (e) grey depth
    {"id": "C20-grey-thresholds-swapped", "prop": "C20", "expect": "GREY-DEPTH/encoder::color_sgr_encode/thresholds-not-increasing",
     "edits": [(E, "&[0.0, 0.33, 0.66, 1.0]", "&[0.0, 0.66, 0.33, 1.0]")]},
    {"id": "C20-grey-codes-swapped", "prop": "C20", "expect": "GREY-DEPTH/encoder::color_sgr_encode/codes-not-monotone",
     "edits": [(E, "                1 => 90,\n                2 => 37,\n", "                1 => 37,\n                2 => 90,\n")]},
    {"id": "C20-grey-chromatic-code", "prop": "C20", "expect": "GREY-DEPTH/encoder::color_sgr_encode/codes-not-monotone",
     "edits": [(E, "                2 => 37,\n", "                2 => 36,\n")]},
    {"id": "C20-grey-background-offset", "prop": "C20", "expect": "GREY-DEPTH/encoder::color_sgr_encode/background",
     "edits": [(E, "SGRColorType::Background => index + 10,", "SGRColorType::Background => index + 60,")]},
    {"id": "C20-grey-underline-emits", "prop": "C20", "expect": "GREY-DEPTH/encoder::color_sgr_encode/underline",
     "edits": [(E, "SGRColorType::Underline => return Ok(()),", "SGRColorType::Underline => index,")]},
    {"id": "C20-grey-probe-not-luma", "prop": "C20", "expect": "GREY-DEPTH/encoder::color_sgr_encode/probe",
     "edits": [(E, "let luma = color.luma();", "let luma = 1.0 - color.luma();")]},
    # ---- (f) true colour
    {"id": "C20-truecolor-loop-order", "prop": "C20", "expect": "TRUECOLOR/encoder::color_sgr_encode/channel-order",
     "edits": [(E, "for c in [r, g, b] {", "for c in [b, g, r] {")]},
    {"id": "C20-truecolor-destructure-order", "prop": "C20", "expect": "TRUECOLOR/encoder::color_sgr_encode/channel-order",
     "edits": [(E, "let [r, g, b] = color.to_rgb();", "let [g, r, b] = color.to_rgb();")]},
    {"id": "C20-truecolor-hex-format", "prop": "C20", "expect": "TRUECOLOR/encoder::color_sgr_encode/format",
     "edits": [(E, '                write!(chunks, "{}", c)?;\n                chunks.mark();', '                write!(chunks, "{:x}", c)?;\n                chunks.mark();')]},
    {"id": "C20-truecolor-one-chunk", "prop": "C20", "expect": "TRUECOLOR/encoder::color_sgr_encode/format",
     "edits": [(E, '                write!(chunks, "{}", c)?;\n                chunks.mark();\n            }', '                write!(chunks, "{}", c)?;\n            }\n            chunks.mark();')]},
    {"id": "C20-truecolor-bg-prefix", "prop": "C20", "expect": "TRUECOLOR/encoder::color_sgr_encode/prefix-Background",
     "edits": [(E, '            let [r, g, b] = color.to_rgb();\n            match sgr_color_type {\n                SGRColorType::Foreground => chunks.push(b"38"),\n                SGRColorType::Background => chunks.push(b"48"),',
                '            let [r, g, b] = color.to_rgb();\n            match sgr_color_type {\n                SGRColorType::Foreground => chunks.push(b"38"),\n                SGRColorType::Background => chunks.push(b"38"),')]},
    # ---- benign
    {"id": "C20-benign-rename-locals", "prop": "C20", "benign": True, "edits": [(E, _EIGHT, _EIGHT_RENAMED)]},
    {"id": "C20-benign-reorder-and-mirror", "prop": "C20", "benign": True, "edits": [(E, _EIGHT, _EIGHT_REORDERED)]},
    {"id": "C20-benign-nearest-rename", "prop": "C20", "benign": True,
     "edits": [(E, "        Ok(index) => index,\n        Err(index) => {\n" + _NEAREST_ERR,
                "        Ok(found) => found,\n        Err(pos) => {\n" + _NEAREST_ERR.replace("index", "pos"))]},
    {"id": "C20-benign-trailing-zero", "prop": "C20", "benign": True,
     "edits": [(E, "0.242281, 0.42869, 0.679542", "0.242281, 0.428690, 0.679542")]},
    {"id": "C20-benign-role-arms-reordered", "prop": "C20", "benign": True,
     "edits": [(E, "                SGRColorType::Foreground => index,\n                SGRColorType::Background => index + 10,\n                SGRColorType::Underline => return Ok(()),\n",
                "                SGRColorType::Underline => return Ok(()),\n                SGRColorType::Background => 10 + index,\n                SGRColorType::Foreground => index,\n")]},
    {"id": "C20-benign-decoder-hex-to-decimal", "prop": "C20", "benign": True,
     "edits": [(D, "[0x00, 0x5f, 0x87, 0xaf, 0xd7, 0xff]", "[0, 95, 135, 175, 215, 255]")]},
]
