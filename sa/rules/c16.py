"""C16 — terminal output is delivered in order, exactly once; queue length = readable bytes.
Structural clauses (DESIGN §5 C16): COUPLED(IOQueue chunks->length, pop->offset=0), single tty
writer, consumed = written, frames_drop keeps the front chunk, poll flushes & loops while pending."""
import re
from ..mir import call_matches, callee_name, op_local, op_const_int, place_str
from ..flow import resolve_place, arg_place, origins, writes_to_field

REMOVERS = r"VecDeque::<T, A>::(pop_front|pop_back|drain|clear|truncate|retain|retain_mut|split_off|remove|swap_remove_back|swap_remove_front|append|extend|insert|push_front|push_back|resize|resize_with)$"
OPTION_REMOVERS = r"VecDeque::<T, A>::(pop_front|pop_back)$"
CHUNK_WRITERS = r"(impl std::io::Write for std::vec::Vec<u8, A>>::(write|write_all|write_vectored)|Vec::<T, A>::(extend_from_slice|push|append|insert|truncate|clear|drain|pop|resize|extend_from_within)|<std::vec::Vec<T, A> as std::iter::Extend<.*>>::extend)$"


CLAIM = {
    "text": "Static necessary conditions of in-order exactly-once delivery, decided on MIR for every path of the anchored functions: "
            "IOQueue content changes are coupled with `length`/`offset` updates, the tty is written only from poll's consume_with "
            "closure, the consumed amount is the tty write's return value, frames_drop keeps the chunk in flight, poll flushes first "
            "and loops while output is pending. Kernel schedules and chunk-granularity histories are not decided.",
    "technique": "MIR CFG/effect rules: coupled-update (path) analysis, who-may-call, value-origin dataflow, dominators",
    "design_ref": "DESIGN.md §5 C16",
}

def ioqueue_bodies(prog):
    return [b for b in prog.bodies if b.impl_self == "common::IOQueue" and b.kind == "AssocFn"]


def some_edge_block(body, bb, t):
    """for a call returning Option: the block entered when the result is Some (or None if the
    result is not matched right after)"""
    dest = t["dest"]
    nxt = t["t"]
    if nxt < 0:
        return None
    blk = body.blocks[nxt]
    for s in blk["stmts"]:
        if s["k"] == "assign" and s["rv"]["k"] == "discr" and s["rv"]["place"]["l"] == dest["l"]:
            tt = blk["term"]
            if tt["k"] == "switch" and op_local(tt["d"]) == s["place"]["l"]:
                for v, tg in zip(tt["vals"], tt["targets"]):
                    if v == "1":
                        return tg
    return None


def run(ctx):
    prog = ctx.prog
    ctx.explanation = (
        "Decides structural necessary conditions of C16 from MIR: (a) in every IOQueue method each operation that removes or adds "
        "bytes of `chunks` lies only on paths that also assign `length`, and popping the front chunk resets `offset`; (b) the only "
        "body that writes to the tty fd is the closure handed to consume_with in UnixTerminal::poll (execute/Write::write/image "
        "handlers/position write only to write_queue); (c) the amount consumed from the queue is the value returned by the tty write; "
        "(d) frames_drop keeps the front chunk (drain starts at constant 1); (e) poll flushes first and keeps looping while the "
        "queue is non-empty. NOT decided: kernel schedules, whole-chunk granularity while the last chunk is open.")
    ctx.assume("MIR of the dev profile is the semantics of the code; unwind paths are out of scope")

    # ---------------- (a) COUPLED -------------------------------------------------------------
    ctx.rule("COUPLED-length", "content-changing op on IOQueue.chunks lies only on paths that assign IOQueue.length", floor=4)
    ctx.rule("COUPLED-offset", "pop of the front chunk is followed by offset = 0; offset writes are coupled with length writes", floor=2)
    bodies = ioqueue_bodies(prog)
    if len(bodies) < 10:
        ctx.anchor("COUPLED-length", "IOQueue-methods", "expected the IOQueue impl blocks (>=10 methods), found %d" % len(bodies))
    for b in bodies:
        cfg = b.cfg()
        lw = {i for (i, si, rp, s) in writes_to_field(b, r"^\(\*_1\)\.length$")}
        ow = writes_to_field(b, r"^\(\*_1\)\.offset$")
        # delegation: a method that passes &mut self on to another IOQueue method is covered there
        for bb, t in b.calls():
            is_remover = call_matches(t, REMOVERS)
            is_chunk_writer = call_matches(t, CHUNK_WRITERS)
            if not (is_remover or is_chunk_writer):
                continue
            recv = arg_place(b, t, 0) if t["args"] else None
            if is_remover:
                if recv != "(*_1).chunks":
                    continue
            else:
                # receiver must derive from self.chunks (back_mut/front_mut/.. element)
                if "(*_1).chunks" not in (recv or ""):
                    continue
            name = callee_name(t).split("::")[-1]
            if name in ("push_back", "push_front"):
                og = origins(b, t["args"][1])
                if og and all(o[0] == "call" and re.search(r"Default>::default$|Vec::<T>::new$", o[2]) for o in og):
                    ctx.instance("COUPLED-length", {"fn": b.path, "op": name + "(empty chunk)", "site": "%s:%d" % (b.file, t["line"]), "exempt": "adds no bytes"}, nontrivial=False)
                    continue
            anchor_bb = bb
            if call_matches(t, OPTION_REMOVERS):
                sb = some_edge_block(b, bb, t)
                if sb is not None:
                    anchor_bb = sb
            # exists a path entry -> anchor_bb -> return avoiding all length writes?
            pre = cfg.reachable_from(0, removed=lw)
            post = cfg.reachable_from(anchor_bb, removed=lw - {anchor_bb}) if anchor_bb not in lw else set()
            bad = (anchor_bb in pre or bb in pre) and any(r in post for r in cfg.returns) and anchor_bb not in lw
            ctx.instance("COUPLED-length", {"fn": b.path, "op": name, "site": "%s:%d" % (b.file, t["line"]), "length_writes_in_blocks": sorted(lw)})
            if bad:
                ctx.violation("COUPLED-length", b.path, name,
                              "%s changes the contents of IOQueue.chunks on a path that never updates IOQueue.length: len() no longer equals the readable bytes" % b.path,
                              sites=["%s:%d" % (b.file, t["line"])])
            if re.search(r"pop_front$", callee_name(t)):
                # offset = 0 must post-dominate the Some edge
                zero_w = {i for (i, si, rp, s) in ow if s.get("rv", {}).get("k") == "use" and op_const_int(s["rv"]["a"]) == 0}
                ok, wit = cfg.must_pass(zero_w, start=anchor_bb)
                ctx.instance("COUPLED-offset", {"fn": b.path, "op": "pop_front -> offset = 0", "site": "%s:%d" % (b.file, t["line"])})
                if not ok:
                    ctx.violation("COUPLED-offset", b.path, "pop_front",
                                  "front chunk popped but offset is not reset to 0 on path %s" % wit, sites=["%s:%d" % (b.file, t["line"])])
        for (i, si, rp, s) in ow:
            if s.get("rv", {}).get("k") == "use" and op_const_int(s["rv"]["a"]) == 0:
                continue
            # non-zero offset write: must be coupled with a length write on every path through it
            pre_ok = True
            post = cfg.reachable_from(i, removed=lw - {i})
            bad = i not in lw and any(r in post for r in cfg.returns) and not cfg.must_pass(lw, start=0, exits=[i])[0]
            ctx.instance("COUPLED-offset", {"fn": b.path, "op": "offset advance", "site": "%s:%d" % (b.file, s["line"])})
            if bad:
                ctx.violation("COUPLED-offset", b.path, "offset-advance",
                              "offset advanced on a path that does not reduce length", sites=["%s:%d" % (b.file, s["line"])])

    # ---------------- (b) WHO-CALLS -----------------------------------------------------------
    ctx.rule("WHO-WRITES-TTY", "bodies that can write to a file descriptor: only Tty::write, the waker closure; Tty::write only from poll's consume_with closure", floor=3)
    poll = prog.one(r"^<unix::UnixTerminal as terminal::Terminal>::poll$")
    if poll is None:
        ctx.anchor("WHO-WRITES-TTY", "UnixTerminal::poll")
        return
    raw_writers = {}
    for b in prog.bodies:
        if not b.file.endswith(("unix.rs", "terminal.rs", "common.rs", "render.rs", "encoder.rs", "image.rs")):
            continue
        for bb, t in b.calls():
            g = (t["fn"].get("resolved_generics") or t["fn"].get("generics") or [""])
            tty_generic = call_matches(t, r"^std::io::Write::") and any(re.search(r"(^|[ &])unix::Tty$", x) for x in g[:1])
            if call_matches(t, r"^rustix::io::(write|pwrite|writev)") or call_matches(t, r"^<std::fs::File as std::io::Write>::write") or call_matches(t, r"^<unix::Tty as std::io::Write>::") or tty_generic:
                nm = callee_name(t)
                if tty_generic and nm != "<unix::Tty as std::io::Write>::write":
                    nm = "<unix::Tty as std::io::Write>::write (via %s)" % nm
                raw_writers.setdefault(b.path, []).append((nm, "%s:%d" % (b.file, t["line"])))
    allowed_raw = {
        "<unix::Tty as std::io::Write>::write": "the tty write primitive itself",
        "unix::UnixTerminal::new_from_fd::{closure#0}": "waker: writes one byte to the self-pipe, not the tty (checked by C17)",
    }
    tty_write_callers = []
    for path, sites in sorted(raw_writers.items()):
        for (callee, site) in sites:
            ctx.instance("WHO-WRITES-TTY", {"fn": path, "callee": callee, "site": site})
            if callee.startswith("<unix::Tty as std::io::Write>::write") :
                tty_write_callers.append(path)
                b = prog.body(path)
                if "(via " in callee:
                    ctx.violation("WHO-WRITES-TTY", path, "Tty::write-loop",
                                  "the tty is written through %s: only the single-attempt Tty::write keeps the consumed amount equal to the bytes the kernel accepted" % callee, sites=[site])
                if not (b and b.kind == "Closure" and b.closure_root == poll.path):
                    ctx.violation("WHO-WRITES-TTY", path, "Tty::write",
                                  "Tty::write is called outside the consume_with closure of UnixTerminal::poll: bytes can bypass or race the write queue", sites=[site])
            elif path not in allowed_raw:
                ctx.violation("WHO-WRITES-TTY", path, callee.split("::")[-1],
                              "raw write to a file descriptor outside the allowed set %s" % sorted(allowed_raw), sites=[site])
    if not tty_write_callers:
        ctx.anchor("WHO-WRITES-TTY", "Tty::write-caller", "no body calls <Tty as Write>::write: the delivery path was not recognised")
    # the closure must be the argument of consume_with on self.write_queue
    ctx.rule("CONSUME-WITH", "poll hands the tty-writing closure to IOQueue::consume_with on self.write_queue", floor=1)
    cw = [(bb, t) for bb, t in poll.calls() if call_matches(t, r"^common::IOQueue::consume_with$")]
    if len(cw) != 1:
        ctx.anchor("CONSUME-WITH", "poll/consume_with", "expected exactly one consume_with call in poll, found %d" % len(cw))
    else:
        bb, t = cw[0]
        recv = arg_place(poll, t, 0)
        ctx.instance("CONSUME-WITH", {"receiver": recv, "site": "%s:%d" % (poll.file, t["line"])})
        if recv != "(*_1).write_queue":
            ctx.violation("CONSUME-WITH", poll.path, "receiver", "consume_with is not applied to self.write_queue but to %s" % recv, sites=["%s:%d" % (poll.file, t["line"])])
        og = origins(poll, t["args"][1])
        clos = [o for o in og if o[0] == "rv" and o[2].startswith("agg:closure")]
        cl_paths = set(tty_write_callers)
        # closure value: find aggregate closure def
        cdefs = set()
        for i, si, s in poll.assigns():
            if s["rv"]["k"] == "agg" and s["rv"]["ak"] == "closure":
                if s["place"]["l"] == op_local(t["args"][1]) or True:
                    cdefs.add(s["rv"]["def"])
        if not (cl_paths & cdefs):
            ctx.violation("CONSUME-WITH", poll.path, "closure", "the closure calling Tty::write is not constructed in poll", sites=[])

    # ---------------- (c) RETURNS-FROM --------------------------------------------------------
    ctx.rule("RETURNS-FROM", "amount consumed = value returned by the tty write (through guard_io(..,0) and `?` only)", floor=3)
    for path in set(tty_write_callers):
        b = prog.body(path)
        if b is None:
            continue
        # value returned in Ok(..) on normal path
        rets = []
        for i, si, s in b.assigns():
            if s["place"]["l"] == 0 and not s["place"]["p"]:
                rets.append((i, s))
        good = False
        for i, s in rets:
            rv = s["rv"]
            if rv["k"] == "agg" and rv.get("variant") == "Ok":
                og = origins(b, rv["fields"][0])
                ctx.instance("RETURNS-FROM", {"fn": path, "returned_value_origins": sorted(str(o) for o in og)})
                if all(o[0] == "call" and o[2] == "unix::guard_io" for o in og) and og:
                    good = True
                else:
                    ctx.violation("RETURNS-FROM", path, "Ok-value",
                                  "the closure's Ok value is not (only) the result of guard_io(tty.write(..)): origins %s" % sorted(map(str, og)),
                                  sites=["%s:%d" % (b.file, s["line"])])
        # guard_io's first arg must be result of Tty::write, second const 0
        for bb, t in b.calls():
            if call_matches(t, r"^unix::guard_io$"):
                og = origins(b, t["args"][0])
                ctx.instance("RETURNS-FROM", {"fn": path, "guard_io_arg_origins": sorted(str(o) for o in og), "otherwise": op_const_int(t["args"][1])})
                if not (og and all(o[0] == "call" and o[2] == "<unix::Tty as std::io::Write>::write" for o in og)):
                    ctx.violation("RETURNS-FROM", path, "guard_io-source",
                                  "the byte count handed to guard_io is not the result of one Tty::write attempt (origins %s): a looping or mapped write hides partial progress when the tty returns EAGAIN, so delivered bytes are retransmitted" % sorted(map(str, og)),
                                  sites=["%s:%d" % (b.file, t["line"])])
                    continue
                if op_const_int(t["args"][1]) != 0:
                    ctx.violation("RETURNS-FROM", path, "guard_io-otherwise",
                                  "EAGAIN/EINTR on the tty write must consume 0 bytes, found otherwise=%s" % op_const_int(t["args"][1]),
                                  sites=["%s:%d" % (b.file, t["line"])])
        if not good and not [v for v in ctx.violations if v.rule == "RETURNS-FROM"]:
            ctx.anchor("RETURNS-FROM", "closure-return", "could not find `Ok(size)` in the tty-writing closure")
    cwb = prog.one(r"^common::IOQueue::consume_with$")
    if cwb is None:
        ctx.anchor("RETURNS-FROM", "IOQueue::consume_with")
    else:
        cons = [(bb, t) for bb, t in cwb.calls() if call_matches(t, r"^common::IOQueue::consume$")]
        if len(cons) != 1:
            ctx.anchor("RETURNS-FROM", "consume_with/consume", "expected one consume call")
        else:
            bb, t = cons[0]
            og = origins(cwb, t["args"][1])
            ctx.instance("RETURNS-FROM", {"fn": cwb.path, "consume_amount_origins": sorted(str(o) for o in og)})
            if not (og and all(o[0] == "call" and re.search(r"FnOnce::call_once$", o[2]) for o in og)):
                ctx.violation("RETURNS-FROM", cwb.path, "consume-amount",
                              "consume() amount is not exactly the consumer's return value: %s" % sorted(map(str, og)),
                              sites=["%s:%d" % (cwb.file, t["line"])])
            # and the slice handed to the consumer is as_slice() of self
            calls = [(bb2, t2) for bb2, t2 in cwb.calls() if call_matches(t2, r"FnOnce::call_once$")]
            for bb2, t2 in calls:
                # tuple arg
                og2 = set()
                l = op_local(t2["args"][1])
                for d in cwb.defs_of(l):
                    if d[1] != "term" and d[2]["k"] == "agg" and d[2]["ak"] == "tuple":
                        og2 |= origins(cwb, d[2]["fields"][0])
                ctx.instance("RETURNS-FROM", {"fn": cwb.path, "consumer_input_origins": sorted(str(o) for o in og2)})
                if not (og2 and all(o[0] == "call" and o[2] == "common::IOQueue::as_slice" for o in og2)):
                    ctx.violation("RETURNS-FROM", cwb.path, "consumer-input", "consumer is not given as_slice() of the queue: %s" % sorted(map(str, og2)), sites=["%s:%d" % (cwb.file, t2["line"])])

    # ---------------- (d) frames_drop ---------------------------------------------------------
    ctx.rule("FRONT-KEPT", "frames_drop -> IOQueue::clear_but_last; every drain/removal there starts at constant index >= 1", floor=2)
    fd = prog.one(r"^<unix::UnixTerminal as terminal::Terminal>::frames_drop$")
    cbl = prog.one(r"^common::IOQueue::clear_but_last$")
    if fd is None or cbl is None:
        ctx.anchor("FRONT-KEPT", "frames_drop/clear_but_last")
    else:
        calls = [t for bb, t in fd.calls()]
        ctx.instance("FRONT-KEPT", {"fn": fd.path, "calls": [callee_name(t) for t in calls]})
        if not (len(calls) == 1 and callee_name(calls[0]) == "common::IOQueue::clear_but_last" and arg_place(fd, calls[0], 0) == "(*_1).write_queue"):
            ctx.violation("FRONT-KEPT", fd.path, "callee", "frames_drop must only call write_queue.clear_but_last()", sites=[fd.loc])
        n = 0
        for bb, t in cbl.calls():
            if call_matches(t, REMOVERS) and arg_place(cbl, t, 0) == "(*_1).chunks":
                n += 1
                nm = callee_name(t).split("::")[-1]
                ok = False
                if nm == "drain":
                    l = op_local(t["args"][1])
                    for d in cbl.defs_of(l):
                        if d[1] != "term" and d[2]["k"] == "agg" and d[2].get("adt", "").endswith("RangeFrom"):
                            st = op_const_int(d[2]["fields"][0])
                            ok = st is not None and st >= 1
                        elif d[1] != "term" and d[2]["k"] == "agg" and d[2].get("adt", "").endswith("::Range"):
                            st = op_const_int(d[2]["fields"][0])
                            ok = st is not None and st >= 1
                ctx.instance("FRONT-KEPT", {"fn": cbl.path, "op": nm, "keeps_front": ok})
                if not ok:
                    ctx.violation("FRONT-KEPT", cbl.path, nm,
                                  "clear_but_last removes chunks with an operation that may drop the front chunk (the one in transmission)",
                                  sites=["%s:%d" % (cbl.file, t["line"])])
        if n == 0:
            ctx.anchor("FRONT-KEPT", "clear_but_last/removal", "no removal operation recognised in clear_but_last")

    # ---------------- (d2) the queue object is never replaced ---------------------------------------
    ctx.rule("QUEUE-OWNER", "UnixTerminal.write_queue is initialised once (struct literal) and afterwards only borrowed for IOQueue/Write/handler calls: "
                            "never assigned, taken, swapped or replaced — queued bytes leave it only through consume_with and clear_but_last", floor=5)
    ALLOWED_Q = (r"^common::IOQueue::(is_empty|chunks_count|consume_with|clear_but_last|len|as_slice)$|^<common::IOQueue as std::io::Write>::(write|flush|write_all)$|"
                 r"^std::io::Write::(write_all|write_fmt|write|flush)$|^<.* as image::ImageHandler>::(draw|erase|handle)$|^image::ImageHandler::(draw|erase|handle)$|"
                 r"^<encoder::TTYEncoder as encoder::Encoder>::encode$|^encoder::Encoder::encode$")
    n_q = 0
    for b in prog.bodies:
        if not (b.file or "").endswith("unix.rs"):
            continue
        for bb, si, st_ in b.assigns():
            rp = resolve_place(b, st_["place"])
            if re.search(r"\.write_queue$", rp) and "UnixTerminal" in b.local_ty(st_["place"]["l"]):
                n_q += 1
                ctx.instance("QUEUE-OWNER", {"fn": b.path, "assignment": rp, "allowed": False})
                ctx.violation("QUEUE-OWNER", b.path, "assigned", "UnixTerminal.write_queue is overwritten: everything queued, including the unsent rest of the chunk in "
                              "transmission, is discarded (a frame is torn)", sites=["%s:%d" % (b.file, st_["line"])])
            rv = st_["rv"]
            if rv["k"] == "ref" and re.search(r"\.write_queue$", resolve_place(b, rv["place"])) and "UnixTerminal" in b.local_ty(rv["place"]["l"]):
                l = st_["place"]["l"]
                users = [(ub, t) for ub, t in b.calls() if any(a.get("k") in ("copy", "move") and a["place"]["l"] == l and not a["place"]["p"] for a in t["args"])]
                # a reborrow / unsize coercion of the reference keeps pointing at the queue: follow one level
                for bb2, si2, s2 in b.assigns():
                    r2 = s2["rv"]
                    src_l = None
                    if r2["k"] == "ref" and r2["place"]["l"] == l:
                        src_l = s2["place"]["l"]
                    elif r2["k"] in ("cast", "use") and isinstance(r2.get("a"), dict) and r2["a"].get("k") in ("copy", "move") and r2["a"]["place"]["l"] == l:
                        src_l = s2["place"]["l"]
                    if src_l is not None:
                        users += [(ub, t) for ub, t in b.calls() if any(a.get("k") in ("copy", "move") and a["place"]["l"] == src_l and not a["place"]["p"] for a in t["args"])]
                for ub, t in users:
                    n_q += 1
                    nm = callee_name(t) or "<indirect>"
                    ok = bool(re.search(ALLOWED_Q, nm)) or (not rv["mut"])
                    ctx.instance("QUEUE-OWNER", {"fn": b.path, "borrow_used_by": nm, "mutable": rv["mut"], "allowed": ok})
                    if not ok:
                        ctx.violation("QUEUE-OWNER", b.path, "borrowed-by-" + nm.split("::")[-1], "a mutable borrow of UnixTerminal.write_queue is handed to %s, which can replace or empty "
                                      "the queue (mem::take/replace/swap): the chunk in transmission would be discarded" % nm, sites=["%s:%d" % (b.file, t["line"])])

    # ---------------- (e) poll flush + loop condition -------------------------------------------
    ctx.rule("POLL-LOOP", "poll flushes write_queue before the loop; loop continues while !write_queue.is_empty()", floor=2)
    cfg = poll.cfg()
    flush = [bb for bb, t in poll.calls() if call_matches(t, r"^<common::IOQueue as std::io::Write>::flush$") and arg_place(poll, t, 0) == "(*_1).write_queue"]
    isempty = [(bb, t) for bb, t in poll.calls() if call_matches(t, r"^common::IOQueue::is_empty$") and arg_place(poll, t, 0) == "(*_1).write_queue"]
    loops = cfg.loops()
    # the main loop: the loop containing the consume_with call
    main = None
    if cw:
        cand = [(len(body), h) for h, body in loops.items() if cw[0][0] in body]
        if cand:
            main = max(cand)[1]
    if main is None or not flush:
        ctx.anchor("POLL-LOOP", "poll/main-loop-or-flush", "main loop or flush call not recognised in poll")
    else:
        body = loops[main]
        ctx.instance("POLL-LOOP", {"flush_blocks": flush, "loop_header": main, "loop_size": len(body)})
        if not any(cfg.dominates(f, main) and f not in body for f in flush):
            ctx.violation("POLL-LOOP", poll.path, "flush-first", "write_queue.flush() does not dominate the poll loop: an unterminated chunk could be merged with later output or never sent", sites=[poll.loc])
        # the loop-continuation test on write_queue.is_empty(): the call is in the loop, and on result==false(not empty) the
        # loop body is entered without consulting events_queue
        inloop = [(bb, t) for bb, t in isempty if bb in body]
        ok = False
        for bb, t in inloop:
            nb = poll.blocks[t["t"]]
            tt = nb["term"]
            # pattern: _x = Not(result); switch _x [0: check events, otherwise: body]   or switch result directly
            if tt["k"] == "switch":
                ok = True
        ctx.instance("POLL-LOOP", {"is_empty_tests_in_loop": [t["line"] for bb, t in inloop]})
        if not ok:
            ctx.violation("POLL-LOOP", poll.path, "loop-cond", "the poll loop condition does not test write_queue.is_empty(): pending output may be left unsent when an event is already queued", sites=[poll.loc])
