"""C15 — compiled automata accept exactly the language of the expression (DESIGN.md §5 C15, §3, §11).

R1  wiring templates of the nine NFA combinators are READ from src/automata.rs (role dataflow, sa.grammar.read_wiring) and must equal
    Thompson's template in its fresh or in-place variant; merge_states renumbers with strictly increasing offsets; `+`/`|` delegate.
R2  shape typing of every combinator application reachable from the production grammars: an in-place start->stop ε-edge is only
    language-preserving on a clean operand (start without in-edge, stop without out-edge).
R3  every production grammar: as-built language == regex language (exact DFA equivalence, shortest counterexample); the two
    decoder automata equal the fresh union of their (as-built) members with the same tags; bounded check of the model itself.
R4  compile(): density assert on every path; is_accepting / is_terminal / tags dataflow facts (MIR); R4-TABLE: geometry of the flattened
    transition table — the stride DFA::transition multiplies the state by, the stride compile() stores and the number of entries each state
    contributes are all |alphabet| = 256 (symbols 0..=255 in order, entry j looked up as edges.get(&j)).
"""
import copy
import re
import time

from .. import grammar as G
from .. import regex as R
from ..mir import callee_name
from ..regex import Rx

CLAIM = {
    "text": "Decides, from the source and MIR of the current tree: (R1) the ε-wiring of every NFA combinator (sequence, choice, some, optional, many, "
            "From<&str>, predicate, empty, nothing) read as a template over roles equals Thompson's construction in its fresh or in-place variant, "
            "merge_states renumbers operands into disjoint increasing id ranges, `+`/`|` delegate to sequence/choice; (R2) every combinator application "
            "reachable from the grammars of decoder.rs is shape-typed and an in-place start→stop ε-edge is applied to clean operands only; (R3) for each "
            "of the production grammars (all `impl Matcher`, both decoder automata, the UTF-8 helper) the automaton as built accepts exactly the regular "
            "language of the expression (exact DFA equivalence with a shortest counterexample), never the empty input, and each decoder automaton is the "
            "tagged union of its registered members; the as-built model itself is checked exhaustively on all expressions up to 2 (quick) / 4 (thorough) "
            "operators; (R4) compile() guards every emitted table row by the density assert and assigns is_accepting/is_terminal/tags from "
            "contains(stop)/empty row/member tags; (R4-TABLE, 4 instances) DFA::transition indexes the flattened table by <stride field> * state + symbol, "
            "compile() stores a constant stride equal to the number of values of the symbol type (256), every state contributes exactly the entries for symbols "
            "0..=255 in order and entry j is edges.get(&j) of that state's edge map - so stepping on any byte stays in the row of its own state (a dead "
            "transition is None, never another state's entry). Not decided: the power-set worklist and ε-closure of compile() beyond R4, and termination.",
    "technique": "role dataflow over combinator bodies (syn AST) + own Thompson builder driven by the read templates + DFA equivalence; MIR provenance terms and must-pass for compile()",
    "design_ref": "DESIGN.md §5 C15, §3, §11",
}

AUTOMATA_MOD = "automata::NFA"


def _slug(s):
    s = re.sub(r"[^A-Za-z0-9+]+", "-", s).strip("-")
    return s[:70]


def _where(site):
    mod = re.sub(r"^src/|\.rs$", "", site.file).replace("/", "::")
    return "%s::%s" % (mod, site.fn)


# ------------------------------------------------------------------------------------------------
# MIR value expressions (provenance of an operand written as a term over calls / arguments / fresh containers)
# ------------------------------------------------------------------------------------------------
def _short_ty(t):
    return re.sub(r"\b(?:[A-Za-z_][A-Za-z0-9_]*::)+", "", t or "?")


def _short_fn(n):
    n = n or "?"
    for _ in range(4):
        n = re.sub(r"<[^<>]*>", "", n)
    segs = [x for x in n.split("::") if x]
    return "::".join(segs[-2:])


def _proj(base, proj):
    s = base
    for e in proj:
        k = e["k"]
        if k == "deref":
            s = s[1:] if s.startswith("&") else "*" + s
        elif k == "field":
            s += "." + e["name"]
        elif k == "downcast":
            s = "(%s as %s)" % (s, e["variant"])
        elif k == "index":
            s += "[_]"
        else:
            s += "<%s>" % k
    return s


def vexpr(body, x, depth=0, seen=()):
    """term describing where the operand/place x comes from (single-definition chasing)"""
    if x.get("k") == "const":
        c = x["c"]
        return str(c.get("int", c.get("text", "?")))
    place = x["place"] if "place" in x else x
    l, proj = place["l"], place["p"]
    if depth > 30 or l in seen:
        return _proj("_%d" % l, proj)
    if 0 < l <= body.arg_count:
        return _proj("arg%d" % l, proj)
    ds = body.defs_of(l)
    if len(ds) != 1:
        return _proj("_%d" % l, proj)
    bb, si, rv = ds[0]
    seen = seen + (l,)
    if si == "term":
        if not rv["args"]:
            base = "new<%s>" % _short_ty(body.local_ty(l))
        else:
            base = "%s(%s)" % (_short_fn(callee_name(rv)), ", ".join(vexpr(body, a, depth + 1, seen) for a in rv["args"]))
        return _proj(base, proj)
    k = rv["k"]
    if k == "use":
        if rv["a"]["k"] == "const":
            return _proj(vexpr(body, rv["a"]), proj)
        p2 = rv["a"]["place"]
        return vexpr(body, {"l": p2["l"], "p": p2["p"] + proj}, depth + 1, seen)
    if k == "ref":
        p2 = rv["place"]
        if proj and proj[0]["k"] == "deref":
            return vexpr(body, {"l": p2["l"], "p": p2["p"] + proj[1:]}, depth + 1, seen)
        return _proj("&" + vexpr(body, p2, depth + 1, seen), proj)
    if k == "agg":
        if rv["ak"] == "tuple" and proj and proj[0]["k"] == "field":
            return _proj(vexpr(body, rv["fields"][int(proj[0]["name"])], depth + 1, seen), proj[1:])
        if rv["ak"] == "closure":
            return _proj("closure<%s>" % rv["def"], proj)
        return _proj("%s{%s}" % (rv.get("adt", rv["ak"]), ", ".join(vexpr(body, f, depth + 1, seen) for f in rv["fields"])), proj)
    if k == "bin":
        return _proj("%s(%s, %s)" % (rv["op"], vexpr(body, rv["a"], depth + 1, seen), vexpr(body, rv["b"], depth + 1, seen)), proj)
    if k == "cast":
        return _proj(vexpr(body, rv["a"], depth + 1, seen), proj)
    return _proj("<%s>" % k, proj)


# ------------------------------------------------------------------------------------------------
# R1
# ------------------------------------------------------------------------------------------------
MUST_BE_FRESH = ("predicate", "empty", "nothing", "from", "choice")


def _eps_sites(prog, body, depth=0, stack=()):
    """(ε-insert call sites, merge_states calls) executed by a combinator body, counted through its closures and through the private helpers it
    calls (a helper call site contributes the helper's sites): extracting `states.get_mut(&a) -> epsilons.insert(b)` into a function, or
    turning a loop into for_each, leaves the numbers unchanged."""
    n = merges = 0
    bodies = [body] + [c for c in prog.bodies if c.kind == "Closure" and c.j.get("closure_root") == body.path]
    for b in bodies:
        for bb, term in b.calls():
            nm = callee_name(term) or ""
            if re.search(r"BTreeSet::<T, A>::insert$", nm) and term["args"] and (
                    vexpr(b, term["args"][0]).endswith(".epsilons") or re.search(r"BTreeSet<automata::NFAStateId>$", (term.get("arg_tys") or [""])[0])):
                n += 1
            elif nm.endswith("::merge_states"):
                merges += 1
            else:
                f = term["fn"]
                cpath = f.get("resolved") if f.get("resolved_local") else (f.get("path") if f.get("local") else None)
                callee = prog.body(cpath) if cpath else None
                if callee is None or depth >= 3 or callee.path in stack or callee.kind not in ("Fn", "AssocFn") or callee.impl_trait or callee.file != body.file:
                    continue
                if callee.name in G.COMBINATORS or callee.name == "merge_states":
                    continue
                a, m = _eps_sites(prog, callee, depth + 1, stack + (body.path,))
                n += a
                merges += m
    return n, merges


# Workaround kept in this module (sa/grammar.py is shared): the role-dataflow reader knows `ends.first()/last()` followed by unwrap()/expect(),
# `let Some(..) = .. else`, `if let Some(..)`; these are the remaining Option combinators that denote the same element once the operand list is known to
# be non-empty (it was indexed before - same panic on an empty list - or the empty list has returned early):
#   opt.map_or(default, |p| f(p)) / opt.map_or_else(|| default, |p| f(p))  ==  f(element)        (default evaluated only for well-formedness)
#   opt.map(|p| f(p))  ==  Some(f(element));   opt.unwrap_or(d) / unwrap_or_else(|| d) / unwrap_or_default()  ==  element
def _install_option_combinators():
    RE = getattr(G, "_RoleEval", None)
    if RE is None or getattr(RE, "_c15_option_combinators", False):
        return
    orig = RE.mcall_val

    def apply_closure(self, c, v, what):
        if c is None or len(c["params"]) != 1:
            self.err("closure in %s" % what)
        saved = dict(self.env)
        try:
            self.bind(c["params"][0], v)
            return self.body_val(c["body"])
        finally:
            self.env = saved

    def mcall_val(self, e):
        m, args = e.get("m"), e.get("args") or []
        if m in ("map_or", "map_or_else", "map", "unwrap_or", "unwrap_or_else", "unwrap_or_default", "is_some_and"):
            # probe the receiver on a snapshot of the evaluator state: when this wrapper does not handle the call, every effect of the probe is
            # undone and the original reader evaluates the receiver itself
            names = ("env", "arity", "reserve", "merged", "new_states", "eps", "byte_edges", "on_empty", "fresh", "result", "sites", "byte_loop_ok",
                     "scope", "idx", "ends_indexed", "local_consts", "local_fns", "static_extra")
            snap = {}
            for n in names:
                v = getattr(self, n)
                snap[n] = copy.deepcopy(v) if n == "fresh" else (v.copy() if isinstance(v, (dict, set)) else (list(v) if isinstance(v, list) else v))
            try:
                recv = self.val(e["recv"])
            except G.WiringError:
                recv = None
            if recv is None or recv[0] != "opt":
                for n in names:
                    setattr(self, n, snap[n])
                return orig(self, e)
            nonempty = self.ends_indexed or self.on_empty is not None or self.arity == "unary"
            if recv is not None and recv[0] == "opt" and nonempty and self.scope == "once":
                what = G.expr_text(e) if hasattr(G, "expr_text") else m
                if m in ("map_or", "map_or_else") and len(args) == 2:
                    if m == "map_or":
                        self.val(args[0])
                    elif G._closure_of(args[0]) is None:
                        self.err("default of %s" % what)
                    self.ends_indexed = True
                    return apply_closure(self, G._closure_of(args[1]), recv[1], what)
                if m == "map" and len(args) == 1 and G._closure_of(args[0]) is not None:
                    return ("opt", apply_closure(self, G._closure_of(args[0]), recv[1], what))
                if (m == "unwrap_or" and len(args) == 1) or (m == "unwrap_or_else" and len(args) == 1 and G._closure_of(args[0]) is not None) or \
                        (m == "unwrap_or_default" and not args):
                    if m == "unwrap_or":
                        self.val(args[0])
                    self.ends_indexed = True
                    return recv[1]
        return orig(self, e)

    RE.mcall_val = mcall_val
    RE._c15_option_combinators = True


_install_option_combinators()


def rule_r1(ctx, wiring):
    ctx.rule("R1-WIRING", "ε-wiring of each NFA combinator read from automata.rs equals Thompson's template (fresh or in-place variant)", floor=9)
    problems = dict()
    for c, what in wiring.problems:
        problems.setdefault(c, []).append(what)
    classes = {}
    for c in G.COMBINATORS:
        where = "%s::%s" % (AUTOMATA_MOD, c)
        line = wiring.lines.get(c)
        sites = ["%s:%s" % (G.AUTOMATA, line)] if line else []
        t = wiring.templates.get(c)
        if t is None:
            ctx.instance("R1-WIRING", {"combinator": c, "read": None, "problem": problems.get(c)})
            ctx.violation("R1-WIRING", where, "not-understood",
                          "the body of NFA::%s is outside the role-dataflow subset (fail closed): %s" % (c, "; ".join(problems.get(c, ["definition not found"]))), sites=sites)
            continue
        cl = R.classify(t)
        classes[c] = cl
        ctx.instance("R1-WIRING", {"combinator": c, "read": t.describe(), "class": cl})
        ref = R.THOMPSON[c]
        if cl is None:
            exp = " | ".join("%s: %s" % (v, ref[v].describe()) for v in ("fresh", "inplace") if ref[v] is not None)
            ctx.violation("R1-WIRING", where, "not-thompson",
                          "NFA::%s wires {%s}; Thompson's construction for it is {%s}" % (c, t.describe(), exp), sites=sites + list(t.sites))
        elif c in MUST_BE_FRESH and cl != "fresh":
            ctx.violation("R1-WIRING", where, "not-fresh", "NFA::%s must allocate its own states, read: %s" % (c, t.describe()), sites=sites)
    ctx.extra["wiring"] = {c: {"class": classes.get(c), "template": (wiring.templates[c].describe() if c in wiring.templates else None)} for c in G.COMBINATORS}

    ctx.rule("R1-MERGE", "merge_states shifts ids/edges/ε-targets/ends of operand i by an offset that grows by max_id+1 per operand", floor=14)
    where = "%s::merge_states" % AUTOMATA_MOD
    line = wiring.lines.get("merge_states")
    sites = ["%s:%s" % (G.AUTOMATA, line)] if line else []
    for fact, ok in wiring.merge["facts"].items():
        ctx.instance("R1-MERGE", {"fact": fact, "holds": ok})
        if not ok:
            ctx.violation("R1-MERGE", where, _slug(fact), "merge_states: not established: " + fact, sites=sites)
    for p in wiring.merge["problems"]:
        if p not in wiring.merge["facts"]:
            ctx.violation("R1-MERGE", where, _slug(p), "merge_states: " + p, sites=sites)

    ctx.rule("R1-DELEG", "`a + b` is NFA::sequence([a, b]) and `a | b` is NFA::choice([a, b])", floor=2)
    for op, comb in (("add", "sequence"), ("bitor", "choice")):
        got = wiring.delegations.get(op)
        ctx.instance("R1-DELEG", {"operator": op, "delegates_to": got})
        if got != comb:
            ctx.violation("R1-DELEG", "%s::%s" % (AUTOMATA_MOD, op), "delegation",
                          "operator impl `%s` does not evaluate to NFA::%s([self, rhs]) (found %s)" % (op, comb, got))

    # src/MIR agreement: the number of ε-insertions in each combinator body
    ctx.rule("R1-MIR", "MIR of each operand-taking combinator has exactly the ε-insert call sites that the source template was read from", floor=5)
    for c in ("sequence", "choice", "some", "optional", "many"):
        body = ctx.prog.one(r"^automata::NFA::<T>::%s$" % c)
        t = wiring.templates.get(c)
        if body is None:
            ctx.anchor("R1-MIR", "mir-body-of-" + c)
            continue
        n, merges = _eps_sites(ctx.prog, body)
        # `eps_inserts_static` (when the reader provides it) also counts insert sites in branches it folded away for a literal flag argument
        # of a shared helper: MIR contains both branches
        want = (t.extra.get("eps_inserts_static", t.extra.get("eps_inserts")) if t else None)
        ctx.instance("R1-MIR", {"combinator": c, "mir_eps_inserts": n, "src_eps_inserts": want, "merge_calls": merges})
        if t is not None and (n != want or merges != (1 if t.reserve or t.arity == "nary" else 0)):
            ctx.violation("R1-MIR", "%s::%s" % (AUTOMATA_MOD, c), "src-mir-disagree",
                          "source template of NFA::%s has %s ε-insertions / merge=%s but MIR has %d / %d" % (
                              c, want, 1 if t.reserve or t.arity == "nary" else 0, n, merges))
    return classes


# ------------------------------------------------------------------------------------------------
# R2
# ------------------------------------------------------------------------------------------------
def _flags_text(si, so):
    f = []
    if si:
        f.append("start-has-in-edge")
    if so:
        f.append("stop-has-out-edge")
    return "+".join(f) or "clean"


def rule_r2(ctx, wiring, grammars):
    ctx.rule("R2-SHAPE", "each combinator application in the grammars is typed (start-has-in-edge, stop-has-out-edge); in-place start→stop needs a clean operand", floor=51)
    model = wiring.model()
    memo = {}
    seen_nodes = {}
    seen_keys = set()
    unsafe = []
    for g in grammars.values():
        if g.rx is None:
            continue
        for node in R.rx_nodes(g.rx, seen_nodes):
            if node.op not in ("seq", "choice", "some", "many", "optional") or node.site is None:
                continue
            comb = R.COMB_OF[node.op]
            t = model[comb]
            frs = [R.build_asbuilt(a, model, memo) for a in node.args]
            flags = tuple((R.start_has_in(f), R.stop_has_out(f)) for f in frs)
            site = node.site
            key = (site.fn, comb, site.ordinal, flags)
            if key in seen_keys:
                continue
            seen_keys.add(key)
            forward = t.inplace_forward()
            bad = [i for i, (si, so) in enumerate(flags) if forward and (si or so)]
            ctx.instance("R2-SHAPE", {"where": _where(site), "application": "%s#%d" % (comb, site.ordinal), "in_place_forward": forward,
                                      "operand_flags": [_flags_text(*f) for f in flags][:6], "safe": not bad}, nontrivial=bool(frs))
            for i in bad:
                si, so = flags[i]
                operand = node.args[i]
                d = R.distinguish(R.minimize(R.determinize(R.build_asbuilt(node, model, memo)), keep_tags=False), R.compile_rx(node))
                if d is not None:
                    local = "this sub-expression as built %s %s which `%s` does not contain" % (
                        "accepts" if d[1] else "rejects", R.bytes_text(d[0]), R.rx_text(node, 120))
                else:
                    local = "(the language of this particular sub-expression happens to be unchanged)"
                ctx.violation(
                    "R2-SHAPE", _where(site), "%s#%d:operand-%s" % (comb, site.ordinal, _flags_text(si, so)),
                    "NFA::%s adds start→stop in place (no fresh states) but its operand `%s` is not clean (%s): by DESIGN §11 (ii) the added edge can be "
                    "taken after re-entering the start / before leaving the stop; %s" % (comb, R.rx_text(operand, 120), _flags_text(si, so), local),
                    sites=["%s:%d" % (site.file, site.line)] + list(t.sites))
                unsafe.append(key)
    ctx.extra["r2_unsafe_applications"] = len(unsafe)


# ------------------------------------------------------------------------------------------------
# R3
# ------------------------------------------------------------------------------------------------
def _fresh_union(frags):
    u = R.NFA(2)
    u.start, u.stop = 0, 1
    for a in frags:
        off = u.absorb(a)
        u.eps[0].add(a.start + off)
        u.eps[a.stop + off].add(1)
    return u


def rule_r3(ctx, wiring, grammars, src):
    ctx.rule("GRAMMARS", "every `impl Matcher` is extracted and folded; decoder registrations resolve to extracted grammars", floor=15)
    impls = {}
    for g in grammars.values():
        if g.impl:
            impls.setdefault(g.impl, []).append(g)
    n_impl = G.matcher_impl_count(src)
    kinds = {"parsed": 0, "table": 0, "generic": 0}
    for impl, gs in sorted(impls.items()):
        ctx.instance("GRAMMARS", {"impl": impl, "grammars": [x.name for x in gs], "kind": gs[0].kind}, nontrivial=gs[0].rx is not None)
        kinds[gs[0].kind] = kinds.get(gs[0].kind, 0) + 1
        for x in gs:
            if x.rx is None and x.kind != "generic":
                ctx.violation("GRAMMARS", "decoder::%s::matcher" % impl, "unfoldable", "grammar %s could not be folded (fail closed): %s" % (x.name, x.problem),
                              sites=[x.site] if x.site else [])
    if len(impls) != n_impl:
        ctx.violation("GRAMMARS", "ANCHOR", "impl-count", "%d `impl Matcher` blocks but %d extracted" % (n_impl, len(impls)))
    for p in G.extraction_problems(src):
        ctx.violation("GRAMMARS", "ANCHOR", _slug(p), "extraction: " + p)
    ev = G.registrations(src, "event")
    cm = G.registrations(src, "command")
    ctx.extra["grammar_inventory"] = {"matcher_impls": n_impl, "kinds": kinds, "event_alternatives": [r.name for r in ev], "command_alternatives": [r.name for r in cm]}
    if len(ev) < 14 or len(cm) < 2 or kinds.get("parsed", 0) < 13 or kinds.get("table", 0) < 1:
        ctx.violation("GRAMMARS", "ANCHOR", "inventory-floor",
                      "fewer grammars than counted by hand on the pinned tree: event=%d (14) command=%d (2) parsed=%d (13) table=%d (1)" % (
                          len(ev), len(cm), kinds.get("parsed", 0), kinds.get("table", 0)))

    ctx.rule("R3-LANG", "as-built language == regex language for every grammar; each decoder automaton == tagged fresh union of its members", floor=18)
    model = wiring.model()
    facts = {}
    for name, g in grammars.items():
        if g.rx is None or g.kind == "union":
            continue
        d = R.distinguish(g.asbuilt_dfa, g.regex_dfa)
        facts[name] = {"kind": g.kind, "minlen": g.minlen, "maxlen": g.maxlen, "prefix": R.bytes_text(g.prefix), "suffix": R.bytes_text(g.suffix),
                       "accepts_empty": g.accepts_empty, "dfa_states": g.asbuilt_dfa.n, "equal": d is None}
        ctx.instance("R3-LANG", {"grammar": name, "minlen": g.minlen, "dfa_states": (g.asbuilt_dfa.n, g.regex_dfa.n), "equal": d is None})
        if d is not None:
            w, in_built, in_regex = d
            more = R.subset_witness(g.regex_dfa, g.asbuilt_dfa)
            ctx.violation(
                "R3-LANG", name, "asbuilt!=regex",
                "the automaton built for %s %s %s but the expression `%s` %s; shortest word lost by the as-built automaton: %s" % (
                    name, "accepts" if in_built else "rejects", R.bytes_text(w), R.rx_text(g.rx, 160),
                    "does not contain it" if not in_regex else "contains it", R.bytes_text(more) if more is not None else "none"),
                sites=[g.site] if g.site else [], detail={"word_hex": w.hex(), "accepted_as_built": in_built, "in_regex_language": in_regex})
        if g.accepts_empty:
            ctx.violation("R3-LANG", name, "accepts-empty", "the automaton of %s accepts the empty input (the decoder would emit events without consuming bytes)" % name,
                          sites=[g.site] if g.site else [])
    ctx.extra["grammar_facts"] = facts
    for which, regs in (("event", ev), ("command", cm)):
        try:
            urx = G.union_rx(src, which)
        except G.Unfoldable as ex:
            ctx.violation("R3-LANG", "ANCHOR", "union-" + which, str(ex))
            continue
        name = [n for n, g in grammars.items() if g.rx is urx][0]
        top = urx
        if top.op != "choice" or len(top.args) != len(regs):
            ctx.instance("R3-LANG", {"automaton": name, "understood": False})
            ctx.violation("R3-LANG", name, "not-a-choice", "MatcherAutomata::new does not build one NFA::choice over the registered matchers (%s with %d operands, %d registrations)" % (
                top.op, len(top.args), len(regs)))
            continue
        memo = {}
        built = R.minimize(R.determinize(R.build_asbuilt(urx, model, memo)), keep_tags=True)
        ref = R.minimize(R.determinize(_fresh_union([R.build_asbuilt(a, model, memo) for a in top.args])), keep_tags=True)
        d = R.distinguish_tagged(built, ref)
        # alternative i is the grammar of registration i, and carries MatcherTag::Matcher(i)
        order_ok = True
        for i, (a, r) in enumerate(zip(top.args, regs)):
            g = grammars.get(r.name)
            if g is None or g.rx is None:
                order_ok = False
                continue
            if R.distinguish(R.compile_rx(a), g.regex_dfa) is not None:
                order_ok = False
                ctx.violation("R3-LANG", name, "alternative-%d" % i, "alternative %d of %s is not the grammar of its registration %s" % (i, name, r.name))
            if g.kind == "parsed":
                tags = {G.value_text(x) for q in range(built.n) for x in built.tags[q]}
                if "MatcherTag::Matcher(%d)" % i not in tags:
                    order_ok = False
                    ctx.violation("R3-LANG", name, "tag-%d" % i, "no state of %s carries MatcherTag::Matcher(%d) for %s" % (name, i, r.name))
        ctx.instance("R3-LANG", {"automaton": name, "alternatives": len(regs), "dfa_states": built.n, "equals_union_of_members": d is None, "order_ok": order_ok})
        if d is not None:
            w, s1, s2 = d
            ctx.violation("R3-LANG", name, "union!=members",
                          "%s as built treats %s as (accepted=%s, tags=%s) but the union of its members gives (accepted=%s, tags=%s)" % (
                              name, R.bytes_text(w), s1[0], sorted(map(G.value_text, s1[1])), s2[0], sorted(map(G.value_text, s2[1]))))


def _enumerate_exprs(max_ops):
    a = Rx("pred", (), R.cls(b"a"))
    b = Rx("pred", (), R.cls(b"b"))
    by_ops = {0: [a, b]}
    for k in range(1, max_ops + 1):
        cur = []
        for e in by_ops[k - 1]:
            for op in ("some", "many", "optional"):
                cur.append(Rx(op, (e,)))
        for i in range(0, k):
            j = k - 1 - i
            for x in by_ops[i]:
                for y in by_ops[j]:
                    cur.append(Rx("seq", (x, y)))
                    cur.append(Rx("choice", (x, y)))
        by_ops[k] = cur
    return by_ops


def rule_model(ctx, wiring, max_ops, deno_ops):
    """bounded check of the MODEL: for all expressions up to max_ops operators over {a,b}: a discrepancy between the as-built and the regex
    language occurs only where R2's criterion flags an application; the DFA pipeline agrees with the set-theoretic denotation."""
    ctx.rule("R3-MODEL", "bounded check of the model over {a,b}: as-built≠regex only where R2 flags an application; DFA pipeline == denotational semantics",
             floor={2: 170, 3: 2256, 4: 33826}.get(max_ops, 0))
    model = wiring.model()
    by_ops = _enumerate_exprs(max_ops)
    memo_a, memo_r, flagged_memo, dfa_r, dfa_a = {}, {}, {}, {}, {}
    stats = {"expressions": 0, "different": 0, "different_and_flagged": 0, "flagged_but_equal": 0, "unexplained": 0, "denotation_checked": 0, "denotation_mismatch": 0}
    examples = []

    def flagged(e):
        k = id(e)
        if k in flagged_memo:
            return flagged_memo[k]
        r = False
        for x in e.args:
            r = flagged(x) or r
        if not r and e.op in R.COMB_OF and e.args:
            t = model[R.COMB_OF[e.op]]
            if t.inplace_forward():
                for x in e.args:
                    f = R.build_asbuilt(x, model, memo_a)
                    if R.start_has_in(f) or R.stop_has_out(f):
                        r = True
        flagged_memo[k] = r
        return r
    t0 = time.time()
    for k in range(0, max_ops + 1):
        for e in by_ops[k]:
            stats["expressions"] += 1
            da = R.minimize(R.determinize(R.build_asbuilt(e, model, memo_a)), keep_tags=False)
            dr = R.minimize(R.determinize(R.build_regex(e, memo_r)), keep_tags=False)
            d = R.distinguish(da, dr)
            fl = flagged(e)
            ctx.instance("R3-MODEL", None)
            if d is not None:
                stats["different"] += 1
                if fl:
                    stats["different_and_flagged"] += 1
                    if len(examples) < 5:
                        examples.append("%s : %s" % (R.rx_text(e), R.bytes_text(d[0])))
                else:
                    stats["unexplained"] += 1
                    ctx.violation("R3-MODEL", "model", "unexplained:" + _slug(R.rx_text(e)),
                                  "as-built and regex semantics differ on `%s` (%s) although no application is flagged by the shape typing: the model or the "
                                  "theorem is violated by the wiring read from automata.rs" % (R.rx_text(e), R.bytes_text(d[0])))
            elif fl:
                stats["flagged_but_equal"] += 1
            if k <= deno_ops:
                stats["denotation_checked"] += 1
                if set(R.words_upto(dr, 6)) != R.lang_upto(e, 6, b"ab"):
                    stats["denotation_mismatch"] += 1
                    ctx.violation("R3-MODEL", "model", "denotation:" + _slug(R.rx_text(e)), "checker self-test: DFA pipeline disagrees with the denotation of `%s`" % R.rx_text(e))
    stats["seconds"] = round(time.time() - t0, 2)
    stats["max_operators"] = max_ops
    stats["examples_of_flagged_differences"] = examples
    ctx.extra["bounded_model_check"] = stats
    ctx.exhaustive = {"domain": "all combinator expressions with <= %d operators over leaves {a, b}" % max_ops, "size": stats["expressions"]}



# ------------------------------------------------------------------------------------------------
# R5  subset construction: where a DFA edge may point
# ------------------------------------------------------------------------------------------------
def rule_r5(ctx):
    """Every edge stored in a DFA state's edge map points to the DFA state of the ε-closure of the move set: the id looked up in /
    freshly allocated for `epsilon_closure(flat_map(state -> edges.get(symbol)))`.  A shortcut that reuses another id (the current
    state for a "self loop", a cached neighbour) keeps NFA states alive that the symbol does not reach."""
    from ..flow import origins as forigins, expr as fexpr, arg_place as farg_place
    from ..mir import call_matches
    prog = ctx.prog
    ctx.rule("R5-SUBSET", "compile(): every (symbol -> DFAState) edge inserted for a state targets the id found in / allocated from the closure table for "
                          "epsilon_closure(move(state, symbol)); the work list and the table receive that same closure", floor=3)
    comp = prog.one(r"^automata::NFA::<T>::compile$")
    if comp is None:
        ctx.anchor("R5-SUBSET", "compile")
        return
    where = "automata::NFA::compile"
    ins = [(bb, t) for bb, t in comp.calls() if call_matches(t, r"BTreeMap::<K, V, A>::insert$") and len(t["args"]) == 3]
    edge_ins = [(bb, t) for bb, t in ins if t["arg_tys"][1] == "u8" and t["arg_tys"][2].endswith("DFAState")]
    closure_tab = [(bb, t) for bb, t in ins if "BTreeSet<automata::NFAStateId>" in t["arg_tys"][1] and t["arg_tys"][2].endswith("DFAState")]
    if not edge_ins or not closure_tab:
        ctx.anchor("R5-SUBSET", "compile/edge-insert", "the insertion of DFA edges or the closure table is not recognised")
        return
    tab_place = farg_place(comp, closure_tab[0][1], 0)
    for bb, t in edge_ins:
        og = forigins(comp, t["args"][2])
        bad = []
        for o in og:
            if o[0] == "call" and re.search(r"BTreeMap::<K, V, A>::(get|len)$", o[2]):
                ct = comp.blocks[o[1]]["term"]
                same_tab = farg_place(comp, ct, 0) == tab_place
                key_ok = True
                if o[2].endswith("::get"):
                    key_ok = "NFA::epsilon_closure(" in fexpr(comp, ct["args"][1])
                if same_tab and key_ok:
                    continue
            bad.append(o)
        ctx.instance("R5-SUBSET", {"edge_insert_block": bb, "target_origins": sorted(str(o) for o in og), "ok": not bad and bool(og)})
        if bad or not og:
            ctx.violation("R5-SUBSET", where, "edge-target", "a DFA edge is stored whose target does not come from the closure table entry of epsilon_closure(move(state, symbol)) "
                          "(origins %s): NFA states the symbol does not reach stay alive, so strings outside the language are accepted" % sorted(str(o) for o in bad or og),
                          sites=["%s:%d" % (comp.file, t["line"])])
    # the closure inserted into the table (with the fresh id) is the ε-closure of the move set over edges.get(symbol)
    for bb, t in closure_tab:
        k = fexpr(comp, t["args"][1])
        v = fexpr(comp, t["args"][2])
        if v == "DFAState(0)":
            ok = "NFA::epsilon_closure(arg1, iter::once(arg1.start))" in k
            ctx.instance("R5-SUBSET", {"initial_state": k[:100], "ok": ok})
            if not ok:
                ctx.violation("R5-SUBSET", where, "initial-state", "DFA state 0 is not the ε-closure of the NFA start state: %s" % k[:120], sites=["%s:%d" % (comp.file, t["line"])])
        else:
            ok = re.search(r"NFA::epsilon_closure\(arg1, .*Iterator::flat_map\(", k) is not None and re.fullmatch(r"DFAState\(BTreeMap::len\(.*\)\)", v) is not None
            ctx.instance("R5-SUBSET", {"new_state_key": k[:100], "id": v[:60], "ok": ok})
            if not ok:
                ctx.violation("R5-SUBSET", where, "new-state", "a new DFA state is registered with key %s / id %s instead of the ε-closure of the move set with the next free id" % (k[:100], v[:60]),
                              sites=["%s:%d" % (comp.file, t["line"])])

# ------------------------------------------------------------------------------------------------
# value terms (normalised provenance of a MIR operand) - what R4 decides on
#
# A term says *which value* an operand holds, not how the code is spelled: references, derefs, clones and integer casts are dropped; a
# container made by new()/with_capacity(n)/default() is `new<Type>` (capacity is not content); `x.unwrap()` is the payload of `x`;
# `opt.and_then(f)` / `opt.map(f)` applied to a closure literal are β-reduced with the closure's return term; captured variables of a
# closure are replaced by the terms they have where the closure is created.
#   ("c", text) ("arg", n) ("param", closure path, n) ("new", type) ("call", name, args) ("f", base, field) ("as", base, variant)
#   ("idx", base, index) ("agg", label, fields, field names) ("closure", path, captures) ("bin", op, a, b) ("un", op, a)
#   ("discr", base) ("local", body path, n) ("rv", kind)
# ------------------------------------------------------------------------------------------------
_TRANSPARENT = {"clone", "deref", "deref_mut", "as_ref", "as_mut", "borrow", "borrow_mut", "as_deref", "as_deref_mut", "cloned", "copied", "to_owned", "by_ref"}
_FRESH = {"new", "with_capacity", "default", "new_in", "with_capacity_in"}
_CONTAINER_TY = re.compile(r"^(?:std::|alloc::)?(?:[a-z_]+::)*(Vec|VecDeque|BTreeMap|BTreeSet|HashMap|HashSet)<")
_PAYLOAD = {"unwrap": None, "expect": None, "unwrap_unchecked": None}


def _last_seg(n):
    n = n or "?"
    for _ in range(6):
        n2 = re.sub(r"<[^<>]*>", "", n)
        if n2 == n:
            break
        n = n2
    segs = [x for x in n.split("::") if x]
    return segs[-1] if segs else "?"


def _fold_field(base, name):
    if base[0] == "agg":
        label, fields, fnames = base[1], base[2], base[3]
        if name in fnames:
            return fields[fnames.index(name)]
        if name.isdigit() and int(name) < len(fields) and (not fnames or all(f.isdigit() for f in fnames)):
            return fields[int(name)]
    if base[0] == "bin" and name == "0":
        return base                          # value half of a checked arithmetic pair
    if base[0] == "as" and base[1][0] == "agg" and base[1][1].endswith("::" + base[2]):
        return _fold_field(base[1], name)
    return ("f", base, name)


class Terms:
    def __init__(self, prog):
        self.prog = prog
        self._ret = {}

    def of(self, body, x, cx=None, depth=0, seen=()):
        if x.get("k") == "const":
            c = x["c"]
            if "fn" in c:
                return ("c", "fn:" + (c["fn"].get("resolved") or c["fn"].get("path") or "?"))
            return ("c", str(c.get("int", c.get("text", "?"))))
        place = x["place"] if "place" in x else x
        l, proj = place["l"], list(place["p"])
        if depth > 40 or (body.path, l) in seen:
            return self.proj(("local", body.path, l), proj, body, cx, depth, seen)
        if cx is not None and l == 1 and body.kind == "Closure":
            # the closure environment: (*_1).k / _1.k is capture k
            rest = [e for e in proj]
            while rest and rest[0]["k"] == "deref":
                rest = rest[1:]
            if rest and rest[0]["k"] == "field":
                k = rest[0].get("i", int(rest[0]["name"]) if str(rest[0].get("name", "")).isdigit() else None)
                if k is not None and k < len(cx["caps"]):
                    return self.proj(cx["caps"][k], rest[1:], body, cx, depth, seen)
            return self.proj(("param", body.path, 1), proj, body, cx, depth, seen)
        if 0 < l <= body.arg_count:
            if cx is not None:
                base = cx["params"].get(l, ("param", body.path, l))
            else:
                base = ("param", body.path, l) if body.kind == "Closure" else ("arg", l)
            return self.proj(base, proj, body, cx, depth, seen)
        ds = body.defs_of(l)
        if len(ds) != 1:
            return self.proj(("local", body.path, l), proj, body, cx, depth, seen)
        bb, si, rv = ds[0]
        seen = seen + ((body.path, l),)
        if si == "term":
            base = self.call(body, rv, l, cx, depth, seen)
            return self.proj(base, proj, body, cx, depth, seen)
        k = rv["k"]
        if k == "use":
            base = self.of(body, rv["a"], cx, depth + 1, seen)
        elif k in ("ref", "rawptr"):
            base = self.of(body, rv["place"], cx, depth + 1, seen)
        elif k == "agg":
            fields = tuple(self.of(body, f, cx, depth + 1, seen) for f in rv["fields"])
            if rv["ak"] == "closure":
                base = ("closure", rv["def"], fields)
            elif rv["ak"] == "adt":
                label = _short_ty(rv.get("adt", "?")) + ("::" + rv["variant"] if rv.get("is_enum") and rv.get("variant") else "")
                base = ("agg", label, fields, tuple(str(n) for n in (rv.get("fnames") or [])))
            else:
                base = ("agg", rv["ak"], fields, ())
        elif k == "bin":
            op = rv["op"].replace("WithOverflow", "").replace("Unchecked", "")
            base = ("bin", op, self.of(body, rv["a"], cx, depth + 1, seen), self.of(body, rv["b"], cx, depth + 1, seen))
        elif k == "cast":
            base = self.of(body, rv["a"], cx, depth + 1, seen)
        elif k == "un":
            base = ("un", rv["op"], self.of(body, rv["a"], cx, depth + 1, seen))
        elif k == "discr":
            base = ("discr", self.of(body, rv["place"], cx, depth + 1, seen))
        else:
            base = ("rv", k)
        return self.proj(base, proj, body, cx, depth, seen)

    def call(self, body, t, dest_local, cx, depth, seen):
        full = callee_name(t) or "?"
        nm = _last_seg(full)
        args = tuple(self.of(body, a, cx, depth + 1, seen) for a in t["args"])
        if nm in _FRESH and _CONTAINER_TY.match(body.local_ty(dest_local) or ""):
            return ("new", _short_ty(body.local_ty(dest_local)), "%s#%d" % (body.path, dest_local))     # identity: the variable, not just its type
        if nm in _TRANSPARENT and len(args) == 1:
            return args[0]
        if nm in _PAYLOAD and args:
            return self.payload(args[0], "Ok" if "Result" in full else "Some")
        if nm in ("index", "index_mut") and len(args) == 2:
            return ("call", "index", args)
        if nm == "map" and len(args) == 2 and args[1][0] == "closure" and self.closure_ret(args[1], {2: ("hole",)}) == ("hole",):
            return args[0]                     # x.map(|v| *v): same values
        if nm == "get_mut":
            nm = "get"
        if nm == "iter_mut":
            nm = "iter"
        return ("call", nm, args)

    def payload(self, opt, variant="Some"):
        return self.field(("as", opt, variant), "0")

    def field(self, base, name):
        # β-reduction: payload of opt.and_then(closure) / opt.map(closure)
        if name == "0" and base[0] == "as" and base[2] == "Some" and base[1][0] == "call" and base[1][1] in ("and_then", "map", "filter") and len(base[1][2]) == 2:
            opt, f = base[1][2]
            if base[1][1] == "filter":
                return self.payload(opt)
            if f[0] == "closure":
                r = self.closure_ret(f, {2: self.payload(opt)})
                if r is not None:
                    return self.payload(r) if base[1][1] == "and_then" else r
        return _fold_field(base, name)

    def proj(self, base, proj, body, cx, depth, seen):
        for e in proj:
            k = e["k"]
            if k == "deref":
                continue
            if k == "field":
                base = self.field(base, str(e["name"]))
            elif k == "downcast":
                base = ("as", base, e["variant"])
            elif k == "index":
                base = ("idx", base, self.of(body, {"l": e["l"], "p": []}, cx, depth + 1, seen))
            else:
                base = ("idx", base, ("rv", k))
        return base

    def closure_ret(self, clo, params):
        """return term of a closure literal applied to `params` ({param local: term}); None when the closure body is not available"""
        cb = self.prog.body(clo[1])
        if cb is None:
            return None
        return self.of(cb, {"l": 0, "p": []}, {"caps": clo[2], "params": dict(params)})

    def closure_cx(self, clo, params=None):
        return {"caps": clo[2], "params": dict(params or {})}


def ts(t, limit=400):
    """readable text of a term"""
    def go(t):
        k = t[0]
        if k == "c":
            return t[1]
        if k == "arg":
            return "arg%d" % t[1]
        if k == "param":
            return "%s#%d" % (t[1].split("::")[-1], t[2])
        if k == "new":
            return "new<%s>" % t[1]
        if k == "call":
            return "%s(%s)" % (t[1], ", ".join(go(a) for a in t[2]))
        if k == "f":
            return "%s.%s" % (go(t[1]), t[2])
        if k == "as":
            return "(%s as %s)" % (go(t[1]), t[2])
        if k == "idx":
            return "%s[%s]" % (go(t[1]), go(t[2]))
        if k == "agg":
            return "%s{%s}" % (t[1], ", ".join(go(a) for a in t[2]))
        if k == "closure":
            return "closure<%s>" % t[1]
        if k == "bin":
            return "%s(%s, %s)" % (t[1], go(t[2]), go(t[3]))
        if k == "un":
            return "%s(%s)" % (t[1], go(t[2]))
        if k == "discr":
            return "discr(%s)" % go(t[1])
        if k == "local":
            return "_%d" % t[2]
        return "<%s>" % "/".join(str(x) for x in t[1:])
    s = go(t) if t is not None else "None"
    return s if len(s) <= limit else s[:limit] + ".."


_ITER_WRAPPERS = {"into_iter", "iter", "iter_mut", "by_ref", "fuse", "peekable"}


def strip_iter(t, allow_enumerate=False):
    """(underlying container term, enumerated?) of an iterator term that visits every element of the container once, in its order"""
    enum = False
    while t[0] == "call" and len(t[2]) == 1:
        if t[1] in _ITER_WRAPPERS:
            t = t[2][0]
        elif t[1] == "enumerate" and allow_enumerate and not enum:
            enum = True
            t = t[2][0]
        else:
            break
    return t, enum


class Region:
    """code executed once per element of a traversal: the body of a loop driven by next() (entered on the Some edge), or the closure handed to an
    iterator adaptor / consumer.  `elem` is the term of the element; `full` says the traversal cannot be left early from inside the region."""

    def __init__(self, form, body, cx, entry, exits, blocks, elem, site_bb, full, outer_body, container=None):
        self.form, self.body, self.cx, self.entry, self.exits, self.blocks, self.elem, self.site_bb, self.full, self.outer_body = form, body, cx, entry, exits, blocks, elem, site_bb, full, outer_body
        self.container = container

    def must_pass(self, through):
        return self.body.cfg().must_pass(through, start=self.entry, exits=self.exits)

    def describe(self):
        return "%s over %s" % (self.form, self.body.path)


_PER_ELEMENT_CLOSURE = {"for_each": 2, "map": 2, "flat_map": 2, "filter_map": 2, "try_for_each": 2, "fold": 3, "try_fold": 3}


def regions_over(T, body, container_pred, cx=None, allow_enumerate=False, within=None):
    """regions of `body` that are executed once per element of a container accepted by container_pred(term)"""
    out = []
    cfg = body.cfg()
    loops = cfg.loops()
    for bb, t in body.calls():
        if within is not None and bb not in within:
            continue
        nm = _last_seg(callee_name(t))
        if not t["args"]:
            continue
        if nm == "next":
            it = T.of(body, t["args"][0], cx)
            cont, enum = strip_iter(it, allow_enumerate)
            if not container_pred(cont):
                continue
            nxt = t["t"]
            sw = body.blocks[nxt]["term"] if nxt >= 0 else {"k": "none"}
            if sw["k"] != "switch":
                continue
            some_t = none_t = None
            for v, tg in zip(sw["vals"], sw["targets"]):
                if str(v) == "1":
                    some_t = tg
                if str(v) == "0":
                    none_t = tg
            if some_t is None and sw["vals"] == ["0"]:
                some_t = sw["otherwise"]
            if none_t is None and sw["vals"] == ["1"]:
                none_t = sw["otherwise"]
            head = None
            for h, blks in loops.items():
                if bb in blks and (head is None or len(blks) < len(loops[head])):
                    head = h
            if some_t is None or head is None:
                continue
            blks = loops[head]
            # the loop is left only through the None edge of next(): no break / return from inside
            live = cfg.reaches(cfg.returns)
            leaving = [(x, s_) for x in blks for s_ in cfg.succ[x] if s_ not in blks and s_ in live]
            full = all(x == nxt and s_ == none_t for x, s_ in leaving) and not any(body.blocks[x]["term"]["k"] == "return" for x in blks)
            elem = T.payload(("call", "next", (it,)))
            out.append(Region("loop", body, cx, some_t, [head] + cfg.returns, set(blks), (elem, enum), bb, full, body, cont))
        elif nm in _PER_ELEMENT_CLOSURE and len(t["args"]) >= 2:
            it = T.of(body, t["args"][0], cx)
            cont, enum = strip_iter(it, allow_enumerate)
            if not container_pred(cont):
                continue
            clo = T.of(body, t["args"][-1], cx)
            cb = T.prog.body(clo[1]) if clo[0] == "closure" else None
            if cb is None:
                continue
            pi = _PER_ELEMENT_CLOSURE[nm]
            ccx = T.closure_cx(clo)
            ccfg = cb.cfg()
            out.append(Region(nm, cb, ccx, 0, ccfg.returns, set(range(len(cb.blocks))), (("param", cb.path, pi), enum), bb, nm in ("for_each", "map", "flat_map", "filter_map"), body, cont))
    return out


# ------------------------------------------------------------------------------------------------
# R4
# ------------------------------------------------------------------------------------------------
def _is_new(t, rx):
    return t is not None and t[0] == "new" and re.fullmatch(rx, t[1]) is not None


T_STATES_RX = r"BTreeMap<Rc<BTreeSet<NFAStateId>>, DFAState>"
T_TABLE_RX = r"BTreeMap<DFAState, BTreeMap<u8, DFAState>>"
T_INFOS_RX = r"Vec<DFAStateInfo<T>>"
T_FLAT_RX = r"Vec<Option<DFAState>>"


def _boxed(t):
    """strip Vec -> Box<[T]> conversions"""
    while t[0] == "call" and t[1] in ("into_boxed_slice", "into", "from") and len(t[2]) == 1:
        t = t[2][0]
    return t


def _guard_blocks(T, region):
    """blocks of the region that end in the density test: a switch on `element.0 == element.1.0.0` (index of the enumeration vs id of the DFA
    state) whose failing edge diverges into assert_failed / panic"""
    body, cx = region.body, region.cx
    elem, enum = region.elem
    if not enum:
        return []
    want = {("f", elem, "0"), ("f", ("f", ("f", elem, "1"), "0"), "0")}
    out = []
    for bb, t in body.terms():
        if bb not in region.blocks or t["k"] != "switch":
            continue
        cond = T.of(body, t["d"], cx)
        neg = False
        while cond[0] == "un" and cond[1] == "Not":
            cond, neg = cond[2], not neg
        if cond[0] != "bin" or cond[1] not in ("Eq", "Ne") or {cond[2], cond[3]} != want:
            continue
        holds_on = "1" if (cond[1] == "Eq") != neg else "0"
        fail = [tg for v, tg in zip(t["vals"], t["targets"]) if str(v) != holds_on]
        if len(t["vals"]) == 1 and str(t["vals"][0]) == holds_on:
            fail = [t["otherwise"]]
        elif len(t["vals"]) == 1:
            fail = [t["targets"][0]]
        if len(fail) != 1:
            continue
        # the failing edge must not come back: every path from it ends in a diverging call
        cfg = body.cfg()
        reach = cfg.reachable_from(fail[0])
        diverges = not any(body.blocks[x]["term"]["k"] == "return" for x in reach) and not (reach & {region.entry}) and \
            any(body.blocks[x]["term"]["k"] == "call" and re.search(r"panicking::|panic", callee_name(body.blocks[x]["term"]) or "") for x in reach)
        if diverges and bb not in reach:
            out.append(bb)
    return out


def table_rows(T, comp):
    """How DFA.states is produced.  Returns dict(problem=..) or dict(region=, row=(body, operand, cx), chain=..): the region executed once per
    (index, (state, edges)) of enumerate(dfa_table) and the operand holding the iterator of that state's row."""
    aggs = [(i, s["rv"]) for i, si, s in comp.assigns() if s["rv"]["k"] == "agg" and s["rv"]["ak"] == "adt" and s["rv"]["adt"].endswith("automata::DFA") and "fnames" in s["rv"]]
    if len(aggs) != 1 or "states" not in aggs[0][1]["fnames"]:
        return {"problem": "no unique DFA{..} literal"}
    agg_bb, agg = aggs[0]
    fields = dict(zip(agg["fnames"], agg["fields"]))
    st = _boxed(T.of(comp, fields["states"]))
    is_table = lambda c: _is_new(c, T_TABLE_RX)
    regs = regions_over(T, comp, is_table, allow_enumerate=True)
    regs = [r for r in regs if r.elem[1]]
    res = {"agg_bb": agg_bb, "fields": fields, "states_term": st, "regions": regs}
    cfg = comp.cfg()
    if st[0] == "call" and st[1] in ("collect", "from_iter") and len(st[2]) == 1:
        st = _boxed(st[2][0])
        while st[0] == "call" and st[1] == "into_iter" and len(st[2]) == 1:
            st = st[2][0]
        res["states_term"] = st
        if not (st[0] == "call" and st[1] == "flat_map"):
            return dict(res, problem="DFA.states is collected from %s" % ts(st, 160))
    if st[0] == "call" and st[1] in ("flat_map",) and len(st[2]) == 2:
        # collect(flat_map(enumerate(table), closure)) - the closure is the region, its return value the row
        rs = [r for r in regs if r.form == "flat_map" and T.of(comp, comp.blocks[r.site_bb]["term"]["args"][0]) == st[2][0] and st[2][1][0] == "closure" and st[2][1][1] == r.body.path]
        if len(rs) != 1:
            return dict(res, problem="DFA.states is a flat_map that is not over enumerate(dfa_table) with a closure literal")
        r = rs[0]
        ok_path = cfg.must_pass([r.site_bb], exits=[agg_bb])[0]
        return dict(res, region=r, row=(r.body, {"l": 0, "p": []}, r.cx), fill="collect", on_every_path=ok_path)
    if _is_new(st, T_FLAT_RX):
        # a vector that starts empty and is only extended with rows
        fills = []
        other = []
        for b2, cx2, where in [(comp, None, None)] + [(r.body, r.cx, r) for r in regs if r.body is not comp]:
            for bb, t in b2.calls():
                if not t["args"] or T.of(b2, t["args"][0], cx2) != st:
                    continue
                nm = _last_seg(callee_name(t))
                if nm in ("len", "capacity", "is_empty", "reserve", "reserve_exact", "shrink_to_fit", "into_boxed_slice", "as_slice", "iter"):
                    continue
                (fills if nm in ("extend", "push", "extend_from_slice", "append") else other).append((b2, cx2, bb, t, nm))
        if other:
            return dict(res, problem="the table vector is also modified by %s" % sorted({o[4] for o in other}))
        if len(fills) == 1 and fills[0][4] == "push":
            # one cell pushed per step of an inner loop that is run once per (index, (state, edges)) of enumerate(dfa_table): the inner loop's
            # iterator is that state's row, the pushed value its cell
            b2, cx2, bb, t, nm = fills[0]
            rs = [r for r in regs if r.body is b2 and bb in r.blocks and r.form in ("loop", "for_each")]
            if len(rs) != 1:
                return dict(res, problem="the push into the table vector is not inside a traversal of enumerate(dfa_table)")
            r = rs[0]
            cfg2 = b2.cfg()
            around = [h for h, blks in cfg2.loops().items() if bb in blks]
            qs = [q for q in regions_over(T, b2, lambda c: True, cx=cx2, within=r.blocks)
                  if q.form == "loop" and bb in q.blocks and q.site_bb != r.site_bb and (r.form != "loop" or q.blocks < r.blocks)]
            if len(qs) != 1 or len(around) != (2 if r.form == "loop" else 1):
                return dict(res, problem="the push into the table vector is not inside exactly one inner loop per entry of enumerate(dfa_table)")
            q = qs[0]
            # the row iterator is created afresh for every entry: its single definition lies in the outer region, outside the inner loop
            it_op = b2.blocks[q.site_bb]["term"]["args"][0]
            it_local = None
            for _ in range(6):      # next(&mut *&mut it): follow reborrows down to the iterator local
                k_, d_ = _single_def(b2, it_op)
                if k_ != "ref" or any(e_["k"] != "deref" for e_ in d_["place"]["p"]):
                    break
                if not d_["place"]["p"]:
                    it_local = d_["place"]["l"]
                    break
                it_op = {"k": "copy", "place": {"l": d_["place"]["l"], "p": []}}
            ds = b2.defs_of(it_local) if it_local is not None else []
            fresh_row = len(ds) == 1 and ds[0][0] in r.blocks and ds[0][0] not in q.blocks
            if not fresh_row:
                return dict(res, problem="the iterator of the inner loop that pushes the cells is not created once per entry of enumerate(dfa_table)")
            once = r.full and q.full and q.must_pass([bb])[0] and r.must_pass([q.site_bb])[0]
            ok_path = once and cfg.must_pass([r.site_bb], exits=[agg_bb])[0]
            return dict(res, region=r, row=(b2, {"k": "move", "place": {"l": it_local, "p": []}}, cx2), fill="push per cell of a row loop", on_every_path=ok_path,
                        cell=(q, bb, t))
        if len(fills) != 1 or fills[0][4] != "extend":
            return dict(res, problem="the table vector is filled by %s (one extend expected)" % [f[4] for f in fills])
        b2, cx2, bb, t, nm = fills[0]
        src = T.of(b2, t["args"][1], cx2)
        if src[0] == "call" and src[1] == "flat_map" and len(src[2]) == 2 and b2 is comp:
            rs = [r for r in regs if r.form == "flat_map" and src[2][1][0] == "closure" and src[2][1][1] == r.body.path and T.of(comp, comp.blocks[r.site_bb]["term"]["args"][0]) == src[2][0]]
            if len(rs) != 1:
                return dict(res, problem="the table vector is extended by a flat_map that is not over enumerate(dfa_table)")
            r = rs[0]
            ok_path = cfg.must_pass([bb], exits=[agg_bb])[0] and not any(bb in blks for blks in cfg.loops().values())
            return dict(res, region=r, row=(r.body, {"l": 0, "p": []}, r.cx), fill="extend(flat_map)", on_every_path=ok_path)
        # extend(row) once per iteration of a loop / for_each over enumerate(dfa_table)
        rs = [r for r in regs if r.body is b2 and bb in r.blocks and r.form in ("loop", "for_each")]
        if len(rs) != 1:
            return dict(res, problem="the extend of the table vector is not inside a traversal of enumerate(dfa_table)")
        r = rs[0]
        once = r.must_pass([bb])[0] and r.full
        inner = [h for h, blks in r.body.cfg().loops().items() if bb in blks and (r.form != "loop" or len(blks) < len(r.blocks))]
        ok_path = once and not inner and cfg.must_pass([r.site_bb], exits=[agg_bb])[0]
        return dict(res, region=r, row=(b2, t["args"][1], cx2), fill="extend per row", on_every_path=ok_path)
    return dict(res, problem="DFA.states is %s" % ts(st, 160))


def rule_r4(ctx):
    prog = ctx.prog
    ctx.rule("R4-DENSITY", "compile(): the `index == state.0` assert guards every row that flows into DFA.states (MUST-PASS)", floor=3)
    ctx.rule("R4-INFO", "compile(): is_accepting <- contains(&self.stop); is_terminal <- dfa_table[id].is_empty(); tags <- union of member tags", floor=4)
    comp = prog.one(r"^automata::NFA::<T>::compile$")
    if comp is None:
        ctx.anchor("R4-DENSITY", "compile")
        ctx.anchor("R4-INFO", "compile")
        return
    where = "automata::NFA::compile"
    T = Terms(prog)
    # ---- density
    tr = table_rows(T, comp)
    region = tr.get("region")
    guards = _guard_blocks(T, region) if region is not None else []
    if region is None:
        # is there a density test anywhere over enumerate(dfa_table)?
        for r in tr.get("regions", []):
            if _guard_blocks(T, r):
                guards = guards or ["elsewhere"]
    ctx.instance("R4-DENSITY", {"rows_from": region.describe() if region else None, "fill": tr.get("fill"), "guard_blocks": guards, "problem": tr.get("problem")})
    if region is not None and not guards or region is None and not guards:
        ctx.violation("R4-DENSITY", where, "no-density-assert",
                      "nothing in compile() compares the enumeration index with the DFA state id (assert_eq!(index, state.0)) before emitting a table row",
                      sites=[comp.loc])
    if region is not None and guards:
        ok, wit = region.must_pass(guards)
        elem_ty_ok = True
        if region.form != "loop":
            elem_ty_ok = region.body.local_ty(region.elem[0][2]).startswith("(usize, (automata::DFAState")
        ctx.instance("R4-DENSITY", {"every_row_passes_guard": ok, "element": ts(region.elem[0], 120)})
        if not ok or not elem_ty_ok:
            ctx.violation("R4-DENSITY", where, "guard-bypassed", "a path through %s produces a row without the index/state comparison (%s)" % (region.describe(), wit), sites=[region.body.loc])
    okp = region is not None and tr.get("on_every_path")
    ctx.instance("R4-DENSITY", {"dfa_states_field": ts(tr.get("states_term"), 200) if tr.get("states_term") else None, "rows_on_every_path": bool(okp)})
    if region is None or not okp:
        if guards or region is not None:
            ctx.violation("R4-DENSITY", where, "states-not-from-guarded-rows",
                          "DFA.states is not built, on every path, from exactly the rows produced by the guarded traversal of enumerate(dfa_table) (%s)" % (tr.get("problem") or tr.get("fill")),
                          sites=[comp.loc])
    fields = tr.get("fields") or {}
    INFOS = _boxed(T.of(comp, fields["infos"])) if "infos" in fields else None
    if not _is_new(INFOS, T_INFOS_RX):
        ctx.violation("R4-INFO", where, "infos-origin", "DFA.infos is not the info vector filled in compile (found %s)" % ts(INFOS, 160), sites=[comp.loc])
    # ---- infos: one traversal of dfa_states; per entry (state set, id)
    is_states = lambda c: _is_new(c, T_STATES_RX)
    outer = [r for r in regions_over(T, comp, is_states) if r.form in ("loop", "for_each")]
    writes = {"is_accepting": [], "is_terminal": []}
    tag_ins = []
    R = outer[0] if len(outer) == 1 else None
    # the transition table: the map whose enumeration produces the rows (when understood), else the only map of that type
    TABLE = region.container if region is not None else None
    if TABLE is None:
        cands = {c for r_ in tr.get("regions", []) for c in [r_.container]}
        TABLE = cands.pop() if len(cands) == 1 else ("new", "?", "?")
    if R is not None:
        E = R.elem[0]
        SET, ID = T.field(E, "0"), T.field(E, "1")
        slot = ("call", "index", (INFOS, T.field(ID, "0")))
        slot_alt = T.payload(("call", "get", (INFOS, T.field(ID, "0"))))
        for i, si, s in R.body.assigns():
            pl = s["place"]["p"]
            if i in R.blocks and pl and pl[-1]["k"] == "field" and pl[-1]["name"] in writes:
                dest = T.of(R.body, {"l": s["place"]["l"], "p": pl[:-1]}, R.cx)
                val = T.of(R.body, s["rv"]["a"], R.cx) if s["rv"]["k"] == "use" else ("rv", s["rv"]["k"])
                writes[pl[-1]["name"]].append((dest, val, s.get("line")))
        exp = {
            "is_accepting": [("call", "contains", (SET, ("f", ("arg", 1), "stop")))],
            "is_terminal": [("call", "is_empty", (("call", "index", (TABLE, ID)),)),
                            ("call", "is_empty", (T.payload(("call", "get", (TABLE, ID))),))],
        }
    else:
        slot = slot_alt = None
        exp = {"is_accepting": [], "is_terminal": []}
    for fld in ("is_accepting", "is_terminal"):
        ws = writes[fld]
        good = R is not None and R.full and len(ws) == 1 and ws[0][0] in (slot, slot_alt) and ws[0][1] in exp[fld]
        ctx.instance("R4-INFO", {"field": fld, "writes": [(ts(w[0], 160), ts(w[1], 200)) for w in ws]})
        if not good:
            ctx.violation("R4-INFO", where, fld,
                          "%s of the DFA state info is not assigned (once, for every entry of dfa_states) from %s for the state set / id of the same entry; found %s" % (
                              fld, " | ".join(ts(e, 160) for e in exp[fld]) or "?", [(ts(w[0], 120), ts(w[1], 160)) for w in ws]),
                          sites=["%s:%s" % (comp.file, w[2]) for w in ws] or [comp.loc])
    # ---- tags: union over the member NFA states of the entry's state set
    good = False
    why = "no insert into info.tags"
    if R is not None:
        tags_of = lambda t: t is not None and t[0] == "f" and t[2] == "tags" and t[1] in (slot, slot_alt)
        adds = []
        for bb, t in R.body.calls():
            nm = _last_seg(callee_name(t))
            if bb in R.blocks and nm in ("insert", "extend", "append", "replace") and len(t["args"]) == 2 and tags_of(T.of(R.body, t["args"][0], R.cx)):
                adds.append((bb, nm, t))
        others = [(bb, _last_seg(callee_name(t))) for bb, t in comp.calls() if t["args"] and _last_seg(callee_name(t)) in ("insert", "extend", "append", "clear", "remove", "retain", "replace")
                  and (lambda a0: a0[0] == "f" and a0[2] == "tags")(T.of(comp, t["args"][0])) and (R.body is not comp or bb not in R.blocks)]
        tag_ins = adds
        if len(adds) != 1 or others:
            why = "%d additions to info.tags inside the traversal of dfa_states, %d elsewhere" % (len(adds), len(others))
        else:
            bb, nm, t = adds[0]
            members = lambda c: c == SET
            if nm == "insert":
                inner = [r for r in regions_over(T, R.body, members, cx=R.cx, within=R.blocks) if r.form == "loop" and bb in r.blocks and r.blocks < R.blocks | {R.site_bb} or
                         (r.form == "loop" and bb in r.blocks and R.form != "loop")]
                val = T.of(R.body, t["args"][1], R.cx)
                if len(inner) != 1:
                    why = "the insert is not inside the loop over the member NFA states"
                else:
                    M = inner[0].elem[0]
                    want = _tag_of_member(T, M)
                    if val not in want:
                        why = "inserted value is %s, expected the tag of self.states[member]: %s" % (ts(val, 200), ts(want[0], 160))
                    elif not inner[0].full:
                        why = "the loop over the member NFA states can be left early (break / return): not every member contributes its tag"
                    else:
                        good = True
            elif nm == "extend":
                src = T.of(R.body, t["args"][1], R.cx)
                # extend(filter_map / flat_map (members, |m| tag of m))
                if src[0] == "call" and src[1] in ("filter_map", "flat_map") and len(src[2]) == 2 and strip_iter(src[2][0])[0] == SET and src[2][1][0] == "closure":
                    cb = prog.body(src[2][1][1])
                    M = ("param", cb.path, 2) if cb is not None else None
                    r = T.closure_ret(src[2][1], {}) if cb is not None else None
                    if r is not None and T.payload(r) in _tag_of_member(T, M):
                        good = True
                    else:
                        why = "the closure yields %s per member" % ts(r, 200)
                else:
                    why = "tags are extended from %s" % ts(src, 200)
            else:
                why = "tags are changed with %s" % nm
    else:
        why = "%d traversals of dfa_states found (one expected)" % len(outer)
    ctx.instance("R4-INFO", {"field": "tags", "additions": [(b_, n_) for b_, n_, t_ in tag_ins], "ok": good})
    if not good:
        ctx.violation("R4-INFO", where, "tags", "tags of a DFA state are not the union of the tags of its member NFA states: " + why,
                      sites=["%s:%s" % (comp.file, x[2].get("line")) for x in tag_ins] or [comp.loc])
    # the info vector has one (default) entry per DFA state before it is filled in
    rs = [T.of(comp, t["args"][1]) for bb, t in comp.calls() if _last_seg(callee_name(t)) == "resize_with" and T.of(comp, t["args"][0]) == INFOS]
    ctx.instance("R4-INFO", {"infos_len": [ts(r, 120) for r in rs]})
    states_tm = R.container if R is not None else None
    if states_tm is None or rs != [("call", "len", (states_tm,))]:
        ctx.violation("R4-INFO", where, "infos-len", "the info vector is not sized by dfa_states.len(): %s" % [ts(r, 120) for r in rs], sites=[comp.loc])


def _tag_of_member(T, M):
    """terms denoting `tag` (payload) of the NFA state self.states[member]"""
    states = ("f", ("arg", 1), "states")
    by_get = T.payload(("call", "get", (states, M)))
    by_index = ("call", "index", (states, M))
    return [T.payload(("f", by_get, "tag")), T.payload(("f", by_index, "tag"))]


# ------------------------------------------------------------------------------------------------
# R4-TABLE: geometry of the flattened transition table (row width written by compile == stride read by DFA::transition == |alphabet|)
# ------------------------------------------------------------------------------------------------
class _NotConst(Exception):
    pass


_UINT_BITS = {"u8": 8, "u16": 16, "u32": 32, "u64": 64, "usize": 64}


def _closure_agg(prog, closure_body):
    """(parent body, aggregate rvalue) that creates the closure"""
    parent = prog.body(closure_body.j.get("closure_parent") or "")
    if parent is None:
        return None, None
    aggs = [s["rv"] for i, si, s in parent.assigns() if s["rv"]["k"] == "agg" and s["rv"]["ak"] == "closure" and s["rv"].get("def") == closure_body.path]
    return (parent, aggs[0]) if len(aggs) == 1 else (parent, None)


def const_int(prog, body, x, depth=0):
    """value of a MIR operand/place that is a compile-time constant of the function: integer literals, integer casts, + - * of such, moves,
    references, and variables captured by a closure (followed into the enclosing body).  Raises _NotConst (with the construct) otherwise."""
    if depth > 40:
        raise _NotConst("definition chain too long")
    if x.get("k") == "const":
        c = x["c"]
        if "int" not in c:
            raise _NotConst("constant %s" % c.get("text", "?"))
        return int(c["int"])
    place = x["place"] if "place" in x else x
    l = place["l"]
    proj = [e for e in place["p"] if e["k"] != "deref"]
    if body.kind == "Closure" and l == 1:
        if len(proj) != 1 or proj[0]["k"] != "field":
            raise _NotConst("captured place %s" % _proj("_1", place["p"]))
        parent, agg = _closure_agg(prog, body)
        idx = proj[0].get("i", int(proj[0]["name"]) if str(proj[0].get("name", "")).isdigit() else None)
        if agg is None or idx is None or idx >= len(agg["fields"]):
            raise _NotConst("capture %s of %s" % (proj[0].get("name"), body.path))
        return const_int(prog, parent, agg["fields"][idx], depth + 1)
    if 0 < l <= body.arg_count:
        raise _NotConst("argument %d" % l)
    ds = body.defs_of(l)
    if len(ds) != 1:
        raise _NotConst("local _%d has %d definitions" % (l, len(ds)))
    bb, si, rv = ds[0]
    if si == "term":
        raise _NotConst("result of %s" % _short_fn(callee_name(rv)))
    k = rv["k"]
    if k == "bin":
        op = rv["op"]
        checked = op.endswith("WithOverflow")
        if (checked and not (len(proj) == 1 and proj[0]["k"] == "field" and str(proj[0]["name"]) == "0")) or (not checked and proj):
            raise _NotConst("projection of %s" % op)
        a = const_int(prog, body, rv["a"], depth + 1)
        b = const_int(prog, body, rv["b"], depth + 1)
        op = op.replace("WithOverflow", "").replace("Unchecked", "")
        if op == "Add":
            return a + b
        if op == "Sub":
            return a - b
        if op == "Mul":
            return a * b
        if op == "Shl" and 0 <= b < 64:
            return a << b
        if op == "Shr" and 0 <= b < 64:
            return a >> b
        if op == "Div" and b:
            return a // b
        if op in ("BitOr", "BitAnd", "BitXor"):
            return {"BitOr": a | b, "BitAnd": a & b, "BitXor": a ^ b}[op]
        raise _NotConst("operator %s" % op)
    if proj:
        raise _NotConst("projection %s" % _proj("_%d" % l, place["p"]))
    if k == "use":
        return const_int(prog, body, rv["a"], depth + 1)
    if k == "ref":
        return const_int(prog, body, rv["place"], depth + 1)
    if k == "cast" and rv.get("ck") == "IntToInt":
        v = const_int(prog, body, rv["a"], depth + 1)
        bits = _UINT_BITS.get(rv.get("ty"))
        if bits is None:
            raise _NotConst("cast to %s" % rv.get("ty"))
        return v & ((1 << bits) - 1)
    raise _NotConst("rvalue %s" % k)


def _single_def(body, x):
    """(kind, rvalue-or-terminator) of the single definition behind a plain local operand, chasing moves"""
    for _ in range(20):
        if x.get("k") == "const":
            return None, None
        place = x["place"] if "place" in x else x
        if place["p"] or 0 < place["l"] <= body.arg_count:
            return None, None
        ds = body.defs_of(place["l"])
        if len(ds) != 1:
            return None, None
        bb, si, rv = ds[0]
        if si != "term" and rv["k"] == "use":
            x = rv["a"]
            continue
        return ("call" if si == "term" else rv["k"]), rv
    return None, None


def row_iterator(prog, body, x, depth=0):
    """(first symbol, number of items, map closure body or None) of the per-state iterator a row closure returns: a (possibly mapped)
    integer range with constant bounds.  Raises _NotConst for any other shape (fail closed)."""
    if depth > 8:
        raise _NotConst("iterator chain too long")
    kind, d = _single_def(body, x)
    if kind == "call":
        nm = callee_name(d) or ""
        if re.search(r"Iterator::map$", nm) and len(d["args"]) == 2:
            lo, n, inner = row_iterator(prog, body, d["args"][0], depth + 1)
            if inner is not None:
                raise _NotConst("two map() layers")
            ck, cd = _single_def(body, d["args"][1])
            mc = prog.body(cd["def"]) if ck == "agg" and cd.get("ak") == "closure" else None
            if mc is None:
                raise _NotConst("map() argument is not a closure literal")
            return lo, n, mc
        if re.search(r"IntoIterator>?::into_iter$", nm) and len(d["args"]) == 1:
            return row_iterator(prog, body, d["args"][0], depth + 1)
        if re.search(r"RangeInclusive::<\w+>::new$", nm) and len(d["args"]) == 2:
            lo, hi = const_int(prog, body, d["args"][0]), const_int(prog, body, d["args"][1])
            return lo, hi - lo + 1, None
        raise _NotConst("iterator built by %s" % _short_fn(nm))
    if kind == "agg" and d.get("ak") == "adt" and re.search(r"\bops::Range$", d.get("adt") or "") and len(d["fields"]) == 2:
        lo, hi = const_int(prog, body, d["fields"][0]), const_int(prog, body, d["fields"][1])
        return lo, hi - lo, None
    raise _NotConst("row iterator is not a mapped integer range")


def _term_args(term, head):
    """top-level arguments of a canonical term `head(a, b, ..)` (sa.flow.expr text), or None"""
    if not (term.startswith(head + "(") and term.endswith(")")):
        return None
    inner = term[len(head) + 1:-1]
    out, depth, cur = [], 0, ""
    for ch in inner:
        if ch == "," and depth == 0:
            out.append(cur.strip())
            cur = ""
            continue
        depth += ch == "("
        depth -= ch == ")"
        if depth < 0:
            return None
        cur += ch
    out.append(cur.strip())
    return out if depth == 0 else None


def _ret_operand():
    return {"k": "move", "place": {"l": 0, "p": []}}


def rule_r4_table(ctx):
    from ..flow import expr as fexpr
    prog = ctx.prog
    ctx.rule("R4-TABLE", "flattened table geometry: DFA::transition indexes states[stride*state + symbol]; compile() stores stride = |alphabet| = 256 and emits, per "
                         "state, exactly one entry for each symbol 0..=255 in order, looked up in that state's edge map", floor=4)
    where = "automata::NFA::compile"
    tr = prog.one(r"^automata::DFA::<T>::transition$")
    comp = prog.one(r"^automata::NFA::<T>::compile$")
    if tr is None or comp is None:
        ctx.anchor("R4-TABLE", "transition/compile")
        return
    # ---- (1) the stride DFA::transition uses (the index arithmetic may live in a private helper: look at the body with helpers expanded)
    tr = prog.inlined(tr.path, keep=r"::transition$", multi=True) or tr
    idx_locals = set()

    def scan(place):
        for e in place.get("p", []):
            if e["k"] == "index":
                idx_locals.add(e["l"])
    for i, si, s in tr.assigns():
        scan(s["place"])
        rv = s["rv"]
        for key in ("a", "b"):
            if isinstance(rv.get(key), dict) and "place" in rv[key]:
                scan(rv[key]["place"])
        if "place" in rv:
            scan(rv["place"])
    stride_field = None
    sym_bits = None
    sym_ty = None
    term = None
    if len(idx_locals) == 1:
        term = fexpr(tr, {"k": "copy", "place": {"l": list(idx_locals)[0], "p": []}})
        parts = _term_args(term, "Add")
        if parts is not None and len(parts) == 2:
            mul = [p for p in parts if p.startswith("Mul(")]
            sym = [p for p in parts if not p.startswith("Mul(")]
            mm = re.fullmatch(r"Mul\((arg\d+(?:\.\w+)+), (arg\d+(?:\.\w+)+)\)", mul[0]) if len(mul) == 1 else None
            # the symbol widened to the index type: `symbol as usize`, or a lossless conversion call (usize::from(symbol) / symbol.into()),
            # which the canonical term sees through (sa.flow TRANSPARENT_CALLS) - the argument's own type then gives the alphabet
            ms = re.fullmatch(r"\(arg(\d+) as usize\)|arg(\d+)", sym[0]) if len(sym) == 1 else None
            if mm and ms:
                fs = [re.fullmatch(r"arg1\.(\w+)", g) for g in mm.groups()]
                sym_arg = int(ms.group(1) or ms.group(2))
                st = [g for g in mm.groups() if re.fullmatch(r"arg[2-9]\.0", g) and int(g[3]) != sym_arg]
                fs = [f.group(1) for f in fs if f]
                if len(fs) == 1 and len(st) == 1 and 1 < sym_arg <= tr.arg_count and re.search(r"\bDFAState$", tr.local_ty(int(st[0][3]))):
                    stride_field = fs[0]
                    sym_ty = tr.local_ty(sym_arg)
                    sym_bits = _UINT_BITS.get(sym_ty)
    ctx.instance("R4-TABLE", {"fn": tr.path, "index": term, "stride_field": stride_field, "symbol_type": sym_ty})
    if stride_field is None or sym_bits is None or sym_bits > 16:
        ctx.anchor("R4-TABLE", "transition-index", "DFA::transition does not index the table by <self.field> * state.0 + symbol as usize (found %s)" % term)
        return
    alphabet = 1 << sym_bits
    # ---- (2) the stride compile() stores
    dfa_agg = [s["rv"] for i, si, s in comp.assigns() if s["rv"]["k"] == "agg" and s["rv"]["ak"] == "adt" and s["rv"]["adt"].endswith("automata::DFA") and "fnames" in s["rv"]]
    stride = None
    why = None
    if len(dfa_agg) == 1 and stride_field in dfa_agg[0]["fnames"]:
        op = dfa_agg[0]["fields"][dfa_agg[0]["fnames"].index(stride_field)]
        try:
            stride = const_int(prog, comp, op)
        except _NotConst as ex:
            why = "%s (%s)" % (fexpr(comp, op), ex)
    else:
        why = "no unique DFA{..} literal with field %s" % stride_field
    ctx.instance("R4-TABLE", {"stride_field": stride_field, "stored_by_compile": stride, "alphabet": alphabet})
    if stride is None:
        ctx.anchor("R4-TABLE", "stride-not-constant", "DFA.%s as stored by compile() is not a constant the rule can evaluate: %s" % (stride_field, why))
    elif stride != alphabet:
        ctx.violation("R4-TABLE", where, "stride",
                      "compile() stores %s = %d but a symbol is a %s (%d values): DFA::transition(s, %d) reads index %d*s + %d = %d*(s+1) + %d, i.e. the entry of state s+1 "
                      "for symbol %d (a wrong state instead of a dead transition; out of bounds from the last state)"
                      % (stride_field, stride, sym_ty, alphabet, alphabet - 1, stride, alphabet - 1, stride, alphabet - 1 - stride, alphabet - 1 - stride)
                      if 0 < stride < alphabet else
                      "compile() stores %s = %d but a symbol is a %s (%d values): rows of the flattened table must be exactly %d entries apart" % (stride_field, stride, sym_ty, alphabet, alphabet),
                      sites=[comp.loc, tr.loc], detail={"stride": stride, "alphabet": alphabet})
    # ---- (3) the rows compile() emits: the region executed once per (index, (state, edges)) of enumerate(dfa_table) - the closure handed to
    # flat_map, or the body of a loop that extends the table vector - and the iterator holding that state's row (table_rows)
    T = Terms(prog)
    tr = table_rows(T, comp)
    region = tr.get("region")
    if region is None:
        ctx.anchor("R4-TABLE", "row-closure", "DFA.states is not built from one row per entry of enumerate(dfa_table): %s" % tr.get("problem"))
        return
    rbody, rop, rcx = tr["row"]
    try:
        lo, n, mc = row_iterator(prog, rbody, rop if "place" in rop or rop.get("k") == "const" else {"k": "move", "place": rop})
    except _NotConst as ex:
        ctx.instance("R4-TABLE", {"row_region": region.describe(), "understood": False})
        ctx.anchor("R4-TABLE", "row-iterator", "the per-state row built by %s is not a mapped integer range with constant bounds: %s" % (region.describe(), ex))
        return
    ctx.instance("R4-TABLE", {"row_region": region.describe(), "first_symbol": lo, "entries_per_state": n, "alphabet": alphabet})
    if lo != 0 or n != alphabet:
        ctx.violation("R4-TABLE", where, "row-width",
                      "each state contributes the entries for symbols %d..%d (%d entries) to the flattened table, but DFA::transition addresses the row by any %s symbol "
                      "(index = %s*state + symbol, %d values): symbols %d..=%d have no entry in their state's row, the index computed for them lies in the row of a later "
                      "state (a wrong state instead of a dead transition) or past the end of the table"
                      % (lo, lo + n - 1, n, sym_ty, stride_field, alphabet, n, alphabet - 1) if lo == 0 and 0 < n < alphabet else
                      "each state contributes the entries for symbols %d..%d (%d entries) to the flattened table; the full alphabet 0..=%d (%d entries) is required"
                      % (lo, lo + n - 1, n, alphabet - 1, alphabet),
                      sites=[rbody.loc], detail={"first": lo, "entries": n, "alphabet": alphabet})
    # ---- (4) column j of a row is the edge for symbol j of that state: the map closure returns edges.get(&j) on the edge map of the region's element
    key = edges = ret = None
    E = region.elem[0]
    want_edges = T.field(T.field(E, "1"), "1")
    cell = tr.get("cell")
    if cell is not None and mc is None:
        # rows written cell by cell: the inner loop's element is the symbol, the pushed value must be the lookup of that symbol in the entry's edge map
        q, pbb, pt = cell
        ret = T.of(rbody, pt["args"][1], rcx)
        gets = [t for bb, t in rbody.calls() if bb in q.blocks and _last_seg(callee_name(t)) == "get" and len(t["args"]) == 2]
        if len(gets) == 1:
            edges = T.of(rbody, gets[0]["args"][0], rcx)
            key = T.of(rbody, gets[0]["args"][1], rcx)
        good = key is not None and key == q.elem[0] and edges == want_edges and ret == ("call", "get", (edges, key))
        ctx.instance("R4-TABLE", {"cell_loop": q.describe(), "lookup_key": ts(key, 80) if key else None, "edge_map": ts(edges, 160) if edges else None,
                                  "entry": ts(ret, 200) if ret else None, "ok": good})
        if not good:
            ctx.violation("R4-TABLE", where, "column-key",
                          "entry j of a state's row must be edges.get(&j) on the edge map of the enumerated (state, edges) pair; found key %s on %s giving %s" % (
                              ts(key, 80) if key else None, ts(edges, 120) if edges else None, ts(ret, 160) if ret else None),
                          sites=[rbody.loc])
        return
    if mc is not None:
        parent, agg = _closure_agg(prog, mc)
        if agg is not None and parent is not None and parent.path == rbody.path:
            mcx = {"caps": tuple(T.of(rbody, f, rcx) for f in agg["fields"]), "params": {}}
            ret = T.of(mc, {"l": 0, "p": []}, mcx)
            gets = [t for bb, t in mc.calls() if _last_seg(callee_name(t)) == "get" and len(t["args"]) == 2]
            if len(gets) == 1:
                edges = T.of(mc, gets[0]["args"][0], mcx)
                key = T.of(mc, gets[0]["args"][1], mcx)
    good = mc is not None and key == ("param", mc.path, 2) and edges == want_edges and ret == ("call", "get", (edges, key))
    ctx.instance("R4-TABLE", {"map_closure": mc.path if mc else None, "lookup_key": ts(key, 80) if key else None, "edge_map": ts(edges, 160) if edges else None,
                              "entry": ts(ret, 200) if ret else None, "ok": good})
    if not good:
        ctx.violation("R4-TABLE", where, "column-key",
                      "entry j of a state's row must be edges.get(&j) on the edge map of the enumerated (state, edges) pair; found key %s on %s giving %s" % (
                          ts(key, 80) if key else None, ts(edges, 120) if edges else None, ts(ret, 160) if ret else None),
                      sites=[(mc or rbody).loc])


# ------------------------------------------------------------------------------------------------
def run(ctx):
    ctx.explanation = (
        "Decided: (R1) the ε-wiring of sequence/choice/some/optional/many/From<&str>/predicate/empty/nothing is read from the source of automata.rs "
        "as a template over roles {fresh start/stop, operand start/stop} and equals Thompson's template in its fresh or in-place variant; merge_states "
        "renumbers operands into disjoint increasing id ranges; (R2) every combinator application reachable from the grammars of decoder.rs is typed by "
        "(start-has-in-edge, stop-has-out-edge) on the as-built fragment and in-place start→stop edges are only applied to clean operands; (R3) for every "
        "grammar the automaton as built (own Thompson builder driven by the templates read in R1, own power-set construction) accepts exactly the language "
        "of the expression under the documented regex meaning, the two decoder automata equal the tagged union of their members, and the model is checked "
        "exhaustively on small expressions; (R4) compile() guards every table row by the density assert and derives is_accepting/is_terminal/tags from "
        "contains(stop)/empty row/member tags; (R4-TABLE) the flattened transition table has rows of exactly 256 entries (symbols 0..=255 in order, each "
        "looked up in the state's own edge map) and DFA::transition addresses it with the same stride, stored as a constant by compile(). NOT decided: "
        "correctness of the repository's power-set loop beyond R4 (worklist, closure), termination, and Debug output.")
    ctx.assume("BTreeMap/BTreeSet/Vec/Rc behave as documented; NFA values are owned (clone copies), so in-place edits never alias another fragment")
    ctx.assume("the as-built model applies the wiring templates read by R1; where R1 reports a template as not understood, Thompson's fresh template is substituted and R2/R3 are relative to that")
    src = ctx.src
    wiring = G.read_wiring(src)
    rule_r1(ctx, wiring)
    grammars = G.extract(src)
    rule_r2(ctx, wiring, grammars)
    rule_r3(ctx, wiring, grammars, src)
    if ctx.tier == "thorough":
        rule_model(ctx, wiring, 4, 3)
    else:
        rule_model(ctx, wiring, 2, 2)
    rule_r4(ctx)
    rule_r4_table(ctx)
    rule_r5(ctx)
