"""C19 — serialised forms: the hand-written serialisers and the hand-written deserialisers agree on their tables.

(b) keys written by Serialize impls (read from MIR: serialize_field / serialize_entry constants, also for derived impls)
    vs keys accepted by the visitors (match arms in the syn dump), key -> field mapping on both sides, required /
    conditional keys, the Image channel constant vs bytes per pixel vs the visitor's channel layouts;
(c) Face: FaceAttrs::names() vs Face::from_str_named arms are inverse, fg/bg keys and separators of Display vs parser,
    serde impls of Face go through exactly Display / from_str_named;
(d) sibling constructors validate alike: every literal site of FlexChild { flex } (and of every other struct built by a
    from_json_value / visitor) applies the filters its builder siblings apply.
Value round trips (pixel data, colours, floats) and numeric panic freedom are NOT decided here."""
import re
from ..src import find_all, expr_text, pat_text, lit_int, lit_float
from ..mir import call_matches, callee_name
from ..flow import arg_place, origins, resolve_place, value_variants
from ..flow import expr as expr_mir
from .c18 import (NotUnderstood, templates_in, templates_deep, chain, is_path, unref, pat_strings, conjuncts, first_match, tail)

CLAIM = {
    "text": "Only the table/shape clauses of C19 are decided: (1) every key written by the Serialize impls of Image, Glyph and GlyphFrame "
            "(constants read from MIR, derived impls included) is accepted by the matching visitor and stored into the same field; keys the "
            "visitor requires are written on every path, keys written conditionally are optional with a default on the reading side, "
            "path/scene are written exclusively; (2) Image::serialize announces channels = number of bytes it writes per pixel, that value is "
            "accepted by the visitor, and each channel layout of the visitor reads offsets N*(row*width+col)+0..N-1 in r,g,b,a order behind "
            "the length check; (3) FaceAttrs::names() and Face::from_str_named are inverse tables (10 attribute names through the bit "
            "constants and the underline decoder, fg/bg keys, ',' and '=' separators) and Face/KeyChord-style string serde goes through "
            "exactly Display and the parser; (4) for every struct that a from_json_value/visitor builds, every literal site (deserialiser "
            "or builder sibling) applies the validation filters that any sibling applies to the same field (FlexChild.flex > 0). (5) TOTAL: every overflow/bounds/unwrap/panic!/precondition "
            "obligation reachable from the serde visitors, DeserializeSeed impls and from_json_value functions is discharged by abstract interpretation "
            "or by the IMAGE-LAYOUT / IMAGE-SIZE lemmas, whose side conditions (checked product compared with data.len() before the surface is "
            "allocated; layout arms) are rules of this module. NOT decided: equality of values after a round trip "
            "(pixels, colours, floats, base64/deflate payload), recursion depth; panic freedom of laying out the deserialised tree is C10's TOTAL.",
    "technique": "serializer key constants and value provenance from MIR, visitor match-arm tables and struct-literal sites from the syn "
                 "dump, row-by-row table agreement; CFG dominance for required/conditional keys; abstract interpretation of MIR with "
                 "structurally checked lemmas for the panic/overflow obligations",
    "design_ref": "DESIGN.md §5 C19",
}

FILTER_METHODS = {"filter", "and_then", "then_some", "then", "clamp", "max", "min", "abs", "checked_sub", "saturating_sub"}


# ------------------------------------------------------------------------------------------------
# helpers
# ------------------------------------------------------------------------------------------------
def is_struct_lit(n):
    """struct literal expression (not a struct pattern, not a nested struct item)"""
    return n.get("k") == "struct" and "path" in n and not isinstance(n.get("rest"), bool) and all("e" in f for f in n.get("fields", []))


_IMPLS = {}


def all_impls(src):
    """(file, impl item, enclosing fn name or None) for top-level impls and impls nested in fn bodies"""
    if id(src) in _IMPLS:
        return _IMPLS[id(src)]
    out = []
    _IMPLS.clear()
    _IMPLS[id(src)] = out
    for (f, it, t) in src.impls:
        if not t:
            out.append((f, it, None))
    for (f, s, tr, fn, t) in src.fns:
        if t:
            continue
        for n in find_all(fn.get("body") or {}, lambda n: n.get("k") == "impl"):
            out.append((f, n, "%s::%s" % (s, fn["name"]) if s else fn["name"]))
    return out


def visitor_for(src, value_ty):
    """visit_map fn of the impl Visitor whose `type Value = value_ty`"""
    for f, im, encl in all_impls(src):
        if im.get("trait") and re.search(r"(^|::)Visitor<", im["trait"]):
            val = [i for i in im["items"] if i.get("k") == "type" and i["name"] == "Value"]
            if val and val[0]["ty"] == value_ty:
                for i in im["items"]:
                    if i.get("k") == "fn" and i["name"] == "visit_map":
                        return f, i, im
    return None


def root(e, alias=None):
    """name of the local an expression's value derives from through receiver chains / single-argument wrappers"""
    seen = 0
    while e is not None and seen < 40:
        seen += 1
        k = e.get("k")
        if k == "mcall":
            e = e["recv"]
        elif k in ("try", "ref", "un", "cast"):
            e = e["e"]
        elif k == "call" and len(e["args"]) == 1:
            e = e["args"][0]
        elif k == "path":
            n = e["p"]
            hops = 0
            while alias and n in alias and alias[n] != n and hops < 10:
                n = alias[n]
                hops += 1
            return n
        elif k == "block":
            e = tail(e)
        else:
            return None
    return None


def visitor_table(fn):
    """{"keys": {key: local}, "locals": {local: init expr}, "var": key var}"""
    body = fn["body"]
    loops = [n for n in find_all(body, lambda n: n.get("k") == "while")
             if n["cond"].get("k") == "letcond" and "next_key" in chain(n["cond"]["e"])[1]]
    if len(loops) != 1:
        raise NotUnderstood("expected one `while let Some(k) = map.next_key()` loop")
    lp = loops[0]
    pt = lp["cond"]["pat"]
    if pt["k"] != "tstruct" or not pt["elems"] or pt["elems"][0]["k"] != "ident":
        raise NotUnderstood("next_key pattern")
    kvar = pt["elems"][0]["name"]
    m = first_match(lp["body"], lambda n: chain(n["e"])[0].get("p") == kvar)
    if m is None:
        raise NotUnderstood("no match on the key")
    locals_ = {}
    for st in body["stmts"]:
        if st["k"] == "let" and st["pat"]["k"] == "ident" and st["line"] < lp["line"]:
            locals_[st["pat"]["name"]] = st["init"]
    keys = {}
    for arm in m["arms"]:
        strs = pat_strings(arm["pat"])
        if strs is None:
            if arm["pat"]["k"] in ("wild", "ident"):
                continue
            raise NotUnderstood("key arm %s" % pat_text(arm["pat"]))
        tg = set()
        for n in find_all(arm["body"], lambda n: n.get("k") == "mcall" and n["m"] in ("replace", "insert", "push", "extend") and is_path(n["recv"])):
            tg.add(n["recv"]["p"])
        for n in find_all(arm["body"], lambda n: n.get("k") in ("assign",) and is_path(n["l"])):
            tg.add(n["l"]["p"])
        for n in find_all(arm["body"], lambda n: n.get("k") == "bin" and n["op"].endswith("=") and n["op"] not in ("==", "!=", "<=", ">=") and is_path(n["l"])):
            tg.add(n["l"]["p"])
        for n in find_all(arm["body"], lambda n: n.get("k") == "ref" and n["mut"] and is_path(n["e"])):
            tg.add(n["e"]["p"])
        tg &= set(locals_)
        if len(tg) != 1:
            raise NotUnderstood("key %s stores into %s" % (strs, sorted(tg) or "nothing"))
        for s in strs:
            keys[s] = (list(tg)[0], arm["line"])
    return {"keys": keys, "locals": locals_, "var": kvar, "loop": lp}


def build_alias(fn):
    alias = {}
    for n in find_all(fn["body"], lambda n: n.get("k") == "let"):
        p = n["pat"]
        r = root(n["init"]) if n["init"] else None
        if r is None or r[:1].isupper() or "::" in r:
            continue
        if p["k"] == "ident":
            alias.setdefault(p["name"], r)
        elif p["k"] == "tstruct" and len(p["elems"]) == 1 and p["elems"][0]["k"] == "ident":
            alias.setdefault(p["elems"][0]["name"], r)
    for m in find_all(fn["body"], lambda n: n.get("k") == "match" and n["e"].get("k") == "tuple"):
        roots = [root(x) for x in m["e"]["elems"]]
        for arm in m["arms"]:
            if arm["pat"]["k"] == "tuple":
                for i, el in enumerate(arm["pat"]["elems"][:len(roots)]):
                    if el["k"] == "tstruct" and len(el["elems"]) == 1 and el["elems"][0]["k"] == "ident" and roots[i]:
                        alias.setdefault(el["elems"][0]["name"], roots[i])
    for k in list(alias):
        if alias[k] == k:
            del alias[k]
    return alias


def field_sinks(src, fn, names, depth=0):
    """local name -> set of field names it is stored into by struct literals (through one level of crate constructors)"""
    alias = build_alias(fn)
    out = {}
    for lit in find_all(fn["body"], is_struct_lit):
        for fl in lit["fields"]:
            r = root(fl["e"], alias)
            if r in names:
                out.setdefault(r, set()).add(fl["name"])
    if depth == 0:
        for c in find_all(fn["body"], lambda n: n.get("k") == "call" and is_path(n["f"]) and "::" in n["f"]["p"] and len(n["args"]) >= 2):
            ty, name = c["f"]["p"].rsplit("::", 1)
            cal = src.fn(name, impl_self=re.escape(ty.split("::")[-1]) + r"(<.*>)?")
            if cal is None:
                continue
            params = [i["name"] for i in cal[1]["sig"]["inputs"] if i["name"] != "self"]
            if len(params) != len(c["args"]):
                continue
            inner = field_sinks(src, cal[1], set(params), depth + 1)
            for i, a in enumerate(c["args"]):
                r = root(a, alias)
                if r in names and params[i] in inner:
                    out.setdefault(r, set()).update(inner[params[i]])
    return out


def absent_status(fn, tab, local):
    """how the visitor treats a key that never arrived"""
    lp_line = max(n["line"] for n in find_all(tab["loop"], lambda n: "line" in n))
    init = tab["locals"][local]
    # let Some(x) = x else { return Err }
    for n in find_all(fn["body"], lambda n: n.get("k") == "let" and n["line"] > lp_line):
        if n["pat"]["k"] == "tstruct" and n["pat"]["path"] == "Some" and n["else"] is not None and root(n["init"]) == local:
            return "required"
    for m in find_all(fn["body"], lambda n: n.get("k") == "match" and n["e"].get("k") == "tuple" and n["line"] > lp_line):
        rs = [root(x) for x in m["e"]["elems"]]
        if local in rs:
            return "xor:" + ",".join(sorted(r for r in rs if r))
    uses = [n for n in find_all(fn["body"], lambda n: n.get("k") == "mcall" and n["line"] > lp_line) if root(n) == local]
    # outermost chains only
    firsts = set()
    for u in uses:
        r0, ms = chain(u)
        if is_path(r0, local) and ms:
            firsts.add(ms[0] if ms[0] not in ("or_else", "or", "map", "take", "as_ref", "clone") else "computed")
    if "unwrap_or_default" in firsts:
        return "default"
    if "unwrap_or" in firsts or "unwrap_or_else" in firsts:
        u = [x for x in uses if chain(x)[1][:1] in (["unwrap_or"], ["unwrap_or_else"]) and is_path(chain(x)[0], local)]
        return "value:" + (expr_text(u[0]["args"][0]) if u and u[0]["args"] else "?")
    if "computed" in firsts:
        return "computed"
    if init is not None and is_path(init, "None"):
        return "passthrough"
    if init is not None:
        return "init:" + expr_text(init)
    return "unknown"


def ser_table(prog, body):
    """[(key, bb, term)] of serialize_field / serialize_entry calls, the end() block, the declared length"""
    rows = []
    end = None
    declared = None
    for bb, t in body.calls():
        if body.blocks[bb].get("cleanup"):
            continue
        if call_matches(t, r"(SerializeStruct::serialize_field|SerializeMap::serialize_entry)$"):
            og = origins(body, t["args"][1])
            ks = [o[1] for o in og if o[0] == "const"]
            if len(og) != 1 or len(ks) != 1:
                raise NotUnderstood("serialised key is not a constant in %s" % body.path)
            rows.append((ks[0].strip('"'), bb, t))
        elif call_matches(t, r"(SerializeStruct|SerializeMap)::end$"):
            end = bb
        elif call_matches(t, r"Serializer::serialize_struct$"):
            declared = [o[1] for o in origins(body, t["args"][2]) if o[0] == "const"]
        elif call_matches(t, r"Serializer::serialize_map$"):
            declared = [o[1] for o in origins(body, t["args"][1]) if o[0] == "const"]
    return rows, end, declared


def ser_leaf(prog, body, t):
    """field the serialised value is read from: ('field', name) | ('const', v) | ('computed', callee)"""
    a = t["args"][2]
    pl = arg_place(body, t, 2)
    og = origins(body, a)
    vv = value_variants(body, a) if a["k"] == "const" or True else set()
    ints = [v[1] for v in vv if isinstance(v, tuple) and v[0] == "int"]
    calls = [o for o in og if o[0] == "call"]
    if calls:
        name = calls[0][2]
        cb = prog.one("^" + re.escape(name) + "$")
        if cb is not None and cb.arg_count == 1:
            rp = resolve_place(cb, {"l": 0, "p": [{"k": "deref"}]})
            names = re.findall(r"\.([A-Za-z_]\w*)", rp)
            if rp.startswith("(*_1)") or "(*_1)" in rp:
                if names:
                    return ("field", names[-1])
        return ("computed", name)
    if pl and re.search(r"\(\*_1\)", pl):
        names = re.findall(r"\.([A-Za-z_]\w*)", pl)
        if names:
            return ("field", names[-1])
    if ints and not (pl and "(*_1)" in pl):
        return ("const", ints[0])
    return ("computed", pl or "?")


def fn_label(s, fn):
    return "%s::%s" % (re.sub(r"<.*", "", s), fn["name"]) if s else fn["name"]


def file_consts(src, file):
    """name -> initialiser of every `const` item of the file, at module level or nested in a fn / impl body (a literal and a named constant
    holding it mean the same)"""
    f = src.files.get(file)
    if f is None:
        return {}
    out = {}
    for n in find_all({"k": "file", "items": f["items"]}, lambda n: n.get("k") == "const" and n.get("name") and isinstance(n.get("expr"), dict)):
        out.setdefault(n["name"], n["expr"])
    return out


def deconst(e, consts, depth=0):
    """the expression with a (possibly referenced / parenthesised) path to a named constant replaced by the constant's initialiser"""
    x = e
    while depth < 6 and isinstance(x, dict):
        y = unref(x)
        while isinstance(y, dict) and y.get("k") == "paren":
            y = y["e"]
        if is_path(y) and y["p"].split("::")[-1] in consts and y["p"].split("::")[-1].isupper():
            x = consts[y["p"].split("::")[-1]]
            depth += 1
            continue
        return y
    return x


def checked_product(prog, body, operand, depth=0, subst=None):
    """sorted factor terms when the Option<int> operand is `Some(f1 * f2 * ..)` only if no partial product overflowed (None otherwise), however
    that is spelled: `a.checked_mul(b)`, `x.and_then(|p| p.checked_mul(c))`, `match x { Some(p) => p.checked_mul(c), None => None }`,
    `x?` .. -- every definition of the value is either None or a checked product with the same factors.  None = not such a value."""
    from ..flow import expr as _e
    from ..mir import op_local
    if depth > 8 or operand["k"] == "const":
        return None
    pl = operand["place"]
    if pl["p"] and not all(e["k"] == "deref" for e in pl["p"]):
        return None
    l = pl["l"]
    if subst and l in subst and not pl["p"]:
        return subst[l]
    ds = body.defs_of(l)
    if not ds or 0 < l <= body.arg_count:
        return None

    def factors(o):
        """factor terms of a plain integer operand: the payload of a checked product contributes that product's factors"""
        if o["k"] != "const":
            p2 = o["place"]
            if subst and p2["l"] in subst and not p2["p"]:
                return subst[p2["l"]]
            d2 = body.defs_of(p2["l"]) if not p2["p"] else []
            if len(d2) == 1 and d2[0][1] != "term" and d2[0][2]["k"] == "use" and d2[0][2]["a"]["k"] != "const":
                src_ = d2[0][2]["a"]["place"]
                pr = [e for e in src_["p"] if e["k"] != "deref"]
                if len(pr) == 2 and pr[0]["k"] == "downcast" and pr[0]["variant"] == "Some" and pr[1]["k"] == "field":
                    inner = checked_product(prog, body, {"k": "copy", "place": {"l": src_["l"], "p": []}}, depth + 1, subst)
                    if inner is not None:
                        return inner
                if not pr or all(e["k"] == "field" for e in pr):
                    return factors(d2[0][2]["a"]) if not src_["p"] else [_e(body, o)]
        return [_e(body, o)]
    out = None
    for bb, si, rv in ds:
        fs = None
        if si == "term":
            t = rv
            if call_matches(t, r"::checked_mul$") and len(t["args"]) == 2:
                fa, fb = factors(t["args"][0]), factors(t["args"][1])
                fs = sorted(fa + fb) if fa is not None and fb is not None else None
            elif call_matches(t, r"^std::option::Option::<T>::and_then$") and len(t["args"]) == 2:
                inner = checked_product(prog, body, t["args"][0], depth + 1, subst)
                cl = op_local(t["args"][1])
                cds = [d for d in body.defs_of(cl) if d[1] != "term" and d[2]["k"] == "agg" and d[2].get("ak") == "closure"] if cl is not None else []
                cb = prog.body(cds[0][2]["def"]) if len(cds) == 1 else None
                if inner is not None and cb is not None:
                    caps = [_e(body, f) for f in cds[0][2]["fields"]]
                    got = checked_product(prog, cb, {"k": "copy", "place": {"l": 0, "p": []}}, depth + 1, {2: inner})
                    if got is not None:
                        # captured values are named through the closure environment: rewrite `arg1.N` to the captured term
                        fs = sorted(re.sub(r"^arg1\.(\d+)$", lambda m: caps[int(m.group(1))] if int(m.group(1)) < len(caps) else m.group(0), g) for g in got)
            elif call_matches(t, r"Try>::branch$|Try::branch$|FromResidual"):
                fs = None
        elif rv["k"] == "agg" and rv.get("adt") == "std::option::Option" and rv.get("variant") == "None":
            continue
        elif rv["k"] == "use" and rv["a"]["k"] != "const" and not rv["a"]["place"]["p"]:
            fs = checked_product(prog, body, rv["a"], depth + 1, subst)
        elif rv["k"] == "ref" and not rv["place"]["p"]:
            fs = checked_product(prog, body, {"k": "copy", "place": rv["place"]}, depth + 1, subst)
        if fs is None:
            return None
        if out is not None and out != fs:
            return None
        out = fs
    return out


def flag_test(c, fv):
    """the condition "flag `fv` is set in self": True for a positive test, False for its negation, None when not understood.
    `self.bits & fv.bits != 0` / `> 0` / `== fv.bits` (either operand order; for a single-bit flag, which FACE-NAMES checks per row,
    these coincide), `self.contains(fv)`; `== 0`, `!= fv.bits` and a leading `!` are the negation."""
    neg = False
    while c is not None and c.get("k") == "un" and c["op"] == "!":
        neg, c = not neg, c["e"]
    while c is not None and c.get("k") == "paren":
        c = c["e"]
    if c is None:
        return None
    if c.get("k") == "mcall" and c["m"] in ("contains", "intersects") and len(c["args"]) == 1 and expr_text(unref(c["recv"])) == "self" and is_path(unref(c["args"][0]), fv):
        return not neg

    def is_and(e):
        e = unref(e)
        return e is not None and e.get("k") == "bin" and e["op"] == "&" and {expr_text(unref(e["l"])), expr_text(unref(e["r"]))} == {"self.bits", fv + ".bits"}

    if c.get("k") == "bin" and c["op"] in ("!=", "==", ">", "<"):
        l, r, op = c["l"], c["r"], c["op"]
        if is_and(r):
            l, r, op = r, l, {"<": ">", ">": "<"}.get(op, op)
        if not is_and(l):
            return None
        if lit_int(r) == 0 and r.get("k") == "lit":
            if op in ("!=", ">"):
                return not neg
            if op == "==":
                return neg
            return None
        if expr_text(unref(r)) == fv + ".bits":
            if op == "==":
                return not neg
            if op == "!=":
                return neg
    return None


def eval_const(e, env):
    k = e.get("k")
    if k == "lit" and e["t"] == "int":
        return int(e["v"])
    if k == "path":
        return env.get(e["p"].split("::")[-1])
    if k == "bin":
        a, b = eval_const(e["l"], env), eval_const(e["r"], env)
        if a is None or b is None:
            return None
        return {"<<": a << b, ">>": a >> b, "|": a | b, "&": a & b, "+": a + b, "*": a * b, "-": a - b}.get(e["op"])
    if k == "cast":
        return eval_const(e["e"], env)
    return None


# ------------------------------------------------------------------------------------------------
def obligations(ctx):
    """"never panics or overflows": every overflow/bounds/unwrap/panic!/precondition obligation reachable from the deserialisation entry points
    (serde visitors, DeserializeSeed impls, from_json_value functions) is discharged by the abstract interpreter, or by two lemmas whose side
    conditions are structural rules of this module:
      IMAGE-LAYOUT  index N*(row*width+col)+k < N*height*width == data.len(): IMAGE-CHANNELS established the layout arms and the preceding length check;
      IMAGE-SIZE    height*width fits usize where the image surface is allocated: the visitor compared data.len() with the *checked* product
                    channels*height*width (channels >= 1) on every path to SurfaceOwned::new_with, its only caller in this reach set."""
    from .. import oblrules
    from ..flow import expr
    prog = ctx.prog
    entries = [b.path for b in prog.bodies if b.file.startswith("src/") and "{closure" not in b.path and
               re.search(r"::visit_(map|seq|str)$|from_json_value$|DeserializeSeed<'de>>::deserialize$|Deserialize<'de>>::deserialize$|Deserialize<'de> for [\w:]+>::deserialize$", b.path)]
    lemmas = {}
    vm = [b for b in prog.bodies if re.search(r"ImageVistor as .*Visitor<'de>>::visit_map$", b.path)]
    chan_ok = not any(v.rule == "IMAGE-CHANNELS" for v in ctx.violations)
    ctx.rule("IMAGE-SIZE", "Image visitor: data.len() is compared with the checked product channels*height*width on every path to SurfaceOwned::new_with; "
                           "new_with and Shape::from(Size) have no other caller among the deserialisation paths", floor=4)
    if len(vm) == 1:
        v = vm[0]
        vcfg = v.cfg()
        cmps = []
        for bb, t in v.calls():
            if call_matches(t, r"^std::cmp::PartialEq::(ne|eq)$|PartialEq.*>::(ne|eq)$"):
                es = [expr(v, a) for a in t["args"]]
                # one side is Some(data.len()), the other the checked product of three factors (whatever its spelling)
                prods = [checked_product(prog, v, a) for a in t["args"]]
                prods = [p_ for p_ in prods if p_ is not None and len(p_) == 3]
                if any("Vec::len(" in e for e in es) and prods:
                    cmps.append((bb, t, es + ["checked product of " + " * ".join(prods[0])]))
        nw = [(bb, t) for bb, t in v.calls() if call_matches(t, r"^surface::SurfaceOwned::<T>::new_with$")]
        # the comparison that guards the allocation (a later debug_assert of the same equality is not it)
        dom = [c for c in cmps if nw and all(vcfg.dominates(c[0], bb) for bb, t in nw)]
        cmpb = dom[0] if dom else (cmps[0] if cmps else None)
        ok_dom = bool(dom)
        # the second factor is multiplied inside the and_then closure with checked_mul as well
        ok_chk = cmpb is not None       # checked_product() accepts checked multiplications only
        ctx.instance("IMAGE-SIZE", {"length_comparison": cmpb[2] if cmpb else None, "dominates_new_with_calls": ok_dom, "second_factor_checked": ok_chk})
        sites = [v.loc]
        if not (ok_dom and ok_chk):
            ctx.violation("IMAGE-SIZE", v.path, "unchecked-size", "the image visitor does not compare data.len() with the checked product channels*height*width before allocating the surface: "
                          "size [2^32, 2^32] overflows height*width", sites=sites)
        size_ok = ok_dom and ok_chk
    else:
        ctx.anchor("IMAGE-SIZE", "Image::visit_map")
        size_ok = False
        v = None

    def scope(b):
        return b.file.startswith("src/")

    cg = prog.callgraph()
    dyn, _init = cg.reach_split([e for e in entries if prog.body(e) is not None])
    NW, SF = "surface::SurfaceOwned::<T>::new_with", "<surface::Shape as std::convert::From<terminal::Size>>::from"
    if v is not None:
        c1 = sorted(c for c in cg.callers(NW) if c in dyn)
        c2 = sorted(c for c in cg.callers(SF) if c in dyn)
        ok1, ok2 = c1 == [v.path], c2 == [NW]
        ctx.instance("IMAGE-SIZE", {"callers_of_new_with_in_reach": c1, "ok": ok1})
        ctx.instance("IMAGE-SIZE", {"callers_of_Shape_from_in_reach": c2, "ok": ok2})
        if size_ok and ok1:
            lemmas[(NW, "OVF")] = ("IMAGE-SIZE", "height*width divides the checked product channels*height*width (channels in {1,3,4}), which equals data.len()")
            if ok2:
                lemmas[(SF, "OVF")] = ("IMAGE-SIZE", "same size as in new_with, its only caller here")
        if chan_ok and ctx.extra.get("image_channels_validated"):
            from .. import obligations as _obl
            obs = [o for o in _obl.collect(v, lossy=False, unsafe=True) if not o.exp]
            keys = oblrules.site_keys(obs)
            lo, hi = ctx.extra.get("image_layout_dead_arm_lines") or (0, -1)
            for o in obs:
                if o.kind == "PANIC" and lo <= o.line <= hi:
                    lemmas[(v.path, keys[id(o)])] = ("IMAGE-ARMS", "the catch-all arm of `match channels` is dead: channels is assigned once, rejected right there unless it is one of the "
                                                                   "accepted values, its default is accepted, and every accepted value has a layout arm (all established by IMAGE-CHANNELS)")
        if chan_ok and size_ok:
            for b in prog.bodies:
                if b.closure_root == v.path and any(call_matches(t, r"ops::Index<I>>::index$") for bb, t in b.calls()):
                    for kind in ("OVF", "BOUNDSCALL"):
                        lemmas[(b.path, kind)] = ("IMAGE-LAYOUT", "offset N*(row*width+col)+k with row < height, col < width (new_with's loops), k < N is below N*height*width == data.len() "
                                                                  "(length check and layout arms established by IMAGE-CHANNELS)")
    ctx.instance("IMAGE-SIZE", {"lemmas_enabled": sorted({v_[0] for v_ in lemmas.values()})})
    oblrules.run(ctx, "TOTAL", entries, lossy=False, lemmas=lemmas, floor_bodies=3, scope=scope,
                 desc="deserialisation never panics or overflows: no reachable overflow/bounds/unwrap/panic!/precondition failure from the serde visitors, "
                      "DeserializeSeed impls and from_json_value functions")


def run(ctx):
    src, prog = ctx.src, ctx.prog
    ctx.explanation = (
        "Decides table/shape agreement between serialisers and deserialisers: SER-KEYS (each key written by Image/Glyph/GlyphFrame Serialize is "
        "accepted by the visitor and lands in the same field), SER-REQUIRED (visitor-required keys are written unconditionally; conditional keys "
        "are optional with default/passthrough on the reading side; path/scene written exclusively; declared struct length), IMAGE-CHANNELS "
        "(channels constant = bytes written per pixel, accepted by the visitor; each layout arm reads N*(row*width+col)+k, k<N, in rgba order, "
        "behind the data-length check), FACE-NAMES (names() vs from_str_named inverse through bit constants; fg/bg; separators; serde chain), "
        "SIBLING-FILTER (all literal sites of structs built by deserialisers apply the filters any sibling constructor applies). NOT decided: value equality after a round "
        "trip, recursion depth. TOTAL: every panic/overflow/bounds obligation reachable from the deserialisation entry points is discharged (abstract "
        "interpretation; IMAGE-LAYOUT and IMAGE-SIZE lemmas with structural side conditions); layout/render of the deserialised tree is C10's TOTAL.")
    ctx.assume("serde derive output is taken from MIR (key constants), serde_json ignores the declared map length; rasterize::RGBA Display/FromStr, "
               "RGBA::to_rgba order [r,g,b,a] and serde's own impls are trusted (outside /repo)")
    ctx.assume("Surface::iter yields the view's cells in row-major order of the view's own shape (C07's clause), which is the order the Image visitor reads")
    ctx.trust("rasterize::RGBA", "Display prints a colour that RGBA::from_str_named parses back (external crate)")
    ctx.exhaustive = True

    ctx.rule("SER-KEYS", "every key a Serialize impl writes is accepted by the visitor and stored in the same field", floor=16)
    ctx.rule("SER-REQUIRED", "visitor-required keys are written unconditionally, conditional keys default on the reading side, exclusive groups, declared length", floor=18)
    ctx.rule("IMAGE-CHANNELS", "channels constant = bytes per pixel written, accepted by the visitor; layout arms read N*(row*width+col)+k in rgba order", floor=6)
    ctx.rule("FACE-NAMES", "FaceAttrs::names() / Display keys vs Face::from_str_named arms are inverse; separators; serde chain", floor=33)
    ctx.rule("SIBLING-FILTER", "all literal sites of structs built by from_json_value/visitors apply the filters their sibling constructors apply (FlexChild.flex > 0)", floor=138)

    # =========================== (b) key tables ==================================================
    pairs = [
        ("Image", r"^<image::Image as .*::Serialize>::serialize$", "Image"),
        ("Glyph", r"^<glyph::Glyph as .*::Serialize>::serialize$", "Glyph"),
        ("GlyphFrame", r"Serialize for glyph::GlyphFrame>::serialize$", "GlyphFrame"),
    ]
    image_vis = None
    for ty, rx, vty in pairs:
        sb = prog.one(rx)
        vis = visitor_for(src, vty)
        if sb is None or vis is None:
            ctx.anchor("SER-KEYS", ty, "Serialize impl or visitor of %s not found" % ty)
            continue
        vfile, vfn, vimpl = vis
        try:
            rows, end, declared = ser_table(prog, sb)
            tab = visitor_table(vfn)
        except NotUnderstood as e:
            ctx.anchor("SER-KEYS", ty, str(e))
            continue
        if ty == "Image":
            image_vis = (vfile, vfn, tab)
        if end is None or not rows:
            ctx.anchor("SER-KEYS", ty + "/end", "no serialize_field/serialize_entry ... end() sequence in %s" % sb.path)
            continue
        cfg = sb.cfg()
        sinks = field_sinks(src, vfn, set(tab["locals"]))
        ser_keys = {}
        for key, bb, t in rows:
            ser_keys.setdefault(key, []).append((bb, t))
        for key, occ in sorted(ser_keys.items()):
            bb, t = occ[0]
            leaf = ser_leaf(prog, sb, t)
            acc = tab["keys"].get(key)
            dleaf = sorted(sinks.get(acc[0], ())) if acc else None
            ctx.instance("SER-KEYS", {"type": ty, "key": key, "serialised_from": list(leaf), "visitor_local": acc[0] if acc else None, "stored_into": dleaf})
            where = "%s::serialize" % ty
            if acc is None:
                ctx.violation("SER-KEYS", where, "unaccepted:" + key, "%s::serialize writes key %r but the visitor has no arm for it (it falls into the ignore arm): the value is lost on "
                              "deserialisation" % (ty, key), sites=["%s:%d" % (sb.file, t["line"])])
                continue
            if leaf[0] == "field" and dleaf and leaf[1] not in dleaf:
                ctx.violation("SER-KEYS", where, "field:" + key, "key %r is serialised from field `%s` but the visitor stores it into %s" % (key, leaf[1], dleaf),
                              sites=["%s:%d" % (sb.file, t["line"]), "%s:%d" % (vfile, acc[1])])
            if len(occ) > 1:
                ctx.violation("SER-KEYS", where, "duplicate:" + key, "key %r is written at %d sites" % (key, len(occ)), sites=["%s:%d" % (sb.file, t["line"])])
        # two keys must not feed the same visitor local (one would overwrite the other)
        used = {}
        for key, (loc, line) in tab["keys"].items():
            used.setdefault(loc, []).append(key)
        for loc, ks in used.items():
            if len(ks) > 1 and len(set(ks) & set(ser_keys)) > 1:
                ctx.violation("SER-KEYS", "%s::visit_map" % ty, "aliased:" + "+".join(sorted(ks)), "keys %s are stored into the same local `%s`" % (sorted(ks), loc), sites=[vfile])
        input_only = sorted(set(tab["keys"]) - set(ser_keys))
        ctx.extra.setdefault("input_only_keys", {})[ty] = input_only

        # ---- required / conditional -----------------------------------------------------------
        uncond = {k for k, occ in ser_keys.items() if cfg.dominates(occ[0][0], end)}
        groups = {}
        for key in sorted(set(tab["keys"]) | set(ser_keys)):
            acc = tab["keys"].get(key)
            if acc is None:
                continue
            st = absent_status(vfn, tab, acc[0])
            written = "always" if key in uncond else ("sometimes" if key in ser_keys else "never")
            ctx.instance("SER-REQUIRED", {"type": ty, "key": key, "written": written, "when_absent": st})
            where = "%s::visit_map" % ty
            if st == "required" and written != "always":
                ctx.violation("SER-REQUIRED", where, "required:" + key, "the visitor rejects input without %r but %s::serialize writes it %s" % (key, ty, written),
                              sites=["%s:%d" % (vfile, acc[1])])
            elif st.startswith("xor:"):
                groups.setdefault(st, []).append(key)
            elif written == "sometimes" and not (st in ("default", "passthrough", "computed")):
                ctx.violation("SER-REQUIRED", where, "absent-default:" + key, "%s::serialize omits %r in some states but the visitor then uses %s instead of the type's default" % (ty, key, st),
                              sites=["%s:%d" % (vfile, acc[1])])
        for g, ks in groups.items():
            blocks = {k: ser_keys[k][0][0] for k in ks if k in ser_keys}
            ok = len(blocks) == len(ks) and len(ks) >= 2
            if ok:
                ok, _ = cfg.must_pass(set(blocks.values()), exits=[end])
                for a in blocks:
                    for b in blocks:
                        if a != b and blocks[b] in cfg.reachable_from(blocks[a]):
                            ok = False
            ctx.instance("SER-REQUIRED", {"type": ty, "exclusive_group": sorted(ks), "exactly_one_written": ok})
            if not ok:
                ctx.violation("SER-REQUIRED", "%s::serialize" % ty, "exclusive:" + "+".join(sorted(ks)), "the visitor needs exactly one of %s but the serialiser does not write exactly one on every path" % sorted(ks), sites=[sb.loc])
        if declared is not None:
            n_decl = int(declared[0]) if declared and str(declared[0]).isdigit() else None
            is_struct = any(call_matches(t, r"serialize_struct$") for _, t in sb.calls())
            if is_struct and ty != "GlyphFrame":
                ok = n_decl == len(ser_keys) and len(uncond) == len(ser_keys)
                ctx.instance("SER-REQUIRED", {"type": ty, "declared_fields": n_decl, "written_keys": len(ser_keys), "all_unconditional": len(uncond) == len(ser_keys)})
                if not ok:
                    ctx.violation("SER-REQUIRED", "%s::serialize" % ty, "declared-length", "serialize_struct announces %s fields but %d keys are written (%d unconditionally)" % (n_decl, len(ser_keys), len(uncond)), sites=[sb.loc])
            else:
                ctx.note("%s::serialize declares length %s and writes %d keys (%d always): a hint that serde_json ignores" % (ty, n_decl, len(ser_keys), len(uncond)))

    # =========================== Image channels ==================================================
    sb = prog.one(r"^<image::Image as .*::Serialize>::serialize$")
    if sb is None or image_vis is None:
        ctx.anchor("IMAGE-CHANNELS", "Image-impls")
    else:
        vfile, vfn, tab = image_vis
        rows, end, declared = ser_table(prog, sb)
        chan = [(bb, t) for k, bb, t in rows if k == "channels"]
        cval = None
        if chan:
            vs = [v[1] for v in value_variants(sb, chan[0][1]["args"][2]) if isinstance(v, tuple)]
            cval = vs[0] if len(vs) == 1 else None
        per_px = None
        # the per-pixel write: in a `for` loop of serialize, or in the closure of an iterator driver (for_each / try_for_each / try_fold / fold)
        # (private helpers that hold the encoding loop — also when shared with another caller — are expanded in place, so the write
        # is found by what serialize executes and not by where it is written)
        wa = []
        sbi = prog.inlined(sb.path, nested=True, multi=True) or sb
        roots = {sb.path} | {blk.get("inl_from") for blk in sbi.blocks if blk.get("inl_from") and prog.body(blk["inl_from"]) is not None and prog.body(blk["inl_from"]).file == sb.file}
        for wb in [sbi] + [b for b in prog.bodies if b.closure_root in roots]:
            for bb, t in wb.calls():
                if call_matches(t, r"Write::write_all$") and not wb.blocks[bb].get("cleanup"):
                    frm = wb.blocks[bb].get("inl_from")
                    if frm and prog.body(frm) is not None and prog.body(frm).file != sb.file:
                        continue      # the encoder's own internals (e.g. finish() flushing its tail), not a write of serialize
                    wa.append((bb, t, wb))
        in_loop = False
        if len(wa) == 1:
            wbb, wt, wb = wa[0]
            pl = arg_place(wb, wt, 1)
            m = re.fullmatch(r"_(\d+)", pl or "")
            if m:
                tm = re.fullmatch(r"\[u8; (\d+)\]", wb.locals[int(m.group(1))]["ty"])
                per_px = int(tm.group(1)) if tm else None
            if wb is sbi:
                in_loop = any(wbb in b for b in sbi.cfg().loops().values())
            else:
                for bb, t in sbi.calls():
                    if call_matches(t, r"Iterator::(for_each|try_for_each|try_fold|fold)$") and any(
                            ("closure:%s[" % wb.path.split("::")[-1]) in expr_mir(sbi, a) for a in t["args"]):
                        in_loop = True
        ctx.instance("IMAGE-CHANNELS", {"serialised_channels": cval, "bytes_written_per_pixel": per_px, "write_all_sites": len(wa)})
        if cval is None or per_px is None or len(wa) != 1 or not in_loop:
            ctx.anchor("IMAGE-CHANNELS", "Image::serialize", "channels constant (%s) or the per-pixel write ([u8; N] written once per loop iteration: %s) not understood" % (cval, per_px))
        elif cval != per_px:
            ctx.violation("IMAGE-CHANNELS", "Image::serialize", "channels-vs-bytes", "Image::serialize announces channels=%d but writes %d bytes per pixel" % (cval, per_px), sites=["%s:%d" % (sb.file, chan[0][1]["line"])])
        # visitor side
        fconsts = file_consts(src, vfile)
        try:
            cloc = tab["keys"].get("channels", (None, 0))[0]
            dloc = tab["keys"].get("data", (None, 0))[0]
            sloc = tab["keys"].get("size", (None, 0))[0]
            if not (cloc and dloc and sloc):
                raise NotUnderstood("visitor lacks channels/data/size locals")
            acc = None
            vnode = None
            # the validating test is the one written in the "channels" arm of the key loop; a later `debug_assert!(matches!(channels, ..))`
            # restating the fact is not it
            early = [n for n in find_all(tab["loop"], lambda n: n.get("k") == "macro" and n["short"] == "matches")]
            for mm in find_all(vfn, lambda n: n.get("k") == "macro" and n["short"] == "matches"):
                ex = mm.get("extra") or {}
                if ex.get("scrutinee") and is_path(ex["scrutinee"], cloc):
                    if vnode is not None and any(vnode is e_ for e_ in early) and not any(mm is e_ for e_ in early):
                        continue
                    cases = ex["pat"]["cases"] if ex["pat"]["k"] == "or" else [ex["pat"]]
                    acc = {lit_int(c["e"]) for c in cases if c["k"] == "lit"}
                    vnode = mm
            if acc is None:
                # the same validation spelled `[1, 3, 4].contains(&channels)` or `channels == 1 || channels == 3 || ..`
                for mc in find_all(vfn, lambda n: n.get("k") == "mcall" and n["m"] == "contains" and len(n["args"]) == 1 and is_path(unref(n["args"][0]), cloc)):
                    arr = deconst(mc["recv"], fconsts)       # `[1, 3, 4]` or a constant holding it
                    if arr.get("k") == "array" and all(lit_int(x) is not None for x in arr["elems"]):
                        acc = {lit_int(x) for x in arr["elems"]}
                        vnode = mc

                def disj(e):
                    if e.get("k") == "bin" and e["op"] == "||":
                        a, b = disj(e["l"]), disj(e["r"])
                        return None if a is None or b is None else a | b
                    if e.get("k") == "bin" and e["op"] == "==":
                        for x, y in ((e["l"], e["r"]), (e["r"], e["l"])):
                            if is_path(unref(x), cloc) and lit_int(y) is not None:
                                return {lit_int(y)}
                    return None
                if acc is None:
                    for e in find_all(vfn, lambda n: n.get("k") == "bin" and n["op"] == "||"):
                        d = disj(e)
                        if d and len(d) >= 2 and (acc is None or len(d) > len(acc)):
                            acc = d
                            vnode = e
            if acc is None:
                raise NotUnderstood("no matches!(channels, ..) validation of the channels key")
            dflt = lit_int(deconst(tab["locals"][cloc], fconsts))
            # Is the validation a rejection right where channels is assigned?  `channels = <value>; if !VALID { return Err(..) }` inside the
            # "channels" arm and no other assignment: then channels is in `acc` wherever it is read afterwards (side condition of the
            # IMAGE-ARMS lemma used when the interpreter cannot evaluate the spelling of VALID itself).
            chan_arm = None
            for mk in find_all(tab["loop"], lambda n: n.get("k") == "match"):
                for arm in mk["arms"]:
                    if "channels" in (pat_strings(arm["pat"]) or []):
                        chan_arm = arm
            writes_c = find_all(vfn, lambda n: (n.get("k") == "assign" and is_path(n["l"], cloc)) or
                                (n.get("k") == "bin" and n["op"].endswith("=") and n["op"] not in ("==", "!=", "<=", ">=") and is_path(n["l"], cloc)) or
                                (n.get("k") == "ref" and n.get("mut") and is_path(n["e"], cloc)))
            rejects = False
            if chan_arm is not None and vnode is not None:
                for n in find_all(chan_arm["body"], lambda n: n.get("k") == "if"):
                    c, neg = n["cond"], False
                    while c is not None and c.get("k") == "un" and c["op"] == "!":
                        c, neg = c["e"], not neg
                    if c is vnode:
                        br = n["then"] if neg else n["else"]
                        if br is not None and find_all(br, lambda x: x.get("k") == "return"):
                            rejects = all(w["line"] <= n["line"] for w in writes_c)
            in_arm = chan_arm is not None and len(writes_c) == 1 and any(w is writes_c[0] for w in find_all(chan_arm["body"], lambda n: n is writes_c[0]))
            ctx.extra["image_channels_validated"] = bool(rejects and in_arm and dflt in acc)
            ctx.instance("IMAGE-CHANNELS", {"visitor_accepts": sorted(acc), "default_when_absent": dflt})
            if cval is not None and cval not in acc:
                ctx.violation("IMAGE-CHANNELS", "Image::visit_map", "rejects-own-output", "the visitor accepts channels in %s but Image::serialize writes %s" % (sorted(acc), cval), sites=[vfile])
            if dflt not in acc:
                ctx.violation("IMAGE-CHANNELS", "Image::visit_map", "default-channels", "default channels=%s is not among the accepted values %s" % (dflt, sorted(acc)), sites=[vfile])
            lm = [m for m in find_all(vfn, lambda n: n.get("k") == "match") if is_path(m["e"], cloc)]
            if len(lm) != 1:
                raise NotUnderstood("expected one `match channels` building the surface")
            lm = lm[0]
            # length check dominates the layouts
            alias = build_alias(vfn)
            chk = None
            defs = {}
            for st in find_all(vfn, lambda x: x.get("k") == "let" and x["pat"]["k"] == "ident"):
                defs.setdefault(st["pat"]["name"], st["init"])

            def side_text(e):
                for _ in range(4):
                    while e is not None and e.get("k") == "call" and len(e["args"]) == 1:
                        e = e["args"][0]
                    if is_path(e) and e["p"] in defs and defs[e["p"]] is not None:
                        e = defs[e["p"]]
                    else:
                        break
                if e is None:
                    return ""
                # a product spelled with control flow (`match a.checked_mul(b) { Some(p) => p.checked_mul(c), None => None }`, `if let ..`)
                # names its factors in the scrutinee and the arms: all calls / operators of the expression are part of its text
                if e.get("k") in ("match", "if", "block", "letcond"):
                    return " ; ".join(expr_text(x) for x in find_all(e, lambda x: x.get("k") in ("mcall", "call", "bin")))
                return expr_text(e)
            for n in find_all(vfn, lambda n: n.get("k") == "if" and n["line"] < lm["line"]):
                c = n["cond"]
                neg = False
                while c.get("k") == "un" and c["op"] == "!":
                    c, neg = c["e"], not neg
                rej = n["then"] if not neg else n.get("else")
                if c.get("k") == "bin" and c["op"] == ("==" if neg else "!=") and rej is not None and find_all(rej, lambda x: x.get("k") == "return"):
                    txt = [side_text(c["l"]), side_text(c["r"])]
                    has_len = any(re.fullmatch(re.escape(dloc) + r"\.len\(\)", t) for t in txt)
                    prod = [t for t in txt if cloc in t and "height" in t and "width" in t and ("*" in t or "_mul" in t)]
                    if has_len and prod:
                        chk = prod[0]
            ctx.instance("IMAGE-CHANNELS", {"length_check": chk, "before_layouts": chk is not None})
            if chk is None:
                ctx.violation("IMAGE-CHANNELS", "Image::visit_map", "length-check", "no `data.len() != channels*height*width => Err` check precedes the pixel layouts (indexing would be unguarded)", sites=["%s:%d" % (vfile, lm["line"])])
            outer_defs = dict(defs)
            outer_mut = {st["pat"]["name"] for st in find_all(vfn, lambda x: x.get("k") == "let" and x["pat"]["k"] == "ident") if st["pat"].get("mut")}
            arms = {}
            for arm in lm["arms"]:
                n = lit_int(arm["pat"]["e"]) if arm["pat"]["k"] == "lit" else None
                if n is None:
                    if arm["pat"]["k"] == "wild":
                        ls_ = [x["line"] for x in find_all(arm, lambda x: "line" in x)]
                        if ls_ and arm is lm["arms"][-1]:
                            ctx.extra["image_layout_dead_arm_lines"] = (min(ls_), max(ls_))
                        continue
                    raise NotUnderstood("layout arm %s" % pat_text(arm["pat"]))
                arms[n] = arm
            for n in sorted(acc | set(arms)):
                arm = arms.get(n)
                if arm is None:
                    ctx.instance("IMAGE-CHANNELS", {"layout": n, "arm": None})
                    ctx.violation("IMAGE-CHANNELS", "Image::visit_map", "layout-missing:%s" % n, "channels=%s is accepted but has no layout arm (reaches unreachable!())" % n, sites=["%s:%d" % (vfile, lm["line"])])
                    continue
                cl = find_all(arm["body"], lambda x: x.get("k") == "closure")
                if len(cl) != 1 or not cl[0]["params"] or cl[0]["params"][0]["k"] != "ident":
                    raise NotUnderstood("layout arm %d closure" % n)
                pos = cl[0]["params"][0]["name"]
                defs = {}
                for st in find_all(cl[0]["body"], lambda x: x.get("k") == "let" and x["pat"]["k"] == "ident"):
                    if not st["pat"].get("mut"):
                        defs[st["pat"]["name"]] = st["init"]

                def poly(e, depth=0):
                    """the index expression as a polynomial {sorted atom tuple: coefficient} over field paths; immutable lets of the closure and of
                    the visitor (hoisted invariants such as `let width = size.width`) are substituted, so only the value matters, not the spelling"""
                    if e is None or depth > 12:
                        return None
                    k = e.get("k")
                    if k == "lit":
                        v = lit_int(e)
                        return {(): v} if v is not None else None
                    if k in ("cast", "ref", "paren") or (k == "un" and e.get("op") == "*"):
                        return poly(e["e"], depth + 1)
                    if k == "path":
                        nm = e["p"]
                        if nm in defs and defs[nm] is not None:
                            return poly(defs[nm], depth + 1)
                        if nm in outer_defs and outer_defs[nm] is not None and nm not in outer_mut:
                            return poly(outer_defs[nm], depth + 1)
                        return {(nm,): 1}
                    if k == "field":
                        base = e["e"]
                        if is_path(base) and base["p"] not in defs and base["p"] in outer_defs and base["p"] not in outer_mut and is_path(outer_defs[base["p"]]):
                            return {("%s.%s" % (outer_defs[base["p"]]["p"], e["name"]),): 1}
                        return {(expr_text(e),): 1}
                    if k == "bin" and e["op"] in ("+", "-", "*", "<<"):
                        a, b = poly(e["l"], depth + 1), poly(e["r"], depth + 1)
                        if a is None or b is None:
                            return None
                        if e["op"] == "<<":
                            if list(b) != [()]:
                                return None
                            b = {(): 2 ** b[()]}
                        out = {}
                        if e["op"] in ("+", "-"):
                            sg = 1 if e["op"] == "+" else -1
                            for m, c in a.items():
                                out[m] = out.get(m, 0) + c
                            for m, c in b.items():
                                out[m] = out.get(m, 0) + sg * c
                        else:
                            for m1, c1 in a.items():
                                for m2, c2 in b.items():
                                    m = tuple(sorted(m1 + m2))
                                    out[m] = out.get(m, 0) + c1 * c2
                        return {m: c for m, c in out.items() if c != 0}
                    return None

                def lin(e):
                    """(multiplier, additive offset) if e == mult * (pos.row * size.width + pos.col) + off, in any equivalent spelling"""
                    pl = poly(e)
                    if pl is None:
                        return None
                    rw = tuple(sorted(("%s.row" % pos, "%s.width" % sloc)))
                    cl = ("%s.col" % pos,)
                    if set(pl) - {rw, cl, ()} or pl.get(rw) is None or pl.get(rw) != pl.get(cl):
                        return None
                    return (pl[rw], pl.get((), 0))
                reads = {}
                for name, init in defs.items():
                    if init is not None and init.get("k") == "index" and is_path(unref(init["e"]), dloc):
                        reads[name] = lin(init["i"])
                news = [c for c in find_all(cl[0]["body"], lambda x: x.get("k") == "call" and is_path(x["f"]) and x["f"]["p"].endswith("RGBA::new"))]
                if len(news) != 1 or len(news[0]["args"]) != 4:
                    raise NotUnderstood("layout arm %d does not end in RGBA::new(r, g, b, a)" % n)
                argv = []
                for a in news[0]["args"]:
                    if is_path(a) and a["p"] in reads:
                        argv.append(reads[a["p"]])
                    elif a.get("k") == "index" and is_path(unref(a["e"]), dloc):
                        argv.append(lin(a["i"]))
                    elif lit_int(a) is not None:
                        argv.append(("lit", lit_int(a)))
                    else:
                        argv.append(None)
                if n >= 3:
                    want = [(n, 0), (n, 1), (n, 2)] + ([(n, 3)] if n == 4 else [("lit", 255)])
                else:
                    want = [(1, 0), (1, 0), (1, 0), ("lit", 255)]
                ok = argv == want and n in acc
                ctx.instance("IMAGE-CHANNELS", {"layout": n, "reads": [list(x) if x else None for x in argv], "expected": [list(x) for x in want], "ok": ok})
                if n not in acc:
                    ctx.note("layout arm for channels=%d exists but that value is rejected by the validation" % n)
                if argv != want:
                    ctx.violation("IMAGE-CHANNELS", "Image::visit_map", "layout:%d" % n, "the %d-channel layout reads (multiplier, offset) %s for r,g,b,a; expected %s" % (n, argv, want), sites=["%s:%d" % (vfile, arm["line"])])
        except NotUnderstood as e:
            ctx.anchor("IMAGE-CHANNELS", "Image::visit_map", str(e))

    # =========================== (c) Face names ===================================================
    FACE = "src/face.rs"
    try:
        names_fn = src.fn("names", impl_self="FaceAttrs", file=FACE)
        fsn = src.fn("from_str_named", impl_self="Face", file=FACE)
        und = src.fn("underline", impl_self="FaceAttrs", file=FACE)
        disp = src.fn("fmt", impl_self="Face", impl_trait=r"(fmt::)?Display", file=FACE)
        if not (names_fn and fsn and und and disp):
            raise NotUnderstood("FaceAttrs::names / Face::from_str_named / FaceAttrs::underline / Display for Face not found")
        names_fn, fsn, und, disp = names_fn[1], fsn[1], und[1], disp[1]
        env = {}
        pending = [(it["name"], it["expr"]) for (f, s, it, t) in src.consts if f == FACE and s == "FaceAttrs" and not t]
        for _ in range(3):
            for nm, ex in pending:
                if ex.get("k") == "struct":
                    for fl in ex["fields"]:
                        if fl["name"] == "bits":
                            v = eval_const(fl["e"], env)
                            if v is not None:
                                env[nm] = v
                else:
                    v = eval_const(ex, env)
                    if v is not None:
                        env[nm] = v
        # underline(): mask & bits -> variant
        um = find_all(und, lambda n: n.get("k") == "match")
        if len(um) != 1 or um[0]["e"].get("k") != "bin" or um[0]["e"]["op"] != "&":
            raise NotUnderstood("FaceAttrs::underline is not `match MASK & self.bits`")
        mask = None
        for side in (um[0]["e"]["l"], um[0]["e"]["r"]):
            mv = eval_const(side, env)
            if mv is None and is_path(side):
                mv = env.get(side["p"].split("::")[-1])
            mask = mv if mask is None else mask
        if not isinstance(mask, int):
            raise NotUnderstood("the mask of FaceAttrs::underline (`match MASK & self.bits`) is not a constant")
        decode = {}
        for arm in um[0]["arms"]:
            v = tail(arm["body"]) if arm["body"].get("k") == "block" else arm["body"]
            if arm["pat"]["k"] == "lit" and is_path(v):
                decode[lit_int(arm["pat"]["e"])] = v["p"].split("::")[-1]
        # names(): match under {variant => push(name)} ; for (flag, name) in [...]
        nm_match = [m for m in find_all(names_fn, lambda n: n.get("k") == "match")]
        under_print = {}
        if len(nm_match) != 1:
            raise NotUnderstood("names(): expected one match on the underline style")
        usrc = nm_match[0]["e"]
        alias = build_alias(names_fn)
        tup = [n for n in find_all(names_fn, lambda n: n.get("k") == "let" and n["pat"]["k"] == "tuple")]
        under_ok = bool(tup) and tup[0]["pat"]["elems"][0].get("name") == usrc.get("p") and chain(tup[0]["init"])[1] in (["unpack"], ["underline"])
        if is_path(usrc) is False or not (under_ok or chain(usrc)[1] == ["underline"]):
            raise NotUnderstood("names(): the matched value is not self.unpack().0 / self.underline()")
        for arm in nm_match[0]["arms"]:
            if arm["pat"]["k"] != "path":
                raise NotUnderstood("names() arm %s" % pat_text(arm["pat"]))
            ps = find_all(arm["body"], lambda n: n.get("k") == "mcall" and n["m"] == "push" and n["args"] and n["args"][0].get("t") == "str")
            if ps:
                under_print[arm["pat"]["p"].split("::")[-1]] = (ps[0]["args"][0]["v"], arm["line"])
        fors = find_all(names_fn, lambda n: n.get("k") == "for")
        if len(fors) != 1 or unref(fors[0]["iter"]).get("k") != "array":
            raise NotUnderstood("names(): expected one loop over a literal (flag, name) array")
        flag_print = {}
        for el in unref(fors[0]["iter"])["elems"]:
            if el.get("k") != "tuple" or not is_path(el["elems"][0]) or el["elems"][1].get("t") != "str":
                raise NotUnderstood("names() flag row %s" % expr_text(el))
            flag_print[el["elems"][0]["p"].split("::")[-1]] = (el["elems"][1]["v"], el["line"])
        fv, nv = [e["name"] for e in fors[0]["pat"]["elems"]]
        cond = find_all(fors[0]["body"], lambda n: n.get("k") == "if")
        ct = expr_text(cond[0]["cond"]) if cond else ""
        pol = flag_test(cond[0]["cond"], fv) if cond else None
        if pol is None:
            raise NotUnderstood("names(): flag test %s" % ct)
        # the name is pushed exactly when the flag is set (every flag is a single bit: checked per row below)
        def pushes(n):
            return bool(find_all(n, lambda x: x.get("k") == "mcall" and x["m"] == "push" and x["args"] and is_path(unref(x["args"][0]), nv))) if n else False
        in_then, in_else = pushes(cond[0]["then"]), pushes(cond[0].get("else"))
        after = pushes(fors[0]["body"]) and not in_then and not in_else
        skips = bool(find_all(cond[0]["then"], lambda x: x.get("k") == "continue"))
        if not ((pol and in_then and not in_else and not after) or (not pol and not in_then and (in_else or (after and skips)))):
            raise NotUnderstood("names(): the name is not pushed exactly under the flag test %s" % ct)
        # from_str_named
        fm = [m for m in find_all(fsn, lambda n: n.get("k") == "match") if any(pat_strings(a["pat"]) for a in m["arms"])]
        if len(fm) != 1:
            raise NotUnderstood("from_str_named: expected one match on the key")
        parse = {}
        empty_ok = False
        for arm in fm[0]["arms"]:
            strs = pat_strings(arm["pat"])
            if strs is None:
                continue
            b = arm["body"]
            if b.get("k") == "block" and not b["stmts"]:
                for s in strs:
                    empty_ok = empty_ok or s == ""
                    parse[s] = ("nop", None, arm["line"])
            elif b.get("k") == "bin" and b["op"] == "|=" and expr_text(b["l"]).endswith(".attrs") and is_path(b["r"]):
                for s in strs:
                    parse[s] = ("attr", b["r"]["p"].split("::")[-1], arm["line"])
            elif b.get("k") == "assign" and b["l"].get("k") == "field":
                for s in strs:
                    parse[s] = ("field", b["l"]["name"], arm["line"])
            else:
                raise NotUnderstood("from_str_named arm %s" % strs)
        splits = {}
        # the item separator is what `split(SEP)` cuts on; the key/value separator is what cuts an item once, at the first occurrence:
        # `splitn(2, SEP)` (two `next()`s) and `split_once(SEP)` (a pair, or None when absent) are the same cut.  A separator may be a
        # char, a one-character string or a constant naming either.
        fsn_consts = file_consts(src, FACE)
        for n in find_all(fsn, lambda n: n.get("k") == "mcall" and n["m"] in ("split", "splitn", "split_once") and n["args"]):
            a = deconst(n["args"][-1], fsn_consts)
            if a.get("k") != "lit":
                continue
            if n["m"] == "splitn" and (len(n["args"]) != 2 or lit_int(deconst(n["args"][0], fsn_consts)) != 2):
                continue
            role = "split" if n["m"] == "split" else "splitn"
            splits[role] = chr(a["v"]) if a.get("t") == "char" and isinstance(a["v"], int) else a.get("v")
        trims = len(find_all(fsn, lambda n: n.get("k") == "mcall" and n["m"] == "trim"))
        W = "Face::from_str_named"

        def printed_name(const):
            b = env.get(const)
            if b is None:
                return None
            if b & mask:
                v = decode.get(b & mask)
                return under_print.get(v, (None,))[0] if (b & ~mask) == 0 else None
            return flag_print.get(const, (None,))[0]

        for v, (name, line) in sorted(under_print.items()):
            p = parse.get(name)
            dec = decode.get(env.get(p[1], 0) & mask) if p and p[0] == "attr" else None
            pure = p and p[0] == "attr" and env.get(p[1]) is not None and (env[p[1]] & ~mask) == 0
            ctx.instance("FACE-NAMES", {"dir": "print->parse", "underline": v, "name": name, "parsed_const": p[1] if p else None, "bits": env.get(p[1]) if p and p[0] == "attr" else None, "decodes_to": dec})
            if not p or p[0] != "attr" or dec != v or not pure:
                ctx.violation("FACE-NAMES", "FaceAttrs::names", "underline:" + name, "UnderlineStyle::%s prints as %r, which from_str_named maps to %s (decoding to %s)" % (v, name, p and p[1], dec), sites=["%s:%d" % (FACE, line)])
        for c, (name, line) in sorted(flag_print.items()):
            p = parse.get(name)
            b = env.get(c)
            single = b is not None and b != 0 and (b & (b - 1)) == 0 and (b & mask) == 0
            ctx.instance("FACE-NAMES", {"dir": "print->parse", "flag": c, "name": name, "parsed_const": p[1] if p else None, "bits": b, "single_bit_above_mask": single})
            if not p or p[0] != "attr" or p[1] != c:
                ctx.violation("FACE-NAMES", "FaceAttrs::names", "flag:" + name, "FaceAttrs::%s prints as %r, which from_str_named maps to %s" % (c, name, p and p[1]), sites=["%s:%d" % (FACE, line)])
            if not single:
                ctx.violation("FACE-NAMES", "FaceAttrs", "bits:" + c, "FaceAttrs::%s = %s is not a single bit above the underline mask %s" % (c, b, mask), sites=[FACE])
        for name, (kind, c, line) in sorted(parse.items()):
            if kind != "attr":
                continue
            pn = printed_name(c)
            ctx.instance("FACE-NAMES", {"dir": "parse->print", "name": name, "const": c, "bits": env.get(c), "printed": pn})
            if pn != name:
                ctx.violation("FACE-NAMES", W, "attr:" + name, "attribute name %r sets FaceAttrs::%s, which names() prints as %r: the printed face does not parse back to the same face" % (name, c, pn), sites=["%s:%d" % (FACE, line)])
        # Display: key=value pieces, names loop, separators
        dkeys = {}
        seps = set()
        names_loop = False
        for node, tpl in templates_deep(src, FACE, disp):     # incl. writer helpers such as write_separator(f, &mut first)
            lits = "".join(x[1] for x in tpl if x[0] == "lit")
            holes = [x for x in tpl if x[0] == "hole"]
            if not holes:
                seps.add(lits)
            elif len(holes) == 1 and tpl[0][0] == "lit" and tpl[0][1].endswith("=") and tpl[-1][0] == "hole":
                dkeys[tpl[0][1][:-1]] = (root(holes[0][1]), holes[0][2], node["line"])
            elif len(tpl) == 1:
                names_loop = names_loop or holes[0][2] == ""
            else:
                raise NotUnderstood("Display template %s" % (tpl,))
        dalias = {}
        for n in find_all(disp, lambda n: n.get("k") == "letcond" and n["pat"]["k"] == "tstruct" and n["pat"]["path"] == "Some"):
            dalias[n["pat"]["elems"][0]["name"]] = expr_text(n["e"])
        for key, (var, spec, line) in sorted(dkeys.items()):
            srcf = dalias.get(var, "")
            p = parse.get(key)
            ok = p is not None and p[0] == "field" and srcf == "self." + p[1] and spec == ""
            ctx.instance("FACE-NAMES", {"display_key": key, "printed_from": srcf, "spec": spec, "parsed_into": p[1] if p else None, "ok": ok})
            if not ok:
                ctx.violation("FACE-NAMES", "Face::Display", "key:" + key, "Display writes %r from %s (spec %r) but from_str_named stores key %r into %s" % (key + "=", srcf, spec, key, p and p[1]), sites=["%s:%d" % (FACE, line)])
        for name, (kind, c, line) in sorted(parse.items()):
            if kind == "field":
                ok = name in dkeys
                ctx.instance("FACE-NAMES", {"parse_key": name, "field": c, "printed_by_display": ok})
                if not ok:
                    ctx.violation("FACE-NAMES", W, "unprinted-key:" + name, "from_str_named reads key %r into %s but Display never prints it" % (name, c), sites=["%s:%d" % (FACE, line)])
        lp = [f for f in find_all(disp, lambda n: n.get("k") == "for")]
        loop_ok = len(lp) == 1 and chain(lp[0]["iter"])[1] == ["names"] and expr_text(chain(lp[0]["iter"])[0]) == "self.attrs" and names_loop
        ctx.instance("FACE-NAMES", {"display_prints_all_names": loop_ok})
        if not loop_ok:
            ctx.violation("FACE-NAMES", "Face::Display", "names-loop", "Display does not print every element of self.attrs.names() verbatim", sites=["%s:%d" % (FACE, disp["line"])])
        sep = sorted(seps)
        ok = len(sep) == 1 and sep[0] == splits.get("split")
        ctx.instance("FACE-NAMES", {"item_separator_printed": sep, "parsed": splits.get("split"), "ok": ok})
        if not ok:
            ctx.violation("FACE-NAMES", "Face::Display", "item-separator", "Display separates items with %s but from_str_named splits on %r" % (sep, splits.get("split")), sites=["%s:%d" % (FACE, disp["line"])])
        ok = splits.get("splitn") == "="
        ctx.instance("FACE-NAMES", {"key_value_separator": "=", "parsed": splits.get("splitn"), "ok": ok})
        if not ok:
            ctx.violation("FACE-NAMES", W, "kv-separator", "Display writes key=value but from_str_named splits key from value on %r" % splits.get("splitn"), sites=[FACE])
        allnames = [v[0] for v in under_print.values()] + [v[0] for v in flag_print.values()] + list(dkeys)
        bad = sorted(n for n in allnames if n == "" or n != n.strip() or any(s and s in n for s in (splits.get("split"), splits.get("splitn"))))
        ctx.instance("FACE-NAMES", {"names_checked_for_separators": len(allnames), "offending": bad, "parser_trims": trims})
        for n in bad:
            ctx.violation("FACE-NAMES", "FaceAttrs::names", "name-contains-separator:" + n.replace(" ", "_"), "printed name %r is empty, padded or contains a separator" % n, sites=[FACE])
        ctx.instance("FACE-NAMES", {"empty_face_prints_nothing_and_parses": empty_ok})
        if not empty_ok:
            ctx.violation("FACE-NAMES", W, "empty-item", "the default face prints as the empty string, which from_str_named rejects (no `\"\" => {}` arm)", sites=[FACE])
        # serde chain
        fs = prog.one(r"^<face::Face as .*::Serialize>::serialize$")
        fd = prog.one(r"^<face::Face as .*::Deserialize<'de>>::deserialize$")
        ff = prog.one(r"^<face::Face as std::str::FromStr>::from_str$")
        fseed = prog.one(r"^<face::FaceDeserializer<'_> as .*::DeserializeSeed<'de>>::deserialize$")
        links = [
            ("Face::serialize -> collect_str(self)", fs, lambda b: [t for _, t in b.calls() if call_matches(t, r"Serializer::collect_str$") and arg_place(b, t, 1) == "(*_1)"]),
            ("Face::deserialize -> str::parse::<Face>", fd, lambda b: [t for _, t in b.calls() if (call_matches(t, r"str>::parse$") and t["fn"].get("resolved_generics") == ["face::Face"]) or call_matches(t, r"^<face::Face as std::str::FromStr>::from_str$")]),
            ("Face::from_str -> from_str_named", ff, lambda b: [t for _, t in b.calls() if call_matches(t, r"^face::Face::from_str_named$")]),
            ("FaceDeserializer -> from_str_named", fseed, lambda b: [t for _, t in b.calls() if call_matches(t, r"^face::Face::from_str_named$")]),
        ]
        for what, b, f in links:
            ok = b is not None and len(f(b)) == 1
            if ok and "serialize ->" in what:
                ok = not [t for _, t in b.calls() if re.search(r"::serialize_\w+$", callee_name(t) or "")]
            ctx.instance("FACE-NAMES", {"link": what, "ok": ok})
            if not ok:
                ctx.violation("FACE-NAMES", what.split(" ")[0], "serde-chain", "%s does not hold: the serialised form is not the Display/from_str_named form checked above" % what, sites=[b.loc] if b else [FACE])
    except NotUnderstood as e:
        ctx.anchor("FACE-NAMES", "face-tables", str(e))

    # =========================== (d) sibling constructors ========================================
    def in_deser_scope(s, tr, fn):
        return fn["name"].endswith("from_json_value") or bool(tr and re.search(r"Deserialize|Visitor", tr))

    structs = {}     # struct name -> [(file, fn label, scope, literal node, fn item, impl_self)]
    for (f, s, tr, fn, t) in src.fns:
        if t or not fn.get("body"):
            continue
        self_name = re.sub(r"<.*", "", s) if s and not s.startswith("trait ") else None
        for lit in find_all(fn["body"], is_struct_lit):
            nm = lit["path"].split("::")[-1] if lit["path"] != "Self" else self_name
            if lit["path"].count("::") and lit["path"].split("::")[-2][:1].isupper() and lit["path"] != "Self":
                nm = lit["path"].split("::")[-2] + "::" + nm      # enum struct-variant
            if nm is None or nm.endswith("Deserializer") or nm.endswith("Vistor"):
                continue
            structs.setdefault(nm, []).append((f, fn_label(s, fn), "deser" if in_deser_scope(s, tr, fn) else "builder", lit, fn))

    def classify(e, fn, depth=0):
        """('none'|'copy'|'filtered:<pred>'|'literal'|'raw', text)"""
        if e is None:
            return ("raw", "")
        if is_path(e, "None"):
            return ("none", "None")
        if e.get("k") == "lit":
            return ("literal", expr_text(e))
        preds = []
        cmp_ = lambda x: x.get("k") == "bin" and x["op"] in (">", ">=", "<", "<=", "!=") and lit_float(x["r"]) is not None
        n = e
        while n is not None and n.get("k") in ("mcall", "try", "ref"):
            if n["k"] == "mcall" and n["m"] in FILTER_METHODS:
                if n["m"] in ("and_then", "filter"):
                    for c in find_all(n["args"], cmp_):
                        preds.append("%s%g" % (c["op"], lit_float(c["r"])))
                elif n["m"] in ("then_some", "then"):
                    for c in find_all(n["recv"], cmp_):
                        preds.append("%s%g" % (c["op"], lit_float(c["r"])))
                else:
                    preds.append(n["m"])
            n = n["recv"] if n["k"] == "mcall" else n["e"]
        if preds:
            return ("filtered:" + ",".join(sorted(set(preds))), expr_text(e))
        if e.get("k") == "field" and depth == 0:
            return ("copy", expr_text(e))
        if is_path(e) and depth < 3 and "::" not in e["p"]:
            lets = [n for n in find_all(fn["body"], lambda n: n.get("k") == "let" and n["pat"]["k"] == "ident" and n["pat"]["name"] == e["p"] and n["line"] <= e["line"])]
            lets.sort(key=lambda n: n["line"])
            lets = [n for n in lets if n["init"] is not None and not any(x is e for x in find_all(n["init"], lambda x: True))]
            if lets:
                c = classify(lets[-1]["init"], fn, depth + 1)
                return c if c[0] != "copy" else ("raw", c[1])
            return ("raw", "parameter " + e["p"])
        return ("raw", expr_text(e))

    nth = {}
    targets = sorted(nm for nm, sites in structs.items() if any(sc == "deser" for _, _, sc, _, _ in sites))
    ctx.extra["structs_built_by_deserialisers"] = targets
    for nm in targets:
        sites = sorted(structs[nm], key=lambda x: (x[0], x[3]["line"]))
        fields = sorted({fl["name"] for _, _, _, lit, _ in sites for fl in lit["fields"]})
        for fld in fields:
            rows = []
            for f, label, sc, lit, fn in sites:
                fl = [x for x in lit["fields"] if x["name"] == fld]
                if fl:
                    cls = classify(fl[0]["e"], fn)
                elif lit.get("rest") is not None:
                    cls = ("copy", "..rest")
                else:
                    continue
                rows.append((f, label, sc, cls, fl[0]["line"] if fl else lit["line"]))
            ref = sorted({c[0] for _, _, sc, c, _ in rows if c[0].startswith("filtered:")})
            # the reference validation is the one the builder API applies; without a filtering builder all filtering sites must agree
            ref_b = sorted({c[0] for _, _, sc, c, _ in rows if c[0].startswith("filtered:") and sc == "builder"})
            for f, label, sc, cls, line in rows:
                agrees = (not ref) or cls[0] in ("none", "copy") or (cls[0] in ref and (len(ref) == 1 or (sc == "builder" and len(ref_b) == 1) or (sc == "deser" and cls[0] in ref_b)))
                ctx.instance("SIBLING-FILTER", {"struct": nm, "field": fld, "site": label, "scope": sc, "value": cls[0], "builder_filters": ref, "agrees": agrees})
                if sc == "deser" and not agrees:
                    nth[(label, nm, fld)] = nth.get((label, nm, fld), 0) + 1
                    k = nth[(label, nm, fld)]
                    ctx.violation("SIBLING-FILTER", label, "%s.%s:unfiltered%s" % (nm, fld, "" if k == 1 else "#%d" % k),
                                  "%s { %s: %s } is built from deserialised input without the validation %s that the sibling builder applies to the same field "
                                  "(the builder's invariant does not hold for values read from JSON)" % (nm, fld, cls[1], ref), sites=["%s:%d" % (f, line)])
                elif sc == "builder" and not agrees:
                    # a sibling constructor of a struct that deserialisers also build: the same invariant must hold at every literal site,
                    # otherwise a tree that deserialises (and is then extended through the builder API) breaks the layout's precondition
                    nth[(label, nm, fld)] = nth.get((label, nm, fld), 0) + 1
                    k = nth[(label, nm, fld)]
                    ctx.violation("SIBLING-FILTER", label, "%s.%s:unfiltered%s" % (nm, fld, "" if k == 1 else "#%d" % k),
                                  "builder %s stores %s { %s: %s } without the validation %s that its sibling constructors apply to the same field"
                                  % (label, nm, fld, cls[1], ref), sites=["%s:%d" % (f, line)])
    # the reference filter itself must exist (anchor of the agreement)
    fc = structs.get("FlexChild", [])
    refs = []
    for f, label, sc, lit, fn in fc:
        for fl in lit["fields"]:
            if fl["name"] == "flex":
                c = classify(fl["e"], fn)
                if c[0].startswith("filtered:") and ">0" in c[0]:
                    refs.append(label)
    ctx.instance("SIBLING-FILTER", {"reference": "FlexChild.flex > 0 filter at some literal site", "found_in": refs})
    if not refs:
        ctx.anchor("SIBLING-FILTER", "FlexChild.flex-reference-filter", "no constructor of FlexChild filters `flex > 0` any more: flex_layout divides the remaining space by "
                   "flex/flex_total and subtracts the child's size, which needs every flex > 0; nothing establishes it")
    # strings are read through an owning-capable type: serde's `&'de str` / `&'de [u8]` impls reject input that cannot be borrowed
    # (JSON strings with escapes such as the chord "ctrl+\\", serde_json::Value, readers)
    ctx.rule("OWNED-STR", "hand-written deserialisers read strings as Cow<str>/String (never <&str>/<&[u8]>::deserialize, next_value::<&str>, next_key::<&str>): "
                          "a borrowed string cannot represent escaped JSON text", floor=3)
    for b in prog.bodies:
        if not b.file.startswith("src/"):
            continue
        for bb, t in b.calls():
            nm = callee_name(t) or ""
            if not re.search(r"Deserialize<'de>( for .*)?>::deserialize$|::next_(value|key|element)(_seed)?$|Deserializer<'de>>::deserialize_(str|bytes)$", nm):
                continue
            gens = t["fn"].get("generics") or []
            strish = [g for g in gens if re.search(r"\bstr\b|\[u8\]|String|Vec<u8>", g)]
            if not strish and not re.search(r" for &'a (str|\[u8\])>::deserialize$", nm):
                continue
            borrowed = [g for g in strish if re.match(r"^&('\w+ )?(str|\[u8\])$", g)] or ([nm] if re.search(r" for &'a (str|\[u8\])>::deserialize$", nm) else [])
            ctx.instance("OWNED-STR", {"fn": b.path, "reads": strish or [nm], "borrowed_only": bool(borrowed)})
            if borrowed:
                ctx.violation("OWNED-STR", b.path, "borrowed-str", "%s deserialises a string as %s: serde can only hand out a borrowed &str when the input holds the text verbatim, "
                              "so JSON strings with escapes (the chord \"ctrl+\\\\\") and owned inputs (serde_json::Value, readers) are rejected" % (b.path, borrowed[0]),
                              sites=["%s:%d" % (b.file, t["line"])])
    obligations(ctx)
    from . import c19_sep
    c19_sep.run_sep(ctx)
