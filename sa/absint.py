"""Abstract interpreter over MIR bodies (DESIGN §2.3): forward, flow-sensitive, branch-refining.
Domain: value-numbered integer symbols with intervals + sparse difference bounds, slice length
symbols, enum variant sets with payload places, reference targets.  Sound-not-complete: anything
not understood becomes TOP / kills facts.  Used to discharge the obligations of sa/obligations.py."""
import math
import re
from .mir import place_str, op_local, callee_name, callee_names, call_matches
from .obligations import ty_range, int_bits

INF = math.inf


# ------------------------------------------------------------------------------------------------
# intervals
def iadd(a, b):
    return (a[0] + b[0], a[1] + b[1])


def isub(a, b):
    return (a[0] - b[1], a[1] - b[0])


def _mul(x, y):
    if x == 0 or y == 0:
        return 0
    return x * y


def imul(a, b):
    c = [_mul(a[0], b[0]), _mul(a[0], b[1]), _mul(a[1], b[0]), _mul(a[1], b[1])]
    return (min(c), max(c))


def idiv(a, b):
    """truncating division, b must not contain 0"""
    if b[0] <= 0 <= b[1]:
        return (-INF, INF)
    c = []
    for x in a:
        for y in b:
            if x in (INF, -INF):
                if y in (INF, -INF):
                    c.append(0)
                else:
                    c.append(x if y > 0 else -x)
            elif y in (INF, -INF):
                c.append(0)
            else:
                q = abs(x) // abs(y)
                c.append(q if (x >= 0) == (y > 0) else -q)
    return (min(c), max(c))


def ijoin(a, b):
    return (min(a[0], b[0]), max(a[1], b[1]))


def imeet(a, b):
    return (max(a[0], b[0]), min(a[1], b[1]))


def iempty(a):
    return a[0] > a[1]


def clip(itv, ty):
    r = ty_range(ty)
    if r is None:
        return itv
    return imeet(itv, r)


def fits(itv, ty):
    r = ty_range(ty)
    return r is not None and itv[0] >= r[0] and itv[1] <= r[1]


# ------------------------------------------------------------------------------------------------
class V:
    """abstract value"""
    __slots__ = ("const", "sym", "ty", "ref_to", "len", "cond", "discr_of", "rng", "lazy", "is_mut", "negof", "tbl")

    def __init__(self, ty=None, const=None, sym=None, ref_to=None, len=None, cond=None, discr_of=None, rng=None, lazy=None, is_mut=False, negof=None, tbl=None):
        self.negof = negof      # term t such that value == -t
        self.tbl = tbl          # def path of the literal const table this array value is a copy of
        self.ty = ty
        self.const = const      # exact integer
        self.sym = sym          # (sid, offset)
        self.ref_to = ref_to    # key of the place a reference points to
        self.len = len          # ('c', n) | ('s', sid, off): length of the slice/str/vec this value is (or points to)
        self.cond = cond        # for bools: (op, A, B) with A,B = ('c', n) | ('s', sid, off)
        self.discr_of = discr_of  # key whose discriminant this integer is
        self.rng = rng          # for range-iterator values: (start_term, end_term) terms like len
        self.lazy = lazy        # ('pow', len_term, radix): value <= radix**len - 1
        self.is_mut = is_mut

    def key(self):
        return (self.const, self.sym, self.ref_to, self.len, self.cond, self.discr_of, self.rng, self.lazy, self.negof, self.tbl)

    def __eq__(self, o):
        return isinstance(o, V) and self.key() == o.key()

    def __hash__(self):
        return hash(self.key())

    def __repr__(self):
        parts = []
        for n in ("const", "sym", "ref_to", "len", "cond", "discr_of", "rng", "lazy"):
            v = getattr(self, n)
            if v is not None:
                parts.append("%s=%s" % (n, v))
        return "V(%s)" % ", ".join(parts)


TOPV = V()


class State:
    def __init__(self):
        self.vals = {}
        self.syms = {}
        self.diffs = {}       # (a, b) -> d : a - b <= d
        self.variants = {}    # key -> frozenset(variant names)
        self.sums = {}        # (a, b) sorted -> (lo, hi): bounds on sym a + sym b
        self.exprs = {}       # sid -> ("add"|"sub", termA, termB): sid == A + B / A - B exactly
        self.holes = {}       # sid -> frozenset of integers the symbol is known not to equal (inside its interval)
        self.dead = False

    def sum_bound(self, a, b):
        k = (a, b) if a <= b else (b, a)
        return self.sums.get(k, (-INF, INF))

    def refine_sum(self, a, b, itv):
        k = (a, b) if a <= b else (b, a)
        cur = self.sums.get(k, (-INF, INF))
        n = imeet(cur, itv)
        if iempty(n):
            self.dead = True
        self.sums[k] = n

    def copy(self):
        s = State()
        s.sums = dict(self.sums)
        s.exprs = dict(self.exprs)
        s.vals = dict(self.vals)
        s.syms = dict(self.syms)
        s.diffs = dict(self.diffs)
        s.variants = dict(self.variants)
        s.holes = dict(self.holes)
        s.dead = self.dead
        return s

    def excluded(self, t, c):
        """is the integer c impossible for term t"""
        if t[0] == "c":
            return t[1] != c
        lo, hi = self.itv_term(t)
        if c < lo or c > hi:
            return True
        return (c - t[2]) in self.holes.get(t[1], ())

    # ---- terms: ('c', n) | ('s', sid, off) -----------------------------------------------------
    def term(self, v):
        if v is None:
            return None
        if v.const is not None:
            return ("c", v.const)
        if v.sym is not None:
            return ("s", v.sym[0], v.sym[1])
        return None

    def itv_sym(self, sid, depth=0):
        lo, hi = self.syms.get(sid, (-INF, INF))
        if depth < 2:
            for (a, b), d in self.diffs.items():
                if a == sid:      # sid - b <= d  => sid <= hi(b) + d
                    hb = self.itv_sym(b, depth + 1)[1]
                    if hb + d < hi:
                        hi = hb + d
                elif b == sid:    # a - sid <= d  => sid >= lo(a) - d
                    la = self.itv_sym(a, depth + 1)[0]
                    if la - d > lo:
                        lo = la - d
        return (lo, hi)

    def itv_term(self, t):
        if t is None:
            return (-INF, INF)
        if t[0] == "c":
            return (t[1], t[1])
        lo, hi = self.itv_sym(t[1])
        return (lo + t[2], hi + t[2])

    def itv(self, v):
        if v is None:
            return (-INF, INF)
        if v.const is not None:
            return (v.const, v.const)
        r = (-INF, INF)
        if v.sym is not None:
            r = self.itv_term(("s", v.sym[0], v.sym[1]))
        if v.lazy is not None and v.lazy[0] == "pow":
            lh = self.itv_term(v.lazy[1])[1]
            if lh != INF and lh >= 0 and lh < 40:
                r = imeet(r, (0, v.lazy[2] ** int(lh) - 1))
        if v.ty:
            r = clip(r, v.ty)
        return r

    # ---- relational queries ---------------------------------------------------------------------
    def le(self, a, b, strict=False):
        """is term a <= b (or a < b) provable?"""
        k = 1 if strict else 0
        ia, ib = self.itv_term(a), self.itv_term(b)
        if ia[1] + k <= ib[0]:
            return True
        if a[0] == "s" and b[0] == "s":
            if a[1] == b[1]:
                return a[2] + k <= b[2]
            d = self.diffs.get((a[1], b[1]))
            if d is not None and d + a[2] - b[2] + k <= 0:
                return True
            if self._le_via_exprs(a, b, k):
                return True
            # one-step transitivity through a third symbol
            for (x, y), d1 in self.diffs.items():
                if x == a[1]:
                    d2 = self.diffs.get((y, b[1]))
                    if d2 is not None and d1 + d2 + a[2] - b[2] + k <= 0:
                        return True
                    if y == b[1]:
                        continue
        return False

    def _le_via_exprs(self, a, b, k, depth=0):
        """a = x + y (+off) with y <= s and s = p - x   =>   a <= p (+off)"""
        if depth > 1 or a[0] != "s":
            return False
        ex = self.exprs.get(a[1])
        if not ex or ex[0] != "add":
            return False
        for x, y in ((ex[1], ex[2]), (ex[2], ex[1])):
            for sid_s, e2 in self.exprs.items():
                if e2[0] != "sub" or e2[2] != x:
                    continue
                if y is not None and self.le(y, ("s", sid_s, 0)):
                    p = e2[1]
                    shifted = ("c", p[1] + a[2] + k) if p[0] == "c" else ("s", p[1], p[2] + a[2] + k)
                    if shifted == b or self.le(shifted, b):
                        return True
        return False

    def assume_le(self, a, b, strict=False, _depth=0):
        """refine with a <= b (a < b)"""
        k = 1 if strict else 0
        if a is None or b is None:
            return
        if _depth < 2:
            # a bound on r == A - X against a constant bounds X:  A - X (+off) <= c  =>  X >= A + off - c ;  c <= A - X (+off)  =>  X <= A + off - c
            def shift(t, n):
                return ("c", t[1] + n) if t[0] == "c" else ("s", t[1], t[2] + n)
            if a[0] == "s" and b[0] == "c":
                ex = self.exprs.get(a[1])
                if ex and ex[0] == "sub" and ex[2] is not None and ex[2][0] == "s" and ex[1] is not None:
                    self.assume_le(shift(ex[1], a[2] + k - b[1]), ex[2], False, _depth + 1)
            if b[0] == "s" and a[0] == "c":
                ex = self.exprs.get(b[1])
                if ex and ex[0] == "sub" and ex[2] is not None and ex[2][0] == "s" and ex[1] is not None:
                    self.assume_le(ex[2], shift(ex[1], b[2] - k - a[1]), False, _depth + 1)
        ia, ib = self.itv_term(a), self.itv_term(b)
        # a <= ib.hi - k ; b >= ia.lo + k
        if a[0] == "s":
            self.refine_sym(a[1], (-INF, ib[1] - k - a[2]))
        elif ib[1] - k < a[1]:
            self.dead = True
        if b[0] == "s":
            self.refine_sym(b[1], (ia[0] + k - b[2], INF))
        elif ia[0] + k > b[1]:
            self.dead = True
        if a[0] == "s" and b[0] == "s" and a[1] != b[1]:
            d = b[2] - a[2] - k     # a.sym - b.sym <= d
            old = self.diffs.get((a[1], b[1]))
            if old is None or d < old:
                self.diffs[(a[1], b[1])] = d
        if a[0] == "s" and b[0] == "s" and a[1] == b[1]:
            if a[2] + k > b[2]:
                self.dead = True

    def assume_eq(self, a, b):
        self.assume_le(a, b)
        self.assume_le(b, a)

    def assume_ne(self, a, b):
        ia, ib = self.itv_term(a), self.itv_term(b)
        if ib[0] == ib[1]:
            c = ib[0]
            if a[0] == "s":
                lo, hi = self.itv_term(a)
                if lo == c:
                    self.refine_sym(a[1], (c + 1 - a[2], INF))
                elif hi == c:
                    self.refine_sym(a[1], (-INF, c - 1 - a[2]))
                elif lo < c < hi:
                    hs = self.holes.get(a[1], frozenset())
                    if len(hs) < 16:
                        self.holes[a[1]] = hs | {c - a[2]}
                # shrink the interval past holes at its ends
                lo, hi = self.syms.get(a[1], (-INF, INF))
                hs = self.holes.get(a[1], ())
                while lo != -INF and lo <= hi and lo in hs:
                    lo += 1
                while hi != INF and hi >= lo and hi in hs:
                    hi -= 1
                if (lo, hi) != self.syms.get(a[1], (-INF, INF)):
                    self.syms[a[1]] = (lo, hi)
                    if lo > hi:
                        self.dead = True
            elif a[1] == c:
                self.dead = True
        elif ia[0] == ia[1]:
            self.assume_ne(b, a)

    def refine_sym(self, sid, itv):
        cur = self.syms.get(sid, (-INF, INF))
        n = imeet(cur, itv)
        if iempty(n):
            self.dead = True
        self.syms[sid] = n

    # ---- place bookkeeping ---------------------------------------------------------------------
    def kill_prefix(self, prefix):
        for d in (self.vals, self.variants):
            for k in [k for k in d if k == prefix or k.startswith(prefix + ".") or k.startswith("(" + prefix + " as ") or k.startswith("(*" + prefix + ")") or k.startswith(prefix + "[")]:
                del d[k]

    def copy_prefix(self, src, dst):
        if src == dst:
            return
        self.kill_prefix(dst)
        for d in (self.vals, self.variants):
            for k in list(d):
                nk = None
                if k == src:
                    nk = dst
                elif k.startswith(src + "."):
                    nk = dst + k[len(src):]
                elif k.startswith("(" + src + " as "):
                    nk = "(" + dst + k[len(src) + 1:]
                if nk is not None:
                    d[nk] = d[k]


def join_states(states, bb, body):
    states = [s for s in states if s is not None and not s.dead]
    if not states:
        return None
    if len(states) == 1:
        return states[0].copy()
    out = State()
    keys = set(states[0].vals)
    for s in states[1:]:
        keys &= set(s.vals)
    for k in keys:
        vs = [s.vals[k] for s in states]
        if all(v == vs[0] for v in vs[1:]):
            out.vals[k] = vs[0]
            continue
        ty = vs[0].ty
        nv = V(ty=ty)
        # integer part
        if all((v.const is not None or v.sym is not None) for v in vs):
            sid = "phi:%d:%s" % (bb, k)
            itv = None
            for s, v in zip(states, vs):
                i = s.itv(v)
                itv = i if itv is None else ijoin(itv, i)
            out.syms[sid] = itv
            nv.sym = (sid, 0)
        # length part
        if all(v.len is not None for v in vs):
            if all(v.len == vs[0].len for v in vs[1:]):
                nv.len = vs[0].len
            else:
                sid = "phi:%d:%s#len" % (bb, k)
                itv = None
                for s, v in zip(states, vs):
                    i = s.itv_term(v.len)
                    itv = i if itv is None else ijoin(itv, i)
                out.syms[sid] = itv
                nv.len = ("s", sid, 0)
        if all(v.ref_to == vs[0].ref_to for v in vs[1:]):
            nv.ref_to = vs[0].ref_to
            nv.is_mut = vs[0].is_mut
        if all(v.discr_of == vs[0].discr_of for v in vs[1:]):
            nv.discr_of = vs[0].discr_of
        if all(v.rng == vs[0].rng for v in vs[1:]):
            nv.rng = vs[0].rng
        if nv.key() != TOPV.key():
            out.vals[k] = nv
    # syms: those present in all
    sk = set(states[0].syms)
    for s in states[1:]:
        sk &= set(s.syms)
    for sid in sk:
        if sid in out.syms:
            continue
        itv = states[0].syms[sid]
        for s in states[1:]:
            itv = ijoin(itv, s.syms[sid])
        out.syms[sid] = itv
    for sid in sk:
        hs = None
        for s in states:
            h = s.holes.get(sid, frozenset())
            hs = h if hs is None else (hs & h)
        if hs:
            out.holes[sid] = hs
    for k in keys:
        v = out.vals.get(k)
        if v is None or v.sym is None or not v.sym[0].startswith("phi:%d:" % bb) or v.sym[1] != 0:
            continue
        cands = set()
        terms = []
        for s in states:
            t_ = s.term(s.vals[k])
            terms.append(t_)
            if t_ is not None and t_[0] == "s":
                cands |= {h + t_[2] for h in s.holes.get(t_[1], ())}
        lo, hi = out.syms.get(v.sym[0], (-INF, INF))
        if lo != -INF and hi != INF and 1 < hi - lo <= 32:
            # a small hull (join of a few constants, `1 | 3 | 4`): every value inside it is a candidate
            cands |= set(range(lo + 1, hi))
        if cands and all(t_ is not None for t_ in terms):
            hs = frozenset(c for c in cands if all(s.excluded(t_, c) for s, t_ in zip(states, terms)))
            hs = frozenset(c for c in hs if lo <= c <= hi)
            if hs:
                out.holes[v.sym[0]] = hs
    dk = set(states[0].diffs)
    for s in states[1:]:
        dk &= set(s.diffs)
    for p in dk:
        out.diffs[p] = max(s.diffs[p] for s in states)
    # phi symbols: derive difference bounds that hold on every incoming edge against symbols common to all
    for k in keys:
        v = out.vals.get(k)
        if v is None or v.sym is None or not v.sym[0].startswith("phi:%d:" % bb):
            continue
        psid = v.sym[0]
        for other in sk:
            if other == psid:
                continue
            # psid - other <= d on all edges ?
            ds = []
            ds2 = []
            for s in states:
                t = s.term(s.vals[k])
                if t is None:
                    ds = None
                    break
                if t[0] == "c":
                    oi = s.itv_sym(other)
                    ds.append(t[1] - oi[0] if oi[0] != -INF else None)
                    ds2.append(oi[1] - t[1] if oi[1] != INF else None)
                else:
                    if t[1] == other:
                        ds.append(t[2])
                        ds2.append(-t[2])
                    else:
                        d = s.diffs.get((t[1], other))
                        if d is None and s.le(t, ("s", other, 0)):
                            ds.append(0)
                        else:
                            ds.append(d + t[2] if d is not None else None)
                        d2 = s.diffs.get((other, t[1]))
                        if d2 is None and s.le(("s", other, 0), t):
                            ds2.append(0)
                        else:
                            ds2.append(d2 - t[2] if d2 is not None else None)
            if ds and all(d is not None for d in ds):
                out.diffs[(psid, other)] = max(ds)
            if ds is not None and ds2 and all(d is not None for d in ds2):
                out.diffs[(other, psid)] = max(ds2)
    ek = set(states[0].exprs)
    for s in states[1:]:
        ek &= set(s.exprs)
    for sid in ek:
        if all(s.exprs[sid] == states[0].exprs[sid] for s in states[1:]):
            out.exprs[sid] = states[0].exprs[sid]
    smk = set(states[0].sums)
    for s in states[1:]:
        smk &= set(s.sums)
    for p in smk:
        it = states[0].sums[p]
        for s in states[1:]:
            it = ijoin(it, s.sums[p])
        out.sums[p] = it
    # relations between two phi symbols of this join (e.g. loop-carried `offset <= size` of struct fields)
    phis = [(k, out.vals[k].sym[0]) for k in keys if out.vals.get(k) is not None and out.vals[k].sym is not None and out.vals[k].sym[0].startswith("phi:%d:" % bb)]
    if 2 <= len(phis) <= 14:
        for (k1, p1) in phis:
            for (k2, p2) in phis:
                if k1 == k2:
                    continue
                best = []
                for s in states:
                    t1, t2 = s.term(s.vals[k1]), s.term(s.vals[k2])
                    if t1 is None or t2 is None:
                        best = None
                        break
                    d = None
                    if t1[0] == "c" and t2[0] == "c":
                        d = t1[1] - t2[1]
                    elif t1[0] == "s" and t2[0] == "s":
                        if t1[1] == t2[1]:
                            d = t1[2] - t2[2]
                        else:
                            e = s.diffs.get((t1[1], t2[1]))
                            if e is not None:
                                d = e + t1[2] - t2[2]
                    if d is None:
                        if s.le(t1, t2):
                            d = 0
                        else:
                            i1, i2 = s.itv_term(t1), s.itv_term(t2)
                            if i1[1] != INF and i2[0] != -INF:
                                d = i1[1] - i2[0]
                    if d is None:
                        best = None
                        break
                    best.append(d)
                if best:
                    out.diffs[(p1, p2)] = max(best)
    vk = set(states[0].variants)
    for s in states[1:]:
        vk &= set(s.variants)
    for k in vk:
        r = states[0].variants[k]
        for s in states[1:]:
            r = r | s.variants[k]
        out.variants[k] = r
    return out


def states_equal(a, b):
    if a is None or b is None:
        return a is b
    if a.vals != b.vals or a.variants != b.variants or a.diffs != b.diffs or a.sums != b.sums or a.exprs != b.exprs or a.holes != b.holes:
        return False
    used = set()
    for v in a.vals.values():
        if v.sym:
            used.add(v.sym[0])
        if v.len and v.len[0] == "s":
            used.add(v.len[1])
    for sid in used:
        if a.syms.get(sid) != b.syms.get(sid):
            return False
    return True


# ------------------------------------------------------------------------------------------------
INTERIOR_MUT = re.compile(r"Cell<|Atomic|Mutex<|RwLock<|OnceLock|LazyLock|OnceCell")


class Analyzer:
    """analysis of one body. entry: dict arg_index -> dict(len_min=, len_max=, itv=(lo,hi))"""

    def __init__(self, body, prog, entry=None, summaries=None, engine=None, invariants=None, depth=0):
        self.body = body
        self.prog = prog
        self.engine = engine
        self.invariants = invariants or {}
        self.depth = depth
        self.entry = entry or {}
        self.summaries = summaries
        self.cfg = body.cfg()
        self.in_states = {}
        self.edge_states = {}
        self.call_args = {}     # bb -> (state snapshot at the call) for inter-procedural preconditions
        self.loop_heads = set(self.cfg.loops().keys())
        self.iter_count = {}
        self.addr_taken = set()
        for i, si, s in body.assigns():
            rv = s["rv"]
            if rv["k"] in ("ref", "rawptr"):
                self.addr_taken.add(rv["place"]["l"])
        self.results = {}       # bb -> state before terminator
        self.threaded = set()   # statement-free switch blocks some incoming edge was threaded through

    # ---- keys ------------------------------------------------------------------------------------
    def pkey(self, st, place):
        """normalised key of a place under the current reference targets"""
        l = place["l"]
        cur = "_%d" % l
        for e in place["p"]:
            k = e["k"]
            if k == "deref":
                v = st.vals.get(cur)
                if v is not None and v.ref_to is not None:
                    cur = v.ref_to
                else:
                    cur = "(*%s)" % cur
            elif k == "field":
                cur = cur + "." + e["name"]
            elif k == "downcast":
                cur = "(%s as %s)" % (cur, e["variant"])
            elif k == "index":
                cur = cur + "[_]"
            elif k == "cindex":
                cur = cur + "[%s%d]" % ("-" if e["from_end"] else "", e["offset"])
            else:
                cur = cur + "<%s>" % k
        return cur

    def place_ty(self, place):
        ty = self.body.local_ty(place["l"])
        for e in place["p"]:
            if e["k"] == "field":
                ty = e["ty"]
            elif e["k"] == "deref":
                ty = re.sub(r"^&(mut )?('[a-z_]+ )?|^\*(const|mut) ", "", ty) if ty else None
            elif e["k"] in ("index", "cindex"):
                m = re.match(r"^\[(.*?)(; \d+)?\]$", ty or "")
                ty = m.group(1) if m else None
            elif e["k"] == "downcast":
                pass
            else:
                ty = None
        return ty

    # ---- operand evaluation ---------------------------------------------------------------------------
    def top_for(self, ty, sid):
        v = V(ty=ty)
        r = ty_range(ty) if ty else None
        if r is not None:
            v.sym = (sid, 0)
        m = re.match(r"^&?(mut )?\[.*; (\d+)\]$", ty or "")
        if m:
            v.len = ("c", int(m.group(2)))
        elif ty and re.match(r"^&('[a-z_]+ )?(mut )?(\[.*\]|str)$", ty):
            v.len = ("s", sid + "#len", 0)
        return v

    def ensure_sym(self, st, v, sid):
        """make sure syms of a fresh TOP value are registered"""
        if v.sym and v.sym[0] not in st.syms:
            r = ty_range(v.ty) if v.ty else None
            st.syms[v.sym[0]] = r if r else (-INF, INF)
            st.holes.pop(v.sym[0], None)
        if v.len and v.len[0] == "s" and v.len[1] not in st.syms:
            st.syms[v.len[1]] = (0, (1 << 63) - 1)
        return v

    def read_place(self, st, place, hint):
        key = self.pkey(st, place)
        v = st.vals.get(key)
        if v is not None:
            return v
        ty = self.place_ty(place)
        if ty is not None and INTERIOR_MUT.search(ty):
            return V(ty=ty)
        m = re.match(r"^const:(.+)\[_\]$", key)
        if m:
            # element of a literal const table: any index reads a value within the table's range
            rng = (getattr(self.prog, "const_ranges", None) or {}).get(m.group(1))
            sid = "tbl:%s" % hint
            nv = self.ensure_sym(st, self.top_for(ty, sid), sid)
            if rng is not None and nv.sym is not None:
                st.refine_sym(nv.sym[0], rng)
            return nv
        # untracked: a stable symbol per key is sound only for keys that are killed on writes; we register it
        sid = "m:%s" % key
        nv = self.ensure_sym(st, self.top_for(ty, sid), sid)
        m = re.match(r"^\[.*; (\d+)\]$", ty or "")
        if m:
            nv.len = ("c", int(m.group(1)))
        if nv.key() != TOPV.key():
            st.vals[key] = nv
        return nv

    def eval_op(self, st, o, hint):
        if o["k"] == "const":
            c = o["c"]
            ty = c["ty"]
            if "int" in c:
                return V(ty=ty, const=int(c["int"]))
            v = V(ty=ty)
            if c.get("def") and ty.startswith("&") and c["def"] in (getattr(self.prog, "const_ranges", None) or {}):
                v.ref_to = "const:" + c["def"]
            if c.get("def") and c["def"] in (getattr(self.prog, "const_lens", None) or {}):
                v.len = ("c", self.prog.const_lens[c["def"]])
            if c.get("def") and not ty.startswith("&") and c["def"] in (getattr(self.prog, "const_vals", None) or {}):
                v.tbl = c["def"]
            if c.get("promoted") and ty.startswith("&") and v.ref_to is None:
                # `&TABLE` promoted to a constant: the promoted body is `_1 = const TABLE; _0 = &_1`
                from .flow import _promoted_index, promoted_aggs
                rvs = promoted_aggs(self.body, _promoted_index(c))
                if len(rvs) == 1 and rvs[0]["k"] == "const" and rvs[0]["c"].get("def") in (getattr(self.prog, "const_ranges", None) or {}) \
                        and not (rvs[0]["c"].get("ty") or "").startswith("&"):
                    v.ref_to = "const:" + rvs[0]["c"]["def"]
                    if rvs[0]["c"]["def"] in (getattr(self.prog, "const_lens", None) or {}):
                        v.len = ("c", self.prog.const_lens[rvs[0]["c"]["def"]])
            if "bytes" in c:
                v.len = ("c", len(c["bytes"]))
            m = re.match(r"^&?(mut )?\[.*; (\d+)\]$", ty or "")
            if m:
                v.len = ("c", int(m.group(2)))
            return v
        if o["k"] in ("copy", "move"):
            return self.read_place(st, o["place"], hint)
        return V()

    # ---- statements ------------------------------------------------------------------------------------
    def write_place(self, st, place, v, whole_from=None):
        key = self.pkey(st, place)
        # a store through an unknown pointer may hit anything whose address was taken
        if key.startswith("(*") and not key.startswith("(*_"):
            pass
        if "(*" in key and self._unknown_deref(st, place):
            self.kill_aliased(st)
        st.kill_prefix(key)
        # aliases named after the old pointee of this place (or of a place below it) become unknown
        rx = re.compile(r"\(\*" + re.escape(key) + r"[).]")
        for k, ov in list(st.vals.items()):
            if ov.ref_to is not None and rx.search(ov.ref_to) and k != key:
                st.vals[k] = V(ty=ov.ty, const=ov.const, sym=ov.sym, len=ov.len, is_mut=ov.is_mut)
        # invalidate values that referred to this key's old content via ref_to? (refs stay valid: they name the place)
        if whole_from is not None:
            st.copy_prefix(whole_from, key)
        if v is not None and v.key() != TOPV.key():
            st.vals[key] = v
        # kill derived facts that mention this place (discr_of / cond referencing keys)
        for k, ov in list(st.vals.items()):
            if ov.discr_of is not None and (ov.discr_of == key or ov.discr_of.startswith(key + ".")) and k != key:
                nv = V(ty=ov.ty, const=ov.const, sym=ov.sym)
                st.vals[k] = nv

    def _unknown_deref(self, st, place):
        cur = "_%d" % place["l"]
        for e in place["p"]:
            if e["k"] == "deref":
                v = st.vals.get(cur)
                if v is None or v.ref_to is None:
                    # deref of an argument reference is a named region of its own: (*_1)
                    l = place["l"]
                    if cur == "_%d" % l and 0 < l <= self.body.arg_count:
                        return False
                    return True
                cur = v.ref_to
            elif e["k"] == "field":
                cur = cur + "." + e["name"]
            elif e["k"] == "downcast":
                cur = "(%s as %s)" % (cur, e["variant"])
            else:
                cur = cur + "[_]"
        return False

    def kill_aliased(self, st):
        for l in self.addr_taken:
            st.kill_prefix("_%d" % l)
        for k in [k for k in st.vals if k.startswith("(*")]:
            del st.vals[k]
        for k in [k for k in st.variants if k.startswith("(*")]:
            del st.variants[k]

    def do_assign(self, st, s, bb, si):
        place = s["place"]
        rv = s["rv"]
        k = rv["k"]
        sid = "d:%d:%d" % (bb, si)
        dty = self.place_ty(place)
        if k == "use":
            o = rv["a"]
            v = self.eval_op(st, o, sid)
            if o["k"] in ("copy", "move"):
                src = self.pkey(st, o["place"])
                if v.ref_to is None and v.const is None and v.sym is None and (dty or "").startswith("&") and not INTERIOR_MUT.search(dty or ""):
                    # copy of a reference with an unknown target: both locals now name the same region
                    v = V(ty=dty, ref_to="(*%s)" % src, len=v.len, is_mut=(dty or "").startswith("&mut"))
                    st.vals[src] = v
                self.write_place(st, place, v if v.key() != TOPV.key() else None, whole_from=src)
            else:
                self.write_place(st, place, v)
            return
        if k == "bin":
            a = self.eval_op(st, rv["a"], sid + "a")
            b = self.eval_op(st, rv["b"], sid + "b")
            op = rv["op"]
            with_ovf = op.endswith("WithOverflow")
            base = op[:-12] if with_ovf else op
            aty = a.ty or (rv["a"]["c"]["ty"] if rv["a"]["k"] == "const" else None)
            if base in ("Lt", "Le", "Gt", "Ge", "Eq", "Ne"):
                ta, tb = st.term(a), st.term(b)
                v = V(ty="bool")
                if ta is not None and b.negof is not None and b.negof[0] == "s" and ta[0] == "s":
                    # a OP -(t)   <=>   a + t OP 0
                    v.cond = ("S" + base, ta, b.negof)
                elif tb is not None and a.negof is not None and a.negof[0] == "s" and tb[0] == "s":
                    flip = {"Lt": "Gt", "Le": "Ge", "Gt": "Lt", "Ge": "Le", "Eq": "Eq", "Ne": "Ne"}[base]
                    v.cond = ("S" + flip, tb, a.negof)
                elif ta is not None and tb is not None:
                    v.cond = (base, ta, tb)
                    # decide if possible
                    r = self.decide(st, base, ta, tb)
                    if r is not None:
                        v.const = 1 if r else 0
                elif a.discr_of or b.discr_of:
                    pass
                self.write_place(st, place, v)
                return
            res = self.arith(st, base, a, b, aty, sid)
            if with_ovf:
                key = self.pkey(st, place)
                st.kill_prefix(key)
                if res is not None:
                    # unclipped mathematical result lives at .0 until the Assert proves it fits
                    st.vals[key + ".0"] = res
                st.vals[key + ".1"] = V(ty="bool")
                return
            if res is not None:
                # plain (release-style wrapping or Shl/Shr/BitAnd..) op: clip to type, wrap => TOP if it does not fit
                it = st.itv(res)
                if aty and not fits(it, dty or aty) and base in ("Add", "Sub", "Mul"):
                    res = self.ensure_sym(st, self.top_for(dty or aty, sid + "w"), sid)
                else:
                    res.ty = dty or aty
            self.write_place(st, place, res)
            return
        if k == "un":
            a = self.eval_op(st, rv["a"], sid)
            if rv["op"] == "PtrMetadata":
                v = V(ty="usize")
                if a.len is not None:
                    if a.len[0] == "c":
                        v.const = a.len[1]
                    else:
                        v.sym = (a.len[1], a.len[2])
                else:
                    v = self.ensure_sym(st, self.top_for("usize", sid), sid)
                    st.syms[sid] = (0, (1 << 63) - 1)
                self.write_place(st, place, v)
                return
            if rv["op"] == "Not" and (a.ty == "bool" or dty == "bool"):
                v = V(ty="bool")
                if a.const is not None:
                    v.const = 0 if a.const else 1
                if a.cond is not None:
                    neg = {"Lt": "Ge", "Le": "Gt", "Gt": "Le", "Ge": "Lt", "Eq": "Ne", "Ne": "Eq", "And": "Nand", "Nand": "And", "In": "NotIn", "NotIn": "In",
                           "SLt": "SGe", "SLe": "SGt", "SGt": "SLe", "SGe": "SLt", "SEq": "SNe", "SNe": "SEq"}
                    o0 = a.cond[0]
                    if o0.startswith("T:"):
                        v.cond = ("F:" + o0[2:], a.cond[1], a.cond[2])
                    elif o0.startswith("F:"):
                        v.cond = ("T:" + o0[2:], a.cond[1], a.cond[2])
                    else:
                        v.cond = (neg[o0], a.cond[1], a.cond[2])
                self.write_place(st, place, v)
                return
            if rv["op"] == "Neg":
                it = st.itv(a)
                v = self.ensure_sym(st, V(ty=dty, sym=(sid, 0), negof=st.term(a)), sid)
                st.syms[sid] = clip((-it[1], -it[0]), dty) if dty else (-it[1], -it[0])
                self.write_place(st, place, v)
                return
            self.write_place(st, place, self.ensure_sym(st, self.top_for(dty, sid), sid))
            return
        if k == "cast":
            a = self.eval_op(st, rv["a"], sid)
            ck = rv["ck"]
            if ck == "IntToInt":
                it = st.itv(a)
                if rv["from"] in ("bool", "char") or ty_range(rv["from"]) is not None:
                    if fits(it, rv["ty"]):
                        v = V(ty=rv["ty"], const=a.const, sym=a.sym, lazy=a.lazy)
                        if a.const is None and a.sym is None:
                            v = self.ensure_sym(st, self.top_for(rv["ty"], sid), sid)
                            st.syms[sid] = imeet(st.syms[sid], clip(it, rv["ty"]))
                        self.write_place(st, place, v)
                        return
                    # truncating / sign-changing: result is the low bits
                    tb = int_bits(rv["ty"])
                    v = self.ensure_sym(st, self.top_for(rv["ty"], sid), sid)
                    self.write_place(st, place, v)
                    return
            if ck.startswith("PointerCoercion") or ck in ("PtrToPtr", "Transmute"):
                v = V(ty=rv["ty"], ref_to=a.ref_to, len=a.len, is_mut=a.is_mut)
                m = re.match(r"^&?(mut )?\[.*; (\d+)\]$", rv["from"] or "")
                if m and v.len is None:
                    v.len = ("c", int(m.group(2)))
                self.write_place(st, place, v)
                return
            self.write_place(st, place, self.ensure_sym(st, self.top_for(rv["ty"], sid), sid))
            return
        if k in ("ref", "rawptr"):
            tgt = self.pkey(st, rv["place"])
            tv = st.vals.get(tgt)
            v = V(ty=dty, ref_to=tgt, is_mut=bool(rv.get("mut")))
            basev = None
            rp = rv["place"]
            if rp["p"] and rp["p"][-1]["k"] == "deref":
                # reborrow &(*x): same pointee, same length as x
                basev = self.read_place(st, {"l": rp["l"], "p": rp["p"][:-1]}, sid + "rb")
            if tv is not None and tv.len is not None:
                v.len = tv.len
            elif basev is not None and basev.len is not None:
                v.len = basev.len
            else:
                tty = self.place_ty(rv["place"])
                m = re.match(r"^\[.*; (\d+)\]$", tty or "")
                if m:
                    v.len = ("c", int(m.group(1)))
                elif tty and re.match(r"^(\[.*\]|str)$", tty):
                    # reborrow of an unsized place: length symbol attached to the place key
                    lsid = "m:%s#len" % tgt
                    if lsid not in st.syms:
                        st.syms[lsid] = (0, (1 << 63) - 1)
                    v.len = ("s", lsid, 0)
            self.write_place(st, place, v)
            return
        if k == "discr":
            key = self.pkey(st, rv["place"])
            v = V(ty=dty, discr_of=key)
            ev = self.prog.enum_variants(re.sub(r"<.*$", "", rv["of"]))
            if ev and all(d is not None for _, d in ev):
                st.syms[sid] = (min(d for _, d in ev), max(d for _, d in ev))
                v.sym = (sid, 0)
            self.write_place(st, place, v)
            return
        if k == "agg":
            key = self.pkey(st, place)
            st.kill_prefix(key)
            if rv["ak"] == "adt":
                if rv["is_enum"]:
                    st.variants[key] = frozenset([rv["variant"]])
                    for fn, f in zip(rv["fnames"], rv["fields"]):
                        fv = self.eval_op(st, f, sid + fn)
                        sub = "(%s as %s).%s" % (key, rv["variant"], fn)
                        if f["k"] in ("copy", "move"):
                            st.copy_prefix(self.pkey(st, f["place"]), sub)
                        if fv.key() != TOPV.key():
                            st.vals[sub] = fv
                else:
                    for fn, f in zip(rv["fnames"], rv["fields"]):
                        fv = self.eval_op(st, f, sid + fn)
                        sub = "%s.%s" % (key, fn)
                        if f["k"] in ("copy", "move"):
                            st.copy_prefix(self.pkey(st, f["place"]), sub)
                        if fv.key() != TOPV.key():
                            st.vals[sub] = fv
            elif rv["ak"] == "tuple":
                for i, f in enumerate(rv["fields"]):
                    fv = self.eval_op(st, f, sid + str(i))
                    sub = "%s.%d" % (key, i)
                    if f["k"] in ("copy", "move"):
                        st.copy_prefix(self.pkey(st, f["place"]), sub)
                    if fv.key() != TOPV.key():
                        st.vals[sub] = fv
            elif rv["ak"] == "array":
                st.vals[key] = V(ty=dty, len=("c", len(rv["fields"])))
            elif rv["ak"] == "closure":
                for i, f in enumerate(rv["fields"]):
                    fv = self.eval_op(st, f, sid + str(i))
                    if fv.key() != TOPV.key():
                        st.vals["%s.%d" % (key, i)] = fv
            return
        if k == "repeat":
            m = re.match(r"^\[.*; (\d+)\]$", dty or "")
            self.write_place(st, place, V(ty=dty, len=("c", int(m.group(1)))) if m else None)
            return
        self.write_place(st, place, self.ensure_sym(st, self.top_for(dty, sid), sid))

    def decide(self, st, op, ta, tb):
        if op in ("And", "Nand", "In", "NotIn") or op.startswith(("T:", "F:", "S")):
            return None
        if op == "Lt":
            if st.le(ta, tb, True):
                return True
            if st.le(tb, ta):
                return False
        elif op == "Le":
            if st.le(ta, tb):
                return True
            if st.le(tb, ta, True):
                return False
        elif op == "Gt":
            return self.decide(st, "Lt", tb, ta)
        elif op == "Ge":
            return self.decide(st, "Le", tb, ta)
        elif op == "Eq":
            ia, ib = st.itv_term(ta), st.itv_term(tb)
            if ia[0] == ia[1] == ib[0] == ib[1]:
                return True
            if ia[1] < ib[0] or ib[1] < ia[0]:
                return False
            if ta[0] == "s" and tb[0] == "s" and ta[1] == tb[1]:
                return ta[2] == tb[2]
        elif op == "Ne":
            r = self.decide(st, "Eq", ta, tb)
            return None if r is None else (not r)
        return None

    def arith(self, st, op, a, b, ty, sid):
        """mathematical (unbounded) result as a V with a fresh symbol; keeps base+c form when possible"""
        ia, ib = st.itv(a), st.itv(b)
        v = V(ty=ty)
        if op == "Add":
            if a.const is not None and b.const is not None:
                v.const = a.const + b.const
                return v
            if b.const is not None and a.sym is not None:
                v.sym = (a.sym[0], a.sym[1] + b.const)
                v.ty = None
                return v
            if a.const is not None and b.sym is not None:
                v.sym = (b.sym[0], b.sym[1] + a.const)
                v.ty = None
                return v
            it = iadd(ia, ib)
            if a.sym is not None and b.sym is not None:
                sb = st.sum_bound(a.sym[0], b.sym[0])
                off = a.sym[1] + b.sym[1]
                it = imeet(it, (sb[0] + off, sb[1] + off))
                v.sym = (sid, 0)
                v.ty = None
                st.syms[sid] = it
                st.exprs[sid] = ("add", ("s", a.sym[0], a.sym[1]), ("s", b.sym[0], b.sym[1]))
                # result - b <= hi(a) ; result - a <= hi(b); and lower bounds
                if ia[1] != INF:
                    st.diffs[(sid, b.sym[0])] = min(st.diffs.get((sid, b.sym[0]), INF), ia[1] + b.sym[1])
                if ib[1] != INF:
                    st.diffs[(sid, a.sym[0])] = min(st.diffs.get((sid, a.sym[0]), INF), ib[1] + a.sym[1])
                if ia[0] != -INF:
                    st.diffs[(b.sym[0], sid)] = min(st.diffs.get((b.sym[0], sid), INF), -ia[0] - b.sym[1])
                if ib[0] != -INF:
                    st.diffs[(a.sym[0], sid)] = min(st.diffs.get((a.sym[0], sid), INF), -ib[0] - a.sym[1])
                return v
        elif op == "Sub":
            if a.const is not None and b.const is not None:
                v.const = a.const - b.const
                return v
            if b.const is not None and a.sym is not None:
                v.sym = (a.sym[0], a.sym[1] - b.const)
                v.ty = None
                return v
            it = isub(ia, ib)
            # a - b with a >= b known relationally
            ta, tb = st.term(a), st.term(b)
            if ta is not None and tb is not None and st.le(tb, ta):
                it = imeet(it, (0, INF))
            # x - (x / y) * y  == x mod y
            if a.sym is not None and b.lazy is not None and b.lazy[0] == "divmul" and b.lazy[1] == a.sym:
                yi = st.itv_term(b.lazy[2])
                if yi[0] >= 1:
                    it = imeet(it, (0, yi[1] - 1))
                    if b.lazy[2][0] == "s":
                        st.diffs[(sid, b.lazy[2][1])] = min(st.diffs.get((sid, b.lazy[2][1]), INF), b.lazy[2][2] - 1)
            v.sym = (sid, 0)
            st.syms[sid] = it
            v.ty = None
            if ta is not None and tb is not None and tb[0] == "s":
                st.exprs[sid] = ("sub", ta, tb)
            # remember: result + b == a  (result <= a when b >= 0)
            if ta is not None and ta[0] == "s" and ib[0] >= 0:
                st.diffs[(sid, ta[1])] = min(st.diffs.get((sid, ta[1]), INF), ta[2] - ib[0])
            return v
        elif op == "Mul":
            if a.const is not None and b.const is not None:
                v.const = a.const * b.const
                return v
            it = imul(ia, ib)
            # x * c with c >= 1 and x >= 0 is at least x
            for p_, q_ in ((a, b), (b, a)):
                tp = st.term(p_)
                if q_.const is not None and q_.const >= 1 and tp is not None and tp[0] == "s" and st.itv_term(tp)[0] >= 0 and tp[1] != sid:
                    st.diffs[(tp[1], sid)] = min(st.diffs.get((tp[1], sid), INF), -tp[2])
            # (x / y) * y  -> in [0, x]
            for p, q in ((a, b), (b, a)):
                if p.lazy is not None and p.lazy[0] == "div" and st.term(q) == p.lazy[2]:
                    xi = st.itv_term(("s", p.lazy[1][0], p.lazy[1][1]))
                    if xi[0] >= 0:
                        it = imeet(it, (0, xi[1]))
                        v.lazy = ("divmul", p.lazy[1], p.lazy[2])
                        # result <= x
                        st.syms[sid] = it
                        st.diffs[(sid, p.lazy[1][0])] = p.lazy[1][1]
        elif op == "Div":
            if ib[0] <= 0 <= ib[1]:
                ib2 = (max(ib[0], 1), ib[1]) if ib[0] >= 0 else ib
                it = idiv(ia, ib2) if not (ib2[0] <= 0 <= ib2[1]) else (-INF, INF)
            else:
                it = idiv(ia, ib)
            if a.sym is not None and st.term(b) is not None:
                v.lazy = ("div", a.sym, st.term(b))
        elif op == "Rem":
            if ib[0] >= 1 and ia[0] >= 0:
                it = (0, min(ia[1], ib[1] - 1))
            elif ib[0] >= 1:
                it = (-(ib[1] - 1), ib[1] - 1)
            else:
                it = (-INF, INF)
        elif op == "BitAnd":
            if ia[0] >= 0 and ib[0] >= 0:
                it = (0, min(ia[1], ib[1]))
            elif ib[0] >= 0:
                it = (0, ib[1])
            elif ia[0] >= 0:
                it = (0, ia[1])
            else:
                it = (-INF, INF)
        elif op in ("BitOr", "BitXor"):
            if ia[0] >= 0 and ib[0] >= 0 and ia[1] != INF and ib[1] != INF:
                bits = max(int(ia[1]).bit_length(), int(ib[1]).bit_length())
                it = (0, (1 << bits) - 1)
            else:
                it = (-INF, INF)
        elif op == "Shl":
            if ia[0] >= 0 and ib[0] >= 0 and ib[1] != INF and ib[1] < 128 and ia[1] != INF:
                it = (ia[0] << int(ib[0]), ia[1] << int(ib[1]))
                if ty and not fits(it, ty):
                    it = ty_range(ty)      # bits shifted out are dropped (no overflow check on the value)
            else:
                it = (-INF, INF)
        elif op == "Shr":
            if ia[0] >= 0 and ib[0] >= 0 and ib[1] != INF:
                it = (0 if ia[0] == -INF else int(ia[0]) >> int(min(ib[1], 200)), ia[1] if ia[1] == INF else int(ia[1]) >> int(ib[0]))
            else:
                it = (-INF, INF)
        elif op == "Offset":
            return V(ty=ty)
        else:
            it = (-INF, INF)
        v.sym = (sid, 0)
        st.syms[sid] = it
        if op in ("Add", "Sub", "Mul"):
            v.ty = None    # unclipped
        return v

    # ---- edges ------------------------------------------------------------------------------------------
    def _sum_diff_conj(self, st, *conds):
        """after a conjunction was assumed: a bound on x + y together with a bound on x - y bounds each of them
        (`-size <= i && i < size` gives 2*size >= 1, i.e. the range is non-empty only for size >= 1)"""
        def half_up(n):      # ceil(n / 2)
            return -((-n) // 2)
        for c in conds:
            if not (isinstance(c, tuple) and len(c) == 3 and isinstance(c[0], str) and c[0].startswith("S") and c[0][1:] in ("Lt", "Le", "Gt", "Ge", "Eq")):
                continue
            x, y = c[1][1], c[2][1]
            if x == y or st.dead:
                continue
            lo, hi = st.sum_bound(x, y)
            for p, q in ((x, y), (y, x)):
                d = st.diffs.get((p, q))          # p - q <= d
                if d is None:
                    continue
                if lo != -INF:                    # p + q >= lo  =>  2q >= lo - d
                    st.assume_le(("c", half_up(lo - d)), ("s", q, 0))
                if hi != INF:                     # p + q <= hi  =>  2p <= hi + d
                    st.assume_le(("s", p, 0), ("c", (hi + d) // 2))

    def refine_cond(self, st, cond, truth):
        op, a, b = cond
        if op == "And":      # a, b are conditions
            if truth:
                self.refine_cond(st, a, True)
                self.refine_cond(st, b, True)
                self._sum_diff_conj(st, a, b)
            return
        if op == "Nand":
            if not truth:
                self.refine_cond(st, a, True)
                self.refine_cond(st, b, True)
                self._sum_diff_conj(st, a, b)
            return
        if op.startswith("S") and op[1:] in ("Lt", "Le", "Gt", "Ge", "Eq", "Ne"):
            o2 = op[1:]
            if not truth:
                o2 = {"Lt": "Ge", "Le": "Gt", "Gt": "Le", "Ge": "Lt", "Eq": "Ne", "Ne": "Eq"}[o2]
            off = a[2] + b[2]       # (symA + symB) + off  o2  0
            if o2 == "Lt":
                st.refine_sum(a[1], b[1], (-INF, -1 - off))
            elif o2 == "Le":
                st.refine_sum(a[1], b[1], (-INF, -off))
            elif o2 == "Gt":
                st.refine_sum(a[1], b[1], (1 - off, INF))
            elif o2 == "Ge":
                st.refine_sum(a[1], b[1], (-off, INF))
            elif o2 == "Eq":
                st.refine_sum(a[1], b[1], (-off, -off))
            return
        if op in ("In", "NotIn"):    # membership of term a in the finite integer set b
            if (op == "In") == bool(truth):
                vals = sorted(b)
                st.assume_le(("c", vals[0]), a)
                st.assume_le(a, ("c", vals[-1]))
                if vals[-1] - vals[0] <= 64:
                    for n in range(vals[0] + 1, vals[-1]):
                        if n not in b:
                            st.assume_ne(a, ("c", n))
            else:
                for n in sorted(b):
                    st.assume_ne(a, ("c", n))
                for n in sorted(b, reverse=True):
                    st.assume_ne(a, ("c", n))
            return
        if op.startswith("T:"):      # holds only when the bool is true
            if truth:
                self.refine_cond(st, (op[2:], a, b), True)
            return
        if op.startswith("F:"):      # holds only when the bool is false
            if not truth:
                self.refine_cond(st, (op[2:], a, b), True)
            return
        if not truth:
            op = {"Lt": "Ge", "Le": "Gt", "Gt": "Le", "Ge": "Lt", "Eq": "Ne", "Ne": "Eq"}[op]
        if op == "Lt":
            st.assume_le(a, b, True)
        elif op == "Le":
            st.assume_le(a, b)
        elif op == "Gt":
            st.assume_le(b, a, True)
        elif op == "Ge":
            st.assume_le(b, a)
        elif op == "Eq":
            st.assume_eq(a, b)
        elif op == "Ne":
            st.assume_ne(a, b)

    def switch_edges(self, st, t, bb):
        """yields (target, refined state)"""
        d = t["d"]
        v = self.eval_op(st, d, "sw:%d" % bb)
        out = []
        vals = [int(x) for x in t["vals"]]
        targets = list(zip(vals, t["targets"]))
        adt_variants = None
        if v.discr_of is not None:
            adt_variants = self._variants_of(t, d, st, v)
        for val, tgt in targets:
            s2 = st.copy()
            if v.const is not None:
                if v.const != val:
                    continue
            if v.cond is not None and t["dty"] == "bool":
                self.refine_cond(s2, v.cond, val != 0)
            elif v.discr_of is not None and adt_variants is not None:
                nm = adt_variants.get(val)
                cur = s2.variants.get(v.discr_of)
                if nm is not None:
                    if cur is not None and nm not in cur:
                        continue
                    s2.variants[v.discr_of] = frozenset([nm])
            else:
                tv = s2.term(v)
                if tv is not None:
                    if s2.excluded(tv, val):
                        continue
                    s2.assume_eq(tv, ("c", val))
            if not s2.dead:
                out.append((tgt, s2))
        # otherwise
        s2 = st.copy()
        skip = False
        if v.const is not None and v.const in vals:
            skip = True
        if not skip:
            if v.cond is not None and t["dty"] == "bool" and vals == [0]:
                self.refine_cond(s2, v.cond, True)
            elif v.discr_of is not None and adt_variants is not None:
                cur = s2.variants.get(v.discr_of)
                rest = frozenset(n for dv, n in adt_variants.items() if dv not in vals)
                if cur is not None:
                    rest = rest & cur
                if not rest:
                    skip = True
                else:
                    s2.variants[v.discr_of] = rest
            else:
                tv = s2.term(v)
                if tv is not None:
                    for val in vals:
                        s2.assume_ne(tv, ("c", val))
                    # contiguous exclusions at the ends are handled by assume_ne repeatedly
                    for val in sorted(vals):
                        s2.assume_ne(tv, ("c", val))
                    for val in sorted(vals, reverse=True):
                        s2.assume_ne(tv, ("c", val))
            if not skip and not s2.dead:
                out.append((t["otherwise"], s2))
        return out

    def _variants_of(self, t, d, st, v):
        """discriminant value -> variant name for the enum whose discriminant is switched on"""
        l = op_local(d)
        if l is None:
            return None
        of = None
        for dd in self.body.defs_of(l):
            if dd[1] != "term" and dd[2]["k"] == "discr":
                of = dd[2]["of"]
        if of is None:
            return None
        base = re.sub(r"<.*$", "", of)
        STD = {
            "std::option::Option": {0: "None", 1: "Some"},
            "std::result::Result": {0: "Ok", 1: "Err"},
            "std::ops::ControlFlow": {0: "Continue", 1: "Break"},
            "either::Either": {0: "Left", 1: "Right"},
            "std::cmp::Ordering": {-1: "Less", 0: "Equal", 1: "Greater"},
        }
        if base in STD:
            return STD[base]
        ev = self.prog.enum_variants(base)
        if ev:
            return {dv: n for n, dv in ev if dv is not None}
        return None

    # ---- main loop ----------------------------------------------------------------------------------------
    def entry_state(self):
        st = State()
        b = self.body
        for i in range(1, b.arg_count + 1):
            ty = b.local_ty(i)
            sid = "a%d" % i
            v = self.ensure_sym(st, self.top_for(ty, sid), sid)
            ef = self.entry.get(i, {})
            if v.len is not None and v.len[0] == "s":
                lo = ef.get("len_min", 0)
                hi = ef.get("len_max", (1 << 63) - 1)
                st.syms[v.len[1]] = (lo, hi)
            if "itv" in ef and v.sym:
                st.syms[v.sym[0]] = imeet(st.syms[v.sym[0]], ef["itv"])
            if v.key() != TOPV.key():
                st.vals["_%d" % i] = v
        for sub, itv in (self.entry.get("fields") or {}).items():
            fsid = "f:%s" % sub
            st.syms[fsid] = itv
            st.vals[sub] = V(sym=(fsid, 0))
        for (ka, kb, d) in (self.entry.get("field_diffs") or []):
            st.diffs[("f:%s" % ka, "f:%s" % kb)] = d
        for (ka, kb, lo, hi) in (self.entry.get("field_sums") or []):
            if "f:%s" % ka in st.syms and "f:%s" % kb in st.syms:
                st.refine_sum("f:%s" % ka, "f:%s" % kb, (lo, hi))
        return st

    def run(self, max_iter=60):
        body = self.body
        n = len(body.blocks)
        self.in_states = {0: self.entry_state()}
        edge_out = {}    # (src, dst) -> state
        work = [0]
        order = {b: i for i, b in enumerate(self._rpo())}
        visits = {}
        while work:
            work.sort(key=lambda b: order.get(b, 1 << 30))
            bb = work.pop(0)
            st_in = self.in_states.get(bb)
            if st_in is None:
                continue
            visits[bb] = visits.get(bb, 0) + 1
            if visits[bb] > max_iter:
                raise RuntimeError("absint: no fixpoint in %s bb%d" % (body.path, bb))
            st = st_in.copy()
            blk = body.blocks[bb]
            for si, s in enumerate(blk["stmts"]):
                if s["k"] == "assign":
                    self.do_assign(st, s, bb, si)
                elif s["k"] == "setdiscr":
                    st.kill_prefix(self.pkey(st, s["place"]))
                elif s["k"] == "dead":
                    pass
                elif s["k"] == "intrinsic":
                    pass
            self.results[bb] = st
            t = blk["term"]
            outs = self.transfer_term(st, t, bb)
            produced = set()
            for oi, (tgt, s2) in enumerate(outs):
                if body.blocks[tgt]["cleanup"]:
                    continue
                # jump threading: a statement-free block that only switches on a local whose value is a constant in this
                # incoming state is passed through per edge (keeps `matches!` / `&&` / `||` diamonds path-sensitive)
                via = ()
                while len(via) < 4 and tgt not in self.loop_heads:
                    tb = body.blocks[tgt]
                    tt = tb["term"]
                    if tt["k"] != "switch" or tt["d"]["k"] not in ("copy", "move") or tt["d"]["place"]["p"] or tb["cleanup"]:
                        break
                    if any(x["k"] == "assign" for x in tb["stmts"]):
                        break
                    dv = s2.vals.get("_%d" % tt["d"]["place"]["l"])
                    if dv is None or dv.const is None:
                        break
                    nxt = self.switch_edges(s2, tt, tgt)
                    if len(nxt) != 1 or body.blocks[nxt[0][0]]["cleanup"]:
                        break
                    self.threaded.add(tgt)
                    via = via + (tgt,)
                    tgt, s2 = nxt[0]
                key = (bb, tgt, via, oi)      # several values of one switch may share a target (`1 | 3 | 4 =>`): each edge keeps its own state
                produced.add(key)
                edge_out[key] = s2
                new_in = join_states([es for ek, es in edge_out.items() if ek[1] == tgt], tgt, body)
                if new_in is None:
                    continue
                if tgt in self.loop_heads and visits.get(tgt, 0) >= 2:
                    new_in = self.widen(self.in_states.get(tgt), new_in, tgt)
                if not states_equal(self.in_states.get(tgt), new_in):
                    self.in_states[tgt] = new_in
                    if tgt not in work:
                        work.append(tgt)
            # edges not produced (infeasible) are dropped
            for ek in [ek for ek in edge_out if ek[0] == bb and ek not in produced]:
                del edge_out[ek]
        return self

    def _rpo(self):
        seen = set()
        out = []
        stack = [(0, iter(self.cfg.succ[0]))]
        seen.add(0)
        while stack:
            x, it = stack[-1]
            adv = False
            for y in it:
                if y not in seen:
                    seen.add(y)
                    stack.append((y, iter(self.cfg.succ[y])))
                    adv = True
                    break
            if not adv:
                out.append(x)
                stack.pop()
        return out[::-1]

    def widen(self, old, new, bb):
        if old is None:
            return new
        for sid, itv in list(new.syms.items()):
            if not sid.startswith("phi:%d:" % bb):
                continue
            o = old.syms.get(sid)
            if o is None:
                continue
            lo, hi = itv
            if lo < o[0]:
                lo = -INF
            if hi > o[1]:
                hi = INF
            new.syms[sid] = (lo, hi)
        # difference bounds that are not stable are dropped
        for p, d in list(new.diffs.items()):
            od = old.diffs.get(p)
            if od is not None and d > od:
                if p[0].startswith("phi:%d:" % bb) or p[1].startswith("phi:%d:" % bb):
                    del new.diffs[p]
        return new

    def divisor_of(self, t):
        """operand compared with 0 by the condition of a DivisionByZero/RemainderByZero assert"""
        l = op_local(t["cond"])
        if l is None:
            return None
        ds = self.body.defs_of(l)
        if len(ds) == 1 and ds[0][1] != "term" and ds[0][2]["k"] == "bin" and ds[0][2]["op"] == "Eq":
            rv = ds[0][2]
            if rv["b"]["k"] == "const" and rv["b"]["c"].get("int") == "0":
                return rv["a"]
            if rv["a"]["k"] == "const" and rv["a"]["c"].get("int") == "0":
                return rv["b"]
        return None

    # ---- terminators --------------------------------------------------------------------------------------------
    def transfer_term(self, st, t, bb):
        k = t["k"]
        if k == "goto":
            return [(t["t"], st)]
        if k == "switch":
            return self.switch_edges(st, t, bb)
        if k == "assert":
            s2 = st.copy()
            m = t["msg"]
            if m["kind"] in ("Overflow", "OverflowNeg"):
                # after the assert the (unclipped) result fits its type: find the tuple .0 that feeds it
                c = t["cond"]
                if c["k"] in ("copy", "move") and c["place"]["p"] and c["place"]["p"][-1]["k"] == "field":
                    base = {"l": c["place"]["l"], "p": c["place"]["p"][:-1]}
                    key0 = self.pkey(s2, base) + ".0"
                    v = s2.vals.get(key0)
                    ty = None
                    lt = self.body.local_ty(c["place"]["l"])
                    mm = re.match(r"^\((.*), bool\)$", lt or "")
                    if mm:
                        ty = mm.group(1)
                    if v is not None and ty:
                        r = ty_range(ty)
                        tv = s2.term(v)
                        if tv is not None and r is not None:
                            s2.assume_le(("c", r[0]), tv)
                            s2.assume_le(tv, ("c", r[1]))
                        nv = V(ty=ty, const=v.const, sym=v.sym, lazy=v.lazy)
                        s2.vals[key0] = nv
            elif m["kind"] == "BoundsCheck":
                ti = s2.term(self.eval_op(s2, m["index"], "bi:%d" % bb))
                tl = s2.term(self.eval_op(s2, m["len"], "bl:%d" % bb))
                if ti is not None and tl is not None:
                    s2.assume_le(ti, tl, True)
            elif m["kind"] in ("DivisionByZero", "RemainderByZero"):
                # NOTE: the assert message carries the dividend; the divisor is the operand compared with 0 in the condition
                dv = self.divisor_of(t)
                if dv is not None:
                    ta = s2.term(self.eval_op(s2, dv, "dz:%d" % bb))
                    if ta is not None:
                        s2.assume_ne(ta, ("c", 0))
            if s2.dead:
                return []
            return [(t["t"], s2)]
        if k == "call":
            self.call_args[bb] = st
            s2 = st.copy()
            self.do_call(s2, t, bb)
            if t["t"] < 0 or s2.dead:
                return []
            return [(t["t"], s2)]
        if k == "drop":
            s2 = st.copy()
            return [(t["t"], s2)]
        return []

    def inject_invariant(self, st, key, inv):
        for f, itv in inv.get("fields", {}).items():
            fsid = "inv:%s.%s" % (key, f)
            # a fresh symbol per (place, field) is sound: the callee re-established the invariant
            n = 0
            while "%s#%d" % (fsid, n) in st.syms:
                n += 1
            fsid = "%s#%d" % (fsid, n)
            st.syms[fsid] = itv
            st.vals["%s.%s" % (key, f)] = V(sym=(fsid, 0))
        for (fa, fb, d) in inv.get("diffs", []):
            va, vb = st.vals.get("%s.%s" % (key, fa)), st.vals.get("%s.%s" % (key, fb))
            if va is not None and vb is not None and va.sym and vb.sym:
                st.diffs[(va.sym[0], vb.sym[0])] = d + vb.sym[1] - va.sym[1]

    def reassume_invariant(self, st, t, args):
        if not self.invariants or not args:
            return
        f = t["fn"]
        callee = self.prog.body(f.get("resolved") or f.get("path") or "")
        if callee is None or not callee.impl_self:
            return
        base = re.sub(r"<.*$", "", callee.impl_self)
        inv = self.invariants.get(base)
        if inv is None:
            return
        a0 = args[0]
        if a0.ref_to is not None and a0.is_mut:
            self.inject_invariant(st, a0.ref_to, inv)

    def local_callee_result(self, st, t, args, dty, sid):
        """abstract result of a crate-local callee analysed with the actual arguments' abstractions (context-sensitive, depth <= 2)"""
        f = t["fn"]
        if not f.get("resolved_local") or f.get("resolved") is None:
            return None
        callee = self.prog.body(f["resolved"])
        if callee is None or callee.path == self.body.path or len(callee.blocks) > 120:
            return None
        entry = {}
        fields = {}
        fdiffs = []
        for i, (a, o) in enumerate(zip(args, t["args"])):
            e = {}
            it = st.itv(a)
            if a.const is not None or a.sym is not None:
                e["itv"] = it
            if a.len is not None:
                li = st.itv_term(a.len)
                e["len_min"], e["len_max"] = max(0, li[0]), li[1]
            if e:
                entry[i + 1] = e
            if a.ref_to is not None:
                pre = a.ref_to + "."
                sub = {}
                for k, v in st.vals.items():
                    if k.startswith(pre) and "." not in k[len(pre):] and (v.const is not None or v.sym is not None):
                        sub[k[len(pre):]] = v
                for fn_, v in sub.items():
                    fields["(*_%d).%s" % (i + 1, fn_)] = st.itv(v)
                names = list(sub)
                for x in names:
                    for y in names:
                        if x != y:
                            tx, ty_ = st.term(sub[x]), st.term(sub[y])
                            if tx and ty_ and st.le(tx, ty_):
                                fdiffs.append(("(*_%d).%s" % (i + 1, x), "(*_%d).%s" % (i + 1, y), 0))
        if fields:
            entry["fields"] = fields
        if fdiffs:
            entry["field_diffs"] = fdiffs
        try:
            can = self.engine.analyze(callee.path, entry, depth=self.depth + 1, invariants=self.invariants)
        except Exception:
            return None
        rets = [r for r in can.cfg.returns if r in can.results]
        if not rets:
            return None
        rty = callee.local_ty(0)
        itv = None
        leni = None
        lensym = None
        for r in rets:
            rs = can.results[r]
            rv = rs.vals.get("_0")
            if rv is None:
                return None
            if rv.const is not None or rv.sym is not None:
                i2 = rs.itv(rv)
                itv = i2 if itv is None else ijoin(itv, i2)
            if rv.len is not None:
                l2 = rs.itv_term(rv.len)
                leni = l2 if leni is None else ijoin(leni, l2)
                ex = rs.exprs.get(rv.len[1]) if rv.len[0] == "s" and rv.len[2] == 0 else None
                ls = None
                if ex and ex[0] == "sub" and all(tt[0] == "s" and tt[1].startswith("f:(*_") and tt[2] == 0 for tt in ex[1:]):
                    ls = (ex[1][1], ex[2][1])
                lensym = ls if (lensym is None or lensym == ls) and len(rets) == 1 else False
        out = V(ty=dty)
        if itv is not None and ty_range(dty or ""):
            st.syms[sid] = clip(itv, dty)
            out.sym = (sid, 0)
        if leni is not None:
            lsid = sid + "#len"
            st.syms[lsid] = (max(0, leni[0]), leni[1])
            out.len = ("s", lsid, 0)
            if lensym:
                # len == (*_i).A - (*_j).B of the callee: map back to the caller's places
                def back(fsid):
                    m = re.match(r"^f:\(\*_(\d+)\)\.(\w+)$", fsid)
                    if not m:
                        return None
                    a = args[int(m.group(1)) - 1]
                    if a.ref_to is None:
                        return None
                    return st.term(st.vals.get("%s.%s" % (a.ref_to, m.group(2))))
                ta, tb = back(lensym[0]), back(lensym[1])
                if ta is not None and tb is not None and ta[0] == "s" and tb[0] == "s":
                    st.exprs[lsid] = ("sub", ta, tb)
                    st.diffs[(lsid, ta[1])] = min(st.diffs.get((lsid, ta[1]), INF), ta[2] - st.itv_term(tb)[0])
        return out if out.key() != TOPV.key() else None

    # ---- calls --------------------------------------------------------------------------------------------------------
    def do_call(self, st, t, bb):
        from . import summaries
        dest = t["dest"]
        dkey = self.pkey(st, dest)
        dty = self.place_ty(dest)
        sid = "call:%d" % bb
        args = [self.eval_op(st, a, sid + "a%d" % i) for i, a in enumerate(t["args"])]
        res = summaries.apply(self, st, t, args, dkey, dty, sid)
        if res is summaries.HANDLED:
            return
        # unknown callee: kill what it may write
        for a, o in zip(args, t["args"]):
            aty = a.ty or ""
            if a.ref_to is not None and a.is_mut:
                st.kill_prefix(a.ref_to)
            elif o["k"] in ("copy", "move"):
                ty = self.place_ty(o["place"]) or ""
                if ty.startswith("&mut") or ty.startswith("*mut"):
                    if a.ref_to is not None:
                        st.kill_prefix(a.ref_to)
                    else:
                        self.kill_aliased(st)
                        # (*_arg) regions of &mut arguments
                        key = self.pkey(st, o["place"])
                        st.kill_prefix("(*%s)" % key)
        st.kill_prefix(dkey)
        v = self.ensure_sym(st, self.top_for(dty, sid), sid)
        if res is not None:
            v = res
        elif self.engine is not None and self.depth < 2:
            lv = self.local_callee_result(st, t, args, dty, sid)
            if lv is not None:
                v = lv
        if v.key() != TOPV.key():
            st.vals[dkey] = v
        self.reassume_invariant(st, t, args)
