"""C11 — kitty graphics output of image.rs `KittyImageHandler::{draw, erase, handle}` (DESIGN.md §5 C11).

(a) command templates vs refs/kitty_graphics.json, (b) chunk constant and continuation flag, (c) draw/erase id pairing and the
placement-id function with its inverse, (d) transmit-once protocol around the image cache, (e) payload = row-major RGBA.
Numeric POST conditions on the id ranges are NOT here (see `obligations`); only their structural necessary conditions."""
import json
import os
import re

from .. import templates as T
from ..mir import call_matches, callee_name, op_local, op_const_int
from ..flow import arg_place, ok_return_blocks, expr
from ..src import walk

CLAIM = {
    "text": "Structural clauses of the kitty graphics output of KittyImageHandler::{draw,erase,handle}: every written byte lies in a complete APC "
            "graphics command on every path; each of the five command shapes has exactly the reference keys, literal values (a=t f=32, a=p C=1, "
            "a=d d=i) and argument sources (v<-height, s<-width, i<-image id fn of the image, p<-placement id fn of the position, m<-index+1<count, "
            "payload<-chunk); chunk constant is a multiple of 4 and <= 4096; draw, erase and the cache key use the same id functions on the same "
            "arguments, the placement id is mixed radix with radix = low modulus, its inverse uses the same constants/offset, the largest id "
            "fits 2^32-1, ids are visibly non-zero; transmit commands only on the Entry::Vacant branch which must pass VacantEntry::insert on "
            "every Ok path (MIR), put ends every non-silent Ok path, no put without a transmit for empty images, handle removes the id before "
            "re-drawing (MIR dominance); the pixel loop is the image's row-major iterator writing to_rgba() ([u8;4]) into the base64 encoder "
            "whose finish() is what is chunked, f=32. Not decided: base64 correctness (C14), numeric id ranges/injectivity for all inputs "
            "(hook `obligations`), hash collisions, terminal behaviour.",
    "technique": "output-template extraction and APC command parsing on templates, reference key table, MIR expression trees of the id "
                 "functions, MIR must-pass/dominance rules, call graph who-calls",
    "design_ref": "DESIGN.md §5 C11; §4 output templates, reference tables",
}

REFS = os.path.join(os.path.dirname(os.path.dirname(os.path.abspath(__file__))), "refs", "kitty_graphics.json")
HANDLER = "KittyImageHandler"
DRAW = "<image::KittyImageHandler as image::ImageHandler>::draw"
ERASE = "<image::KittyImageHandler as image::ImageHandler>::erase"
HANDLE = "<image::KittyImageHandler as image::ImageHandler>::handle"


# ------------------------------------------------------------------------------------------------
# APC command parsing on evaluated atoms
# ------------------------------------------------------------------------------------------------
class Cmd:
    def __init__(self, seq):
        self.seq = seq
        self.keys = {}        # key -> bytes literal (str) | Hole
        self.order = []
        self.payload = None   # None | list of parts
        self.error = None
        self.kind = None

    def text(self):
        return "ESC_" + self.seq.content_text() + "ESC\\"


def parse_apc(seq):
    c = Cmd(seq)
    parts = list(seq.parts)
    if not parts or parts[0] != b"G":
        c.error = "not-a-graphics-command"
        return c
    i = 1
    key = ""
    state = "key"
    val = None
    while i < len(parts):
        p = parts[i]
        i += 1
        if isinstance(p, bytes):
            ch = p.decode("latin-1")
            if state == "key":
                if ch == "=":
                    if not key:
                        c.error = "empty-key"
                        return c
                    state = "val"
                    val = ""
                elif ch == ";" and not key and c.order:
                    c.payload = parts[i:]
                    break
                elif ch in ",;":
                    c.error = "key-without-value"
                    return c
                else:
                    key += ch
            else:
                if ch in ",;":
                    if val == "":
                        c.error = "empty-value"
                        return c
                    if key in c.keys:
                        c.error = "duplicate-key-" + key
                        return c
                    c.keys[key] = val
                    c.order.append(key)
                    key, val, state = "", None, "key"
                    if ch == ";":
                        c.payload = parts[i:]
                        break
                else:
                    if not isinstance(val, str):
                        c.error = "literal-after-hole-in-value"
                        return c
                    val += ch
        else:
            if state != "val" or val != "" or not isinstance(p, T.Hole):
                c.error = "hole-outside-a-value"
                return c
            val = p
    if state == "val" and val not in ("", None):
        if key in c.keys:
            c.error = "duplicate-key-" + key
            return c
        c.keys[key] = val
        c.order.append(key)
    elif state == "val" or key:
        c.error = "truncated-control-data"
        return c
    a = c.keys.get("a")
    if a == "t" or a == "T":
        c.kind = "transmit-first"
    elif a is None and "m" in c.keys:
        c.kind = "transmit-cont"
    elif a == "p":
        c.kind = "put"
    elif a == "d":
        c.kind = "delete-placement" if "p" in c.keys else "delete-image"
    else:
        c.kind = "unknown"
    return c


def commands_of(t, context, out, problems):
    """evaluate template t on every valuation; collect (context, valuation, [Cmd|Star]) and framing problems"""
    for val in T.valuations([t]):
        try:
            atoms = T.evaluate(t, val)
        except T.Undefined:
            continue
        stars = []

        def nested(a):
            stars.append(a)
        try:
            seqs = T.split_sequences(atoms, nested_ground=nested)
        except T.Malformed as e:
            problems.append((context, val, e.reason, "%s: %s" % (T.seq_text(atoms), e)))
            continue
        row = []
        for s in seqs:
            if s.kind == "APC":
                row.append(parse_apc(s))
            elif s.kind == "TEXT":
                for p in s.parts:
                    if isinstance(p, (T.Star, T.Join)):
                        row.append(p)
                    else:
                        problems.append((context, val, "bytes-outside-APC", "writes %s outside a graphics command" % (p if isinstance(p, bytes) else p.text())))
            else:
                problems.append((context, val, "non-APC-sequence", "emits a %s sequence" % s.kind))
        out.append((context, val, row, atoms))
        for st in stars:
            if isinstance(st, T.Star):
                commands_of(st.body, "loop:" + st.iter_text, out, problems)
            else:
                problems.append((context, val, "unsupported-loop", st.text()))


# ------------------------------------------------------------------------------------------------
# straight-line MIR expression trees (id functions)
# ------------------------------------------------------------------------------------------------
def mir_tree(body, operand, depth=0):
    if depth > 40:
        return ("?",)
    if operand["k"] == "const":
        v = op_const_int(operand)
        return ("const", v) if v is not None else ("?",)
    p = operand["place"]
    l = p["l"]
    proj = [e for e in p["p"]]
    if 0 < l <= body.arg_count:
        t = ("arg", l)
        for e in proj:
            if e["k"] == "field":
                t = ("field", t, e["name"])
            elif e["k"] != "deref":
                return ("?",)
        return t
    ds = body.defs_of(l)
    if len(ds) != 1:
        return ("?",)
    bb, si, rv = ds[0]
    if si == "term":
        return ("call", callee_name(rv), tuple(mir_tree(body, a, depth + 1) for a in rv["args"]))
    k = rv["k"]
    if proj:
        # (_11.0) of a checked arithmetic pair
        if k == "bin" and rv["op"].endswith("WithOverflow") and len(proj) == 1 and proj[0]["k"] == "field" and proj[0]["name"] in ("0",):
            return (rv["op"][:-len("WithOverflow")].lower(), mir_tree(body, rv["a"], depth + 1), mir_tree(body, rv["b"], depth + 1))
        return ("?",)
    if k == "use":
        return mir_tree(body, rv["a"], depth + 1)
    if k == "cast":
        return mir_tree(body, rv["a"], depth + 1)      # integer widening/narrowing is transparent for the shape
    if k == "ref":
        return mir_tree(body, {"k": "copy", "place": rv["place"]}, depth + 1)
    if k == "bin":
        return (rv["op"].lower(), mir_tree(body, rv["a"], depth + 1), mir_tree(body, rv["b"], depth + 1))
    if k == "agg" and rv["ak"] == "adt":
        return ("adt", rv["adt"], tuple(zip(rv.get("fnames") or [], [mir_tree(body, f, depth + 1) for f in rv["fields"]])))
    return ("?",)


def tree_text(t):
    k = t[0]
    if k == "const":
        return str(t[1])
    if k == "arg":
        return "arg%d" % t[1]
    if k == "field":
        return "%s.%s" % (tree_text(t[1]), t[2])
    if k == "call":
        return "%s(%s)" % (t[1].split("::")[-1], ", ".join(tree_text(a) for a in t[2]))
    if k == "adt":
        return "%s{%s}" % (t[1].split("::")[-1], ", ".join("%s: %s" % (n, tree_text(x)) for n, x in t[2]))
    if k == "?":
        return "?"
    return "(%s %s %s)" % (tree_text(t[1]), {"add": "+", "sub": "-", "mul": "*", "div": "/", "rem": "%", "bitor": "|"}.get(k, k), tree_text(t[2]))


def return_tree(body):
    return mir_tree(body, {"k": "copy", "place": {"l": 0, "p": []}})


def visibly_nonzero(t):
    """structural: the unsigned value cannot be 0 because of an added positive constant / max(c) / |c"""
    k = t[0]
    if k == "const":
        return t[1] is not None and t[1] > 0
    if k == "add":
        return visibly_nonzero(t[1]) or visibly_nonzero(t[2])
    if k == "bitor":
        return visibly_nonzero(t[1]) or visibly_nonzero(t[2])
    if k == "call" and re.search(r"(::max|::clamp)$", t[1]) and len(t[2]) >= 2:
        return visibly_nonzero(t[2][1])
    if k == "call" and re.search(r"NonZero.*::get$", t[1]):
        return True
    if k == "mul":
        return visibly_nonzero(t[1]) and visibly_nonzero(t[2])
    return False


def additive_terms(t, out):
    if t[0] == "add":
        additive_terms(t[1], out)
        additive_terms(t[2], out)
    else:
        out.append(t)
    return out


def mixed_radix(t):
    """off + (A % D1) [* 1] + (B % D2) * M  ->  {"off", "low": (field, D), "high": (field, D, M)} or None"""
    off = 0
    digits = []
    for term in additive_terms(t, []):
        if term[0] == "const":
            off += term[1]
        elif term[0] == "rem" and term[2][0] == "const" and term[1][0] == "field":
            digits.append((term[1][2], term[2][1], 1))
        elif term[0] == "mul":
            a, b = term[1], term[2]
            if a[0] == "const":
                a, b = b, a
            if b[0] == "const" and a[0] == "rem" and a[2][0] == "const" and a[1][0] == "field":
                digits.append((a[1][2], a[2][1], b[1]))
            else:
                return None
        else:
            return None
    if len(digits) != 2:
        return None
    digits.sort(key=lambda d: d[2])
    if digits[0][2] != 1:
        return None
    return {"off": off, "low": digits[0], "high": digits[1]}


def strip_offset(t):
    """x - c / saturating_sub(x, c) / wrapping_sub(x, c) -> (x, c); else (t, 0)"""
    if t[0] == "sub" and t[2][0] == "const":
        return t[1], t[2][1]
    if t[0] == "call" and re.search(r"::(saturating_sub|wrapping_sub)$", t[1]) and len(t[2]) == 2 and t[2][1][0] == "const":
        return t[2][0], t[2][1][1]
    return t, 0


# ------------------------------------------------------------------------------------------------
def load_refs():
    return json.load(open(REFS))


def param_env(fn):
    env = {}
    for p in fn["sig"]["inputs"]:
        ty = (p.get("ty") or "").replace(" ", "")
        if not p.get("pat") or p["pat"].get("mut"):
            continue
        if ty in ("&Image", "Image"):
            env[p["pat"]["name"]] = T.mkpath("$img")
        elif ty in ("Position", "Option<Position>"):
            env[p["pat"]["name"]] = T.mkpath("$pos")
    return env


def hole_text(v):
    return v.text() if isinstance(v, T.Hole) else repr(v)


def run(ctx):
    src, prog = ctx.src, ctx.prog
    ctx.explanation = (
        "Decides structural clauses of C11 on the current tree: (a) every byte written by KittyImageHandler::draw/erase lies inside an APC "
        "graphics command ESC _ G <key=value,..> [; payload] ESC \\ on every path, each command has exactly the keys of its reference shape "
        "with the reference literal values (a=t f=32 / a=p C=1 / a=d d=i) and each variable key is fed from the right source (v <- image "
        "height, s <- image width, i <- image id function of the image, p <- placement id function of the position, m <- more flag, payload "
        "<- the chunk); (b) the base64 payload is cut by `.chunks(N)` with N % 4 == 0 and N <= 4096 and the flag is index+1 < number of "
        "chunks; (c) draw, erase and the cache key use the same id functions on the same arguments, the placement id is a two-digit mixed "
        "radix number whose radix equals the low digit's modulus, its inverse uses the same constants and offset, and the largest id fits "
        "the protocol's 32-bit limit; the ids are visibly non-zero; (d) transmission commands occur only on the Entry::Vacant branch of the "
        "cache lookup keyed by the image id, that branch reaches VacantEntry::insert on every Ok path (MIR), the put command ends every Ok "
        "path, an empty image cannot reach the put command without a transmit, handle() removes the cached id before re-drawing (MIR); (e) "
        "the pixel loop iterates the image's own row-major iterator writing to_rgba() = [u8; 4] per pixel into the base64 encoder whose "
        "finish() value is what is chunked, and the declared format is 32. NOT decided: base64 correctness (C14), numeric id ranges beyond "
        "the constant bound, uniqueness of the hash, terminal behaviour.")
    ctx.assume("I/O errors abort the command; functions in hole expressions are pure; Surface::iter is row-major per C07 (only Shape::nth's formula is re-checked here)")
    ctx.trust("refs/kitty_graphics.json", "key table and command shapes written by hand from the kitty graphics protocol specification")

    ctx.rule("FRAMING", "draw/erase: every path consists only of complete APC graphics commands (ESC _ G .. ESC \\)", floor=2)
    ctx.rule("TEMPLATE", "each emitted command has the keys, literal values and argument sources of its reference shape", floor=5)
    ctx.rule("KEYS", "every key=value of every command is in the protocol's key table with a value of the key's domain", floor=21)
    ctx.rule("CHUNK", "chunk size constant (multiple of 4, <= 4096) and continuation flag (index + 1 < count)", floor=2)
    ctx.rule("PAIRING", "draw/erase/cache use the same id functions and arguments; placement id <-> position inverse agree on constants", floor=5)
    ctx.rule("TRANSMIT-ONCE", "transmit only on Entry::Vacant + insert; put on every Ok path; no put without transmit; handle removes before re-draw", floor=5)
    ctx.rule("PAYLOAD", "payload = base64 of row-major RGBA (4 bytes per pixel), format declared 32", floor=5)
    ctx.rule("ID-NONZERO", "image id and placement id cannot be 0 (0 means 'unspecified' in the protocol)", floor=2)

    try:
        refs = load_refs()
    except Exception as e:
        ctx.anchor("TEMPLATE", "refs/kitty_graphics.json", "reference table unreadable: %s" % e)
        return

    fns = {}
    for nm in ("draw", "erase", "handle"):
        r = src.fn(nm, impl_self=HANDLER)
        if r is None:
            ctx.anchor("FRAMING", "%s::%s" % (HANDLER, nm))
            return
        fns[nm] = r
    bodies = {"draw": prog.body(DRAW), "erase": prog.body(ERASE), "handle": prog.body(HANDLE)}
    if any(b is None for b in bodies.values()):
        ctx.anchor("FRAMING", "MIR bodies of KittyImageHandler")
        return

    # ---------------- (a) templates --------------------------------------------------------------
    tmpl = {}
    rows = {}
    for nm in ("draw", "erase"):
        file, fn = fns[nm]
        where = "%s::%s" % (HANDLER, nm)
        try:
            ex = T.Extractor(src, file, fn, env=param_env(fn))
            t = ex.template()
        except T.Unsupported as e:
            ctx.instance("FRAMING", {"fn": where})
            ctx.violation("FRAMING", where, "unsupported-construct", "construct outside the template subset (fail closed): %s" % e, sites=["%s:%d" % (file, fn["line"])])
            continue
        tmpl[nm] = t
        out, problems = [], []
        try:
            commands_of(t, "top", out, problems)
        except T.Unsupported as e:
            problems.append(("top", {}, "unsupported-construct", str(e)))
        rows[nm] = out
        ctx.instance("FRAMING", {"fn": where, "template": t.text()[:400], "paths": len(out)})
        for (cx, val, reason, msg) in problems:
            ctx.violation("FRAMING", where, reason, "%s [%s, %s]: %s" % (where, cx, T.val_text(val), msg), sites=["%s:%d" % (file, fn["line"])])
        for a in T.atoms_in(t):
            if isinstance(a, T.Call):
                ctx.violation("FRAMING", where, "unresolved-helper", "%s passes the sink to %s" % (where, a.text()), sites=["%s:%s" % (file, a.line)])
    if "draw" not in tmpl or "erase" not in tmpl:
        return

    # distinct commands by kind
    cmds = {}     # (fn, kind) -> [(ctx, val, Cmd)]
    for nm in ("draw", "erase"):
        for (cx, val, row, atoms) in rows[nm]:
            for c in row:
                if isinstance(c, Cmd):
                    cmds.setdefault((nm, c.kind if not c.error else "malformed"), []).append((cx, val, c))
    file_d, fn_d = fns["draw"]
    file_e, fn_e = fns["erase"]
    site = {"draw": ["%s:%d" % (file_d, fn_d["line"])], "erase": ["%s:%d" % (file_e, fn_e["line"])]}

    for (nm, kind), lst in sorted(cmds.items()):
        if kind in ("malformed", "unknown"):
            for cx, val, c in lst:
                ctx.violation("TEMPLATE", "%s::%s" % (HANDLER, nm), kind + "-command", "command %s: %s" % (c.text(), c.error or "action not one of t/p/d and no m key"), sites=site[nm])

    # roles discovered from the put command of draw
    put = cmds.get(("draw", "put"), [])
    image_id = placement_id = None
    if put:
        iv, pv = put[0][2].keys.get("i"), put[0][2].keys.get("p")
        if isinstance(iv, T.Hole) and iv.node is not None and iv.node.get("k") == "call" and [T.canon(a) for a in iv.node["args"]] == ["$img"]:
            image_id = iv
        if isinstance(pv, T.Hole) and pv.node is not None and pv.node.get("k") == "call" and [T.canon(a) for a in pv.node["args"]] == ["$pos"]:
            placement_id = pv
    image_id_fn = T.canon(image_id.node["f"]) if image_id else None
    placement_id_fn = T.canon(placement_id.node["f"]) if placement_id else None

    def role_ok(role, v, nm, cx, val, more_key):
        """does value v (str literal or Hole) play the reference role?  returns (ok, expectation text)"""
        if role == "IMAGE_ID":
            return (isinstance(v, T.Hole) and image_id is not None and v.expr == image_id.expr and v.spec == ""), "{%s($img)}" % (image_id_fn or "<image id fn>")
        if role == "PLACEMENT_ID":
            want = "%s(%s)" % (placement_id_fn or "<placement id fn>", "$pos" if nm == "draw" else "$pos.0")
            return (isinstance(v, T.Hole) and placement_id is not None and v.expr == want and v.spec == ""), "{%s}" % want
        if role == "WIDTH":
            return (isinstance(v, T.Hole) and v.expr in ("$img.width()", "$img.size().width", "$img.shape().width") and v.spec == ""), "{$img.width()}"
        if role == "HEIGHT":
            return (isinstance(v, T.Hole) and v.expr in ("$img.height()", "$img.size().height", "$img.shape().height") and v.spec == ""), "{$img.height()}"
        if role == "QUIET":
            if isinstance(v, T.Hole):
                return (v.spec == "" and "$img" not in v.expr and "$pos" not in v.expr), "{quiet level}"
            return v in refs["keys"]["q"]["values"], "0|1|2"
        if role == "MORE":
            if more_key is None:
                return False, "{index + 1 < count} (not inside the chunk loop)"
            if isinstance(v, T.Hole):
                n = v.node
                inner = None
                if n is not None and n.get("k") == "call" and re.match(r"^(i|u)\d+::from$", T.canon(n["f"])) and len(n["args"]) == 1:
                    inner = n["args"][0]
                elif n is not None and n.get("k") == "cast" and n["ty"] in T.INT_TYPES:
                    inner = n["e"]
                if inner is None or v.spec != "":
                    return False, "{i32::from(index + 1 < count)}"
                p, _ = T.cond_pred(inner)
                return p in more_key, "{i32::from(#index + 1 < <chunks>.len())}"
            # literal 0/1 selected by a value conditional: must agree with the valuation of the more-variable
            for p in more_key:
                if p[0] == "var" and p[1] in val:
                    return (v == ("1" if val[p[1]] in p[2] else "0")), "1 iff index + 1 < count"
            return False, "1 iff index + 1 < count"
        return False, role

    nkeys = 0
    for kind, ref in refs["commands"].items():
        nm = "draw" if kind in ("transmit-first", "transmit-cont", "put") else "erase"
        where = "%s::%s" % (HANDLER, nm)
        lst = cmds.get((nm, kind), [])
        ctx.instance("TEMPLATE", {"fn": where, "command": kind, "occurrences": len(lst), "example": lst[0][2].text() if lst else None})
        if not lst:
            ctx.violation("TEMPLATE", where, kind + "-missing", "%s never emits the %s command (%s)" % (where, kind, ref["cite"]), sites=site[nm])
            continue
        seen_keys = set()
        for (cx, val, c) in lst:
            more_key = None
            if cx.startswith("loop:"):
                it = cx[len("loop:"):]
                k1, f1 = T.cmp_key("(#index+1)", it + ".len()")
                k2, f2 = T.cmp_key("#index", "(" + it + ".len()-1)")
                more_key = [T.p_var(k1, {"gt"} if f1 else {"lt"}), T.p_var(k1, {"lt", "gt"}), T.p_var(k2, {"gt"} if f2 else {"lt"})]
            allowed = dict(ref["require"])
            allowed.update(ref.get("optional", {}))
            for key, want in ref["require"].items():
                if key not in c.keys:
                    ctx.violation("TEMPLATE", where, "%s-%s-missing" % (kind, key), "%s lacks required key %s: %s (%s)" % (kind, key, c.text(), ref["cite"]), sites=site[nm])
            for key in c.order:
                v = c.keys[key]
                if (kind, key) not in seen_keys:
                    seen_keys.add((kind, key))
                    nkeys += 1
                    kd = refs["keys"].get(key)
                    ctx.instance("KEYS", {"command": kind, "key": key, "value": hole_text(v)})
                    if kd is None:
                        ctx.violation("KEYS", where, "%s-%s-unknown-key" % (kind, key), "key %s of %s is not a key of the graphics protocol" % (key, c.text()), sites=site[nm])
                    elif isinstance(v, str):
                        okv = (v in kd["values"]) if "values" in kd else bool(re.match(r"^\d+$", v))
                        if okv and kd.get("min") is not None and int(v) < kd["min"]:
                            okv = False
                        if not okv:
                            ctx.violation("KEYS", where, "%s-%s-value" % (kind, key), "value %s of key %s is outside its domain (%s)" % (v, key, kd.get("cite", "")), sites=site[nm])
                if key not in allowed:
                    ctx.violation("TEMPLATE", where, "%s-%s-unexpected" % (kind, key), "%s carries key %s which its reference shape does not allow: %s (%s)" % (kind, key, c.text(), ref["cite"]), sites=site[nm])
                    continue
                want = allowed[key]
                if want.isupper():
                    ok, expect = role_ok(want, v, nm, cx, val, more_key)
                    if not ok:
                        ctx.violation("TEMPLATE", where, "%s-%s" % (kind, key), "%s: key %s must be fed from %s, found %s in %s under [%s] (%s)" % (kind, key, expect, hole_text(v), c.text(), T.val_text(val), ref["cite"]), sites=site[nm])
                elif v != want:
                    ctx.violation("TEMPLATE", where, "%s-%s" % (kind, key), "%s: key %s must be %s, found %s in %s (%s)" % (kind, key, want, hole_text(v), c.text(), ref["cite"]), sites=site[nm])
            # payload
            pl = c.payload
            if ref["payload"] is None:
                if pl:
                    ctx.violation("TEMPLATE", where, kind + "-payload", "%s must not carry a payload: %s" % (kind, c.text()), sites=site[nm])
            else:
                okp = pl is not None and len(pl) == 1 and isinstance(pl[0], T.Raw) and re.match(r"^#item\d*$", pl[0].expr) and cx.startswith("loop:")
                if not okp:
                    ctx.violation("TEMPLATE", where, kind + "-payload", "%s: payload must be exactly the current chunk, found %s" % (kind, c.text()), sites=site[nm])

    # ---------------- (b) chunking ---------------------------------------------------------------
    stars = [a for a in T.atoms_in(tmpl["draw"]) if isinstance(a, T.Star) and T.writes(a.body)]
    chunk_star = stars[0] if len(stars) == 1 else None
    chunk_recv = None
    where = "%s::draw" % HANDLER
    if chunk_star is None:
        ctx.anchor("CHUNK", "chunk-loop", "draw has %d writing loops, expected exactly the chunk loop" % len(stars))
    else:
        n = chunk_star.iter_node
        if n is not None and n.get("k") == "mcall" and n["m"] == "enumerate":
            n = n["recv"]
        size = None
        if n is not None and n.get("k") == "mcall" and n["m"] == "chunks" and len(n["args"]) == 1:
            a = n["args"][0]
            chunk_recv = n["recv"]
            if a.get("k") == "lit" and a["t"] == "int":
                size = int(a["v"])
            elif a.get("k") == "path":
                c = src.const(a["p"].split("::")[-1])
                if c and c[1]["expr"].get("k") == "lit" and c[1]["expr"]["t"] == "int":
                    size = int(c[1]["expr"]["v"])
        ctx.instance("CHUNK", {"loop": chunk_star.iter_text, "size": size})
        ln = ["%s:%s" % (file_d, chunk_star.line)]
        if size is None:
            ctx.violation("CHUNK", where, "chunk-size-unknown", "the transmit loop does not iterate `<payload>.chunks(<constant>)`: %s" % chunk_star.iter_text, sites=ln)
        else:
            if size <= 0 or size % refs["chunking"]["multiple_of"] != 0:
                ctx.violation("CHUNK", where, "chunk-size-not-multiple-of-4", "chunks(%d): every chunk but the last must be a multiple of 4 base64 bytes (%s)" % (size, refs["chunking"]["cite"]), sites=ln)
            if size > refs["chunking"]["max"]:
                ctx.violation("CHUNK", where, "chunk-size-exceeds-4096", "chunks(%d) exceeds the protocol's 4096 byte limit (%s)" % (size, refs["chunking"]["cite"]), sites=ln)
        # the continuation flag itself is checked as role MORE of key m; count it as an instance here
        ms = [c.keys.get("m") for (cx, val, c) in cmds.get(("draw", "transmit-first"), []) + cmds.get(("draw", "transmit-cont"), [])]
        ctx.instance("CHUNK", {"more_flag": sorted({hole_text(m) for m in ms if m is not None})})
        if not ms or any(m is None for m in ms):
            ctx.violation("CHUNK", where, "more-flag-missing", "a transmit command has no m key", sites=ln)

    # ---------------- (c) pairing ----------------------------------------------------------------
    where_d, where_e = "%s::draw" % HANDLER, "%s::erase" % HANDLER
    cg = prog.callgraph()
    for role, fnname, hole in (("image-id", image_id_fn, image_id), ("placement-id", placement_id_fn, placement_id)):
        ctx.instance("PAIRING", {"role": role, "function": fnname})
        if hole is None:
            ctx.violation("PAIRING", where_d, role + "-source", "the put command's %s is not `<fn>(%s)` of a crate function" % ("i" if role == "image-id" else "p", "$img" if role == "image-id" else "$pos"), sites=site["draw"])
            continue
        path = "image::" + fnname.split("::")[-1]
        b = prog.body(path)
        if b is None:
            ctx.violation("PAIRING", where_d, role + "-source", "id function %s has no MIR body" % path, sites=site["draw"])
            continue
        callers = set(cg.callers(path)) if hasattr(cg, "callers") else {p for p, es in cg.edges.items() if path in es}
        for need, w, nm in ((DRAW, where_d, "draw"), (ERASE, where_e, "erase")):
            if need not in callers:
                ctx.violation("PAIRING", w, role + "-not-called", "%s does not call %s, which %s uses for the %s" % (nm, path, "draw" if nm == "erase" else "erase", role), sites=site[nm])
    # the cache key is the image id
    cache_keys = set()
    vs = {}
    T.collect_vars(tmpl["draw"], vs, deep=True)
    for k in vs:
        m = re.match(r"^v:(self\.\w+)\.entry\((.*)\)$", k)
        if m:
            cache_keys.add((m.group(1), m.group(2), k))
    ctx.instance("PAIRING", {"cache_lookup": sorted(k[2] for k in cache_keys)})
    cache_var = None
    if len(cache_keys) != 1:
        ctx.violation("PAIRING", where_d, "cache-lookup", "draw does not branch on exactly one `self.<cache>.entry(<id>)` lookup (found %d)" % len(cache_keys), sites=site["draw"])
    else:
        field, keyexpr, cache_var = list(cache_keys)[0]
        if image_id is None or keyexpr != image_id.expr:
            ctx.violation("PAIRING", where_d, "cache-key", "the cache is keyed by %s but commands identify the image by %s" % (keyexpr, image_id.expr if image_id else "?"), sites=site["draw"])

    # placement id function and its inverse (MIR shape)
    fwd = prog.body("image::" + placement_id_fn.split("::")[-1]) if placement_id_fn else None
    inv = None
    hb = bodies["handle"]
    inv_names = set()
    for b2 in [hb] + [prog.body(p) for p in cg.edges.get(HANDLE, ()) if prog.body(p) is not None and "closure" in p]:
        for bb, t in b2.calls():
            for a in t["args"]:
                if a["k"] == "const" and "fn" in a["c"] and a["c"]["fn"]["path"].startswith("image::"):
                    inv_names.add(a["c"]["fn"]["path"])
            if call_matches(t, r"^image::\w+$") and re.search(r"placement", callee_name(t)):
                inv_names.add(callee_name(t))
    inv_names = {n for n in inv_names if prog.body(n) is not None and prog.body(n).local_ty(0) == "terminal::Position"}
    ctx.instance("PAIRING", {"placement_id": fwd.path if fwd else None, "inverse": sorted(inv_names)})
    mr = None
    if fwd is None:
        ctx.violation("PAIRING", where_d, "placement-id-shape", "placement id function not found", sites=site["draw"])
    else:
        ft = return_tree(fwd)
        mr = mixed_radix(ft)
        floc = [fwd.loc] if hasattr(fwd, "loc") else []
        if mr is None:
            ctx.violation("PAIRING", fwd.path, "placement-id-shape", "placement id is not `[c +] (a %% D) + (b %% D') * M`: %s" % tree_text(ft), sites=floc)
        else:
            (lf, ld, _), (hf, hd, hm) = mr["low"], mr["high"]
            if hm != ld:
                ctx.violation("PAIRING", fwd.path, "radix-differs-from-modulus", "low digit is %s %% %d but the high digit is multiplied by %d: ids of different positions collide or leave gaps" % (lf, ld, hm), sites=floc)
            top = mr["off"] + (ld - 1) + (hd - 1) * hm
            if top > refs["keys"]["p"]["max"]:
                ctx.violation("PAIRING", fwd.path, "exceeds-max-id", "largest placement id %d exceeds the protocol limit %d" % (top, refs["keys"]["p"]["max"]), sites=floc)
            if {lf, hf} != {"row", "col"}:
                ctx.violation("PAIRING", fwd.path, "placement-id-shape", "placement id does not combine pos.row and pos.col: %s" % tree_text(ft), sites=floc)
        if len(inv_names) != 1:
            ctx.violation("PAIRING", HANDLE, "inverse-not-found", "handle does not map the reported placement id back with exactly one image::*placement* function (found %s)" % sorted(inv_names))
        elif mr is not None:
            inv = prog.body(list(inv_names)[0])
            it = return_tree(inv)
            iloc = [inv.loc] if hasattr(inv, "loc") else []
            okshape = it[0] == "adt" and it[1].startswith("terminal::Position")
            fields = dict(it[2]) if okshape else {}
            (lf, ld, _), (hf, hd, hm) = mr["low"], mr["high"]
            lo, hi = fields.get(lf), fields.get(hf)
            bad = None
            if not okshape or lo is None or hi is None:
                bad = "inverse does not build Position{row, col}: %s" % tree_text(it)
            else:
                if not (lo[0] == "rem" and lo[2] == ("const", ld)):
                    bad = "%s must be (id - %d) %% %d, found %s" % (lf, mr["off"], ld, tree_text(lo))
                else:
                    x, off = strip_offset(lo[1])
                    if off != mr["off"] or x != ("arg", 1):
                        bad = "%s must be (id - %d) %% %d, found %s" % (lf, mr["off"], ld, tree_text(lo))
                if bad is None:
                    h = hi
                    if h[0] == "rem" and h[2][0] == "const":
                        h = h[1]
                    if not (h[0] == "div" and h[2] == ("const", hm)):
                        bad = "%s must be (id - %d) / %d, found %s" % (hf, mr["off"], hm, tree_text(hi))
                    else:
                        x, off = strip_offset(h[1])
                        if off != mr["off"] or x != ("arg", 1):
                            bad = "%s must be (id - %d) / %d, found %s" % (hf, mr["off"], hm, tree_text(hi))
            if bad:
                ctx.violation("PAIRING", inv.path, "inverse-disagrees", "placement id is %s but its inverse differs: %s" % (tree_text(return_tree(fwd)), bad), sites=iloc)
    # erase addresses the placement of the same position argument: role PLACEMENT_ID above compares `fn($pos.0)`; count it
    dp = cmds.get(("erase", "delete-placement"), [])
    ctx.instance("PAIRING", {"erase_placement": [hole_text(c.keys.get("p")) for _, _, c in dp][:2], "erase_when": [T.val_text(v) for _, v, _ in dp][:2]})
    for (cx, val, c) in dp:
        if val.get("v:$pos") != "Some":
            ctx.violation("PAIRING", where_e, "placement-without-position", "erase addresses a placement on a path where no position was given [%s]" % T.val_text(val), sites=site["erase"])
    for (cx, val, row, atoms) in rows["erase"]:
        kinds = [c.kind for c in row if isinstance(c, Cmd)]
        want = {"Some": ["delete-placement"], "None": ["delete-image"]}.get(val.get("v:$pos"))
        if want is not None and kinds != want:
            ctx.violation("PAIRING", where_e, "erase-shape", "erase with position %s must emit exactly %s, emits %s" % (val.get("v:$pos"), want, kinds), sites=site["erase"])

    # ---------------- ID-NONZERO -----------------------------------------------------------------
    for role, fnname in (("image id", image_id_fn), ("placement id", placement_id_fn)):
        b = prog.body("image::" + fnname.split("::")[-1]) if fnname else None
        if b is None:
            ctx.instance("ID-NONZERO", {"role": role})
            ctx.anchor("ID-NONZERO", role.replace(" ", "-") + "-function")
            continue
        tr = return_tree(b)
        nz = visibly_nonzero(tr)
        ctx.instance("ID-NONZERO", {"fn": b.path, "value": tree_text(tr), "visibly_nonzero": nz})
        if not nz:
            ctx.violation("ID-NONZERO", b.path, "may-be-zero",
                          "the %s is %s, which can be 0; the protocol reads 0 as 'unspecified' (%s)" % (role, tree_text(tr), refs["keys"]["i" if role == "image id" else "p"]["cite"]),
                          sites=[b.loc] if hasattr(b, "loc") else [])

    # ---------------- (d) transmit once ----------------------------------------------------------
    draw_b = bodies["draw"]
    # d1: transmit commands only under the Vacant valuation of the cache variable
    n_tx = 0
    bad_tx = []
    for (cx, val, row, atoms) in rows["draw"]:
        if cx != "top":
            continue
        has_loop = any(isinstance(c, T.Star) for c in row)
        has_tx = any(isinstance(c, Cmd) and c.kind in ("transmit-first", "transmit-cont") for c in row)
        if has_loop or has_tx:
            n_tx += 1
            if cache_var is None or val.get(cache_var) != "Vacant":
                bad_tx.append(T.val_text(val))
    ctx.instance("TRANSMIT-ONCE", {"transmitting_paths": n_tx, "cache_var": cache_var})
    if bad_tx:
        ctx.violation("TRANSMIT-ONCE", where_d, "transmit-when-cached", "pixel data is transmitted on a path where the image is already in the cache: [%s]" % "; ".join(bad_tx), sites=site["draw"])
    if n_tx == 0:
        ctx.violation("TRANSMIT-ONCE", where_d, "never-transmits", "no path of draw transmits pixel data", sites=site["draw"])
    # d2: MIR — Vacant branch must pass VacantEntry::insert before any Ok return
    vac_blocks = []
    for i, si, s in draw_b.assigns():
        rv = s["rv"]
        if rv["k"] == "use" and rv["a"]["k"] in ("copy", "move"):
            pr = rv["a"]["place"]["p"]
            if any(e["k"] == "downcast" and e.get("variant") == "Vacant" for e in pr):
                vac_blocks.append(i)
    ins = [bb for bb, t in draw_b.calls() if call_matches(t, r"VacantEntry::<.*>::(insert|insert_entry)$") or call_matches(t, r"hash_map::VacantEntry.*::insert")]
    okret = ok_return_blocks(draw_b)
    ctx.instance("TRANSMIT-ONCE", {"vacant_blocks": vac_blocks, "insert_blocks": ins, "ok_returns": sorted(okret)})
    if len(vac_blocks) != 1:
        ctx.violation("TRANSMIT-ONCE", DRAW, "vacant-branch", "draw does not have exactly one Entry::Vacant branch in MIR (found %d)" % len(vac_blocks), sites=site["draw"])
    else:
        ok, wit = draw_b.cfg().must_pass(ins, exits=okret, start=vac_blocks[0])
        if not ins or not ok:
            ctx.violation("TRANSMIT-ONCE", DRAW, "vacant-without-insert",
                          "an Ok path from the Entry::Vacant branch returns without VacantEntry::insert: the image would be transmitted again on the next draw (blocks %s)" % (wit,), sites=site["draw"])
    # d3: put is the last command of every Ok path and occurs once
    nput = 0
    for (cx, val, row, atoms) in rows["draw"]:
        if cx != "top":
            continue
        kinds = [c.kind if isinstance(c, Cmd) else "loop" for c in row]
        if not kinds and any(isinstance(a, T.Exit) for a in atoms):
            continue        # silent early return (nothing drawn, nothing placed)
        nput += 1
        if kinds.count("put") != 1 or kinds[-1] != "put":
            ctx.violation("TRANSMIT-ONCE", where_d, "put-not-on-every-path", "an Ok path of draw [%s] emits %s instead of ending with exactly one put command" % (T.val_text(val), kinds), sites=site["draw"])
    ctx.instance("TRANSMIT-ONCE", {"ok_paths_with_put": nput})
    for (cx, val, row, atoms) in rows["draw"]:
        if cx.startswith("loop:") and any(isinstance(c, Cmd) and c.kind == "put" for c in row):
            ctx.violation("TRANSMIT-ONCE", where_d, "put-inside-loop", "the put command is emitted per chunk", sites=site["draw"])
    # d4: every placement refers to a transmitted image: the transmit loop may run zero times (empty payload)
    guard = False
    top = tmpl["draw"].body if isinstance(tmpl["draw"], T.Scope) else tmpl["draw"]
    items = top.items if isinstance(top, T.Seq) else [top]
    for it in items:
        if isinstance(it, T.Alt):
            keys = {}
            for p, b in it.branches:
                T.pred_vars(p, keys)
            if cache_var in keys:
                break
            exits = any(any(isinstance(a, T.Exit) for a in T.atoms_in(b, into_loops=False)) and not T.writes(b) for p, b in it.branches)
            if exits and any("$img" in k for k in keys):
                guard = True
    tx_outside_loop = any(cx == "top" and any(isinstance(c, Cmd) and c.kind == "transmit-first" for c in row) for (cx, val, row, atoms) in rows["draw"])
    ctx.instance("TRANSMIT-ONCE", {"empty_image_guard": guard, "transmit_outside_loop": tx_outside_loop})
    if not guard and not tx_outside_loop:
        ctx.violation("TRANSMIT-ONCE", where_d, "empty-image-put-without-transmit",
                      "all transmit commands are inside `for .. in %s`, which runs zero times for an image with no pixels, yet the put command (and the cache insert) "
                      "still happen: the placement refers to an image id that was never transmitted" % (chunk_star.iter_text if chunk_star else "?"), sites=site["draw"])
    # d5: handle removes the cached id before re-drawing (MIR)
    hcfg = hb.cfg()
    draws = [bb for bb, t in hb.calls() if call_matches(t, r"ImageHandler>::draw$|KittyImageHandler::draw$")]
    removes = [bb for bb, t in hb.calls() if call_matches(t, r"HashMap::<.*>::remove$") and re.search(r"\.imgs$", arg_place(hb, t, 0) or "")]
    ctx.instance("TRANSMIT-ONCE", {"handle_draw_blocks": draws, "handle_remove_blocks": removes})
    if not draws:
        ctx.violation("TRANSMIT-ONCE", HANDLE, "no-redraw", "handle never re-draws after an error response")
    for d in draws:
        if not any(hcfg.dominates(r, d) for r in removes):
            ctx.violation("TRANSMIT-ONCE", HANDLE, "redraw-without-remove", "handle re-draws an image without first removing its id from the cache: draw would skip the transmission")
    # every error response invalidates the cached id, with or without a placement: the `error.is_some()` edge must lead to the removal on all paths
    err_tests = []
    for bb, t in hb.calls():
        if call_matches(t, r"Option::<T>::is_some$") and re.search(r"KittyImage\.error$|\.error$", expr(hb, t["args"][0])):
            sw = hb.blocks[t["t"]]["term"]
            if sw["k"] == "switch" and sw["vals"] == ["0"]:
                err_tests.append((t["t"], sw["otherwise"]))
    if not err_tests:
        # `if let Some(..) = error` / match forms: a discriminant switch over the error field
        for x, blk in enumerate(hb.blocks):
            sw = blk["term"]
            if sw["k"] == "switch" and re.fullmatch(r"discr\(.*\.error\)", expr(hb, sw["d"])):
                yes = [tg for v, tg in zip(sw["vals"], sw["targets"]) if v == "1"] or ([sw["otherwise"]] if sw["vals"] == ["0"] else [])
                err_tests += [(x, y) for y in yes]
    if not err_tests:
        ctx.anchor("TRANSMIT-ONCE", "handle/error-test", "cannot find the test of the response's error field in handle()")
    for x, y in err_tests:
        ok, wit = hcfg.must_pass(removes, start=y, exits=hcfg.returns) if removes else (False, None)
        ctx.instance("TRANSMIT-ONCE", {"error_edge": "bb%d->bb%d" % (x, y), "cache_removed_on_every_path": ok})
        if not ok:
            ctx.violation("TRANSMIT-ONCE", HANDLE, "error-without-remove", "an error response can be handled without removing the image id from the cache (path %s): "
                          "a failed transmission (error without placement) leaves the id cached and later draws only place an image the terminal never received" % wit)

    # ---------------- (e) payload ----------------------------------------------------------------
    lets = {}

    def collect(n, parents):
        if n.get("k") == "let" and n.get("pat", {}).get("k") == "ident" and n.get("init") is not None:
            lets[n["pat"]["name"]] = n
    walk(fn_d["body"], collect)
    enc = [nm for nm, st in lets.items() if st["init"].get("k") == "call" and T.canon(st["init"]["f"]).endswith("Base64Encoder::new")]
    ctx.instance("PAYLOAD", {"encoder_locals": enc})
    pixel_star = None
    if len(enc) != 1:
        ctx.violation("PAYLOAD", where_d, "encoder", "draw does not create exactly one Base64Encoder (found %d)" % len(enc), sites=site["draw"])
    else:
        w = enc[0]
        loops = []

        def find_loops(n, parents):
            if n.get("k") in ("for", "while", "loop"):
                hit = [False]

                def m(x, ps):
                    if x.get("k") == "path" and x.get("p") == w and "generics" in x:
                        hit[0] = True
                walk(n["body"], m)
                if hit[0]:
                    loops.append(n)
                    return False
        walk(fn_d["body"], find_loops)
        if len(loops) != 1:
            ctx.violation("PAYLOAD", where_d, "pixel-loop", "expected exactly one loop feeding the base64 encoder, found %d" % len(loops), sites=site["draw"])
        else:
            try:
                ex2 = T.Extractor(src, file_d, fn_d, sinks=[w], env=param_env(fn_d))
                pt = ex2.expr(loops[0], dict(ex2.env0))
                ps = [a for a in T.atoms_in(pt, into_loops=False) if isinstance(a, (T.Star, T.Join))]
                pixel_star = ps[0] if len(ps) == 1 and isinstance(ps[0], T.Star) else None
            except T.Unsupported as e:
                ctx.violation("PAYLOAD", where_d, "unsupported-construct", str(e), sites=site["draw"])
        # the chunked value is the encoder's finish()
        src_name = T.canon(chunk_recv) if chunk_recv is not None else None
        fin = lets.get(src_name)
        fin_ok = fin is not None and re.match(r"^%s\.finish\(\)\??$" % re.escape(w), T.canon(fin["init"]))
        ctx.instance("PAYLOAD", {"chunked_value": src_name, "is_finish_of": w if fin_ok else None})
        if not fin_ok:
            ctx.violation("PAYLOAD", where_d, "chunks-not-of-encoder-output", "the chunked value `%s` is not `%s.finish()?`" % (src_name, w), sites=site["draw"])
    lp = ["%s:%s" % (file_d, pixel_star.line)] if pixel_star is not None else site["draw"]
    if pixel_star is not None:
        body_atoms = [a for a in T.atoms_in(pixel_star.body) if not isinstance(a, T.Fail)]
        itx = T.canon(pixel_star.iter_node) if pixel_star.iter_node is not None else ""
        ctx.instance("PAYLOAD", {"pixel_loop": itx, "body": pixel_star.body.text()})
        if itx != "$img.iter()":
            ctx.violation("PAYLOAD", where_d, "pixel-order", "pixels are taken from `%s`, not from the image's row-major iterator `$img.iter()`" % itx, sites=lp)
        if not (len(body_atoms) == 1 and isinstance(body_atoms[0], T.Raw) and re.match(r"^#item\d*\.to_rgba\(\)$", body_atoms[0].expr)):
            ctx.violation("PAYLOAD", where_d, "pixel-bytes", "each iteration must write exactly `color.to_rgba()`; writes %s" % pixel_star.body.text(), sites=lp)
    # MIR: to_rgba() yields [u8; 4]  <->  f=32
    bpp = None
    for bb, t in draw_b.calls():
        if call_matches(t, r"Color>::to_rgba$|::to_rgba$"):
            ty = draw_b.local_ty(t["dest"]["l"])
            m = re.match(r"^\[u8; (\d+)\]$", ty or "")
            bpp = int(m.group(1)) if m else ty
    fvals = {c.keys.get("f") for (_, _, c) in cmds.get(("draw", "transmit-first"), [])}
    ctx.instance("PAYLOAD", {"bytes_per_pixel": bpp, "declared_format": sorted(map(str, fvals))})
    for f in fvals:
        want = refs["pixel_format"].get(f if isinstance(f, str) else "", {}).get("bytes_per_pixel")
        if want is None or want != bpp:
            ctx.violation("PAYLOAD", where_d, "format-vs-pixel-bytes", "declared format f=%s means %s bytes per pixel but the loop writes %s" % (hole_text(f) if f is not None else None, want, bpp), sites=lp)
    # iterator is Surface::iter over the image, Shape::nth is row-major
    it_calls = [t for bb, t in draw_b.calls() if call_matches(t, r"^surface::Surface::iter$")]
    nth = src.fn("nth", impl_self="Shape")
    ok_nth = False
    if nth:
        inits = {}

        def cl(n, parents):
            if n.get("k") == "let" and n.get("pat", {}).get("k") == "ident" and n.get("init") is not None:
                inits[n["pat"]["name"]] = T.canon(n["init"])
        walk(nth[1]["body"], cl)
        ok_nth = inits.get("row") == "(n/self.width)" and inits.get("col") in ("(n-(row*self.width))", "(n%self.width)", "(n-(self.width*row))")
    ctx.instance("PAYLOAD", {"surface_iter_calls": len(it_calls), "shape_nth_row_major": ok_nth})
    if len(it_calls) != 1:
        ctx.violation("PAYLOAD", where_d, "pixel-order", "draw does not call surface::Surface::iter exactly once (MIR)", sites=lp)
    if not ok_nth:
        ctx.violation("PAYLOAD", "surface::Shape::nth", "not-row-major", "Shape::nth is not `row = n / width; col = n - row * width`")

    ctx.exhaustive = False
    obligations(ctx)


def obligations(ctx):
    """HOOK for the numeric POST conditions of C11 (1 <= image id, placement id <= 2^32-1 for all inputs; injectivity for
    coordinates < KITTY_MAX_DIM) to be discharged by the abstract interpreter / bit-provenance engine; not implemented here."""
    pass
