"""C11 — kitty graphics output of image.rs `KittyImageHandler::{draw, erase, handle}` (DESIGN.md §5 C11).

(a) command templates vs refs/kitty_graphics.json, (b) chunk constant and continuation flag, (c) draw/erase id pairing and the
placement-id function with its inverse, (d) transmit-once protocol around the image cache, (e) payload = row-major RGBA.
Numeric POST conditions on the id ranges are NOT here (see `obligations`); only their structural necessary conditions."""
import json
import os
import re

from .. import templates as T
from ..mir import call_matches, callee_name, op_local, op_const_int
from ..flow import arg_place, ok_return_blocks, expr, TRANSPARENT_CALLS
from ..src import walk
from .. import sympath

CLAIM = {
    "text": "Structural clauses of the kitty graphics output of KittyImageHandler::{draw,erase,handle}: every written byte lies in a complete APC "
            "graphics command on every path; each of the five command shapes has exactly the reference keys, literal values (a=t f=32, a=p C=1, "
            "a=d d=i) and argument sources (v<-height, s<-width, i<-image id fn of the image, p<-placement id fn of the position, m<-index+1<count, "
            "payload<-chunk); chunk constant is a multiple of 4 and <= 4096; draw, erase and the cache key use the same id functions on the same "
            "arguments, the placement id is mixed radix with radix = low modulus, its inverse uses the same constants/offset, the largest id "
            "fits 2^32-1, ids are visibly non-zero; transmit commands only on the Entry::Vacant branch which must pass VacantEntry::insert on "
            "every Ok path (MIR), put ends every non-silent Ok path, no put without a transmit for empty images, handle removes the id before "
            "re-drawing (MIR dominance); the pixel loop is the image's row-major iterator writing to_rgba() ([u8;4]) into the base64 encoder "
            "whose finish() is what is chunked, f=32. Not decided: base64 correctness (C14), numeric id ranges/injectivity for all inputs "
            "(hook `obligations`), hash collisions, terminal behaviour.",
    "technique": "output-template extraction (helpers that receive the sink inlined, Option adapters and for_each chains normalised) and APC "
                 "command parsing on templates, reference key table, per-path symbolic expression trees of the id functions (sa.sympath), "
                 "value provenance and must-pass/dominance rules on MIR with private helpers inlined, call graph who-calls",
    "design_ref": "DESIGN.md §5 C11; §4 output templates, reference tables",
}

REFS = os.path.join(os.path.dirname(os.path.dirname(os.path.abspath(__file__))), "refs", "kitty_graphics.json")
HANDLER = "KittyImageHandler"
DRAW = "<image::KittyImageHandler as image::ImageHandler>::draw"
ERASE = "<image::KittyImageHandler as image::ImageHandler>::erase"
HANDLE = "<image::KittyImageHandler as image::ImageHandler>::handle"


# ------------------------------------------------------------------------------------------------
# APC command parsing on evaluated atoms
# ------------------------------------------------------------------------------------------------
class Cmd:
    def __init__(self, seq):
        self.seq = seq
        self.keys = {}        # key -> bytes literal (str) | Hole
        self.order = []
        self.payload = None   # None | list of parts
        self.error = None
        self.kind = None

    def text(self):
        return "ESC_" + self.seq.content_text() + "ESC\\"


def parse_apc(seq):
    c = Cmd(seq)
    parts = list(seq.parts)
    if not parts or parts[0] != b"G":
        c.error = "not-a-graphics-command"
        return c
    i = 1
    key = ""
    state = "key"
    val = None
    while i < len(parts):
        p = parts[i]
        i += 1
        if isinstance(p, bytes):
            ch = p.decode("latin-1")
            if state == "key":
                if ch == "=":
                    if not key:
                        c.error = "empty-key"
                        return c
                    state = "val"
                    val = ""
                elif ch == ";" and not key and c.order:
                    c.payload = parts[i:]
                    break
                elif ch in ",;":
                    c.error = "key-without-value"
                    return c
                else:
                    key += ch
            else:
                if ch in ",;":
                    if val == "":
                        c.error = "empty-value"
                        return c
                    if key in c.keys:
                        c.error = "duplicate-key-" + key
                        return c
                    c.keys[key] = val
                    c.order.append(key)
                    key, val, state = "", None, "key"
                    if ch == ";":
                        c.payload = parts[i:]
                        break
                else:
                    if not isinstance(val, str):
                        c.error = "literal-after-hole-in-value"
                        return c
                    val += ch
        else:
            if state != "val" or val != "" or not isinstance(p, T.Hole):
                c.error = "hole-outside-a-value"
                return c
            val = p
    if state == "val" and val not in ("", None):
        if key in c.keys:
            c.error = "duplicate-key-" + key
            return c
        c.keys[key] = val
        c.order.append(key)
    elif state == "val" or key:
        c.error = "truncated-control-data"
        return c
    a = c.keys.get("a")
    if a == "t" or a == "T":
        c.kind = "transmit-first"
    elif a is None and "m" in c.keys:
        c.kind = "transmit-cont"
    elif a == "p":
        c.kind = "put"
    elif a == "d":
        c.kind = "delete-placement" if "p" in c.keys else "delete-image"
    else:
        c.kind = "unknown"
    return c


def commands_of(t, context, out, problems):
    """evaluate template t on every valuation; collect (context, valuation, [Cmd|Star]) and framing problems"""
    for val in T.valuations([t]):
        try:
            atoms = T.evaluate(t, val)
        except T.Undefined:
            continue
        stars = []

        def nested(a):
            stars.append(a)
        try:
            seqs = T.split_sequences(atoms, nested_ground=nested)
        except T.Malformed as e:
            problems.append((context, val, e.reason, "%s: %s" % (T.seq_text(atoms), e)))
            continue
        row = []
        for s in seqs:
            if s.kind == "APC":
                row.append(parse_apc(s))
            elif s.kind == "TEXT":
                for p in s.parts:
                    if isinstance(p, (T.Star, T.Join)):
                        row.append(p)
                    else:
                        problems.append((context, val, "bytes-outside-APC", "writes %s outside a graphics command" % (p if isinstance(p, bytes) else p.text())))
            else:
                problems.append((context, val, "non-APC-sequence", "emits a %s sequence" % s.kind))
        out.append((context, val, row, atoms))
        for st in stars:
            if isinstance(st, T.Star):
                commands_of(st.body, "loop:" + st.iter_text, out, problems)
            else:
                problems.append((context, val, "unsupported-loop", st.text()))


# ------------------------------------------------------------------------------------------------
# template extraction that decides on meaning: Option adapters, provably immutable locals, helper calls
# ------------------------------------------------------------------------------------------------
_INTERIOR = re.compile(r"&mut |\*mut |Cell|Mutex|RwLock|Atomic|dyn |impl ")
_OPTION_TRANSPARENT = ("as_ref", "as_deref", "copied", "cloned")
_PAYLOAD_OF = ("unwrap", "expect", "unwrap_unchecked")


class KExtractor(T.Extractor):
    """`templates.Extractor` with three semantic refinements (all local to this rule):
    * a method call on a plain non-`mut` local whose MIR type has no `&mut`/interior mutability cannot change it, whatever
      the method is called (the base class only knows a whitelist of pure method names);
    * `X.map(F)` is `Some` exactly when `X` is and then holds `F(payload of X)`; `as_ref/copied/cloned` keep variant and
      payload; `X.unwrap()` is the payload: predicates and holes are expressed over `X` itself;
    * `X.is_some()` / `X.is_none()` are the variant test of X."""

    def __init__(self, src, file, fn_item, sinks=None, env=None, depth=0, mir=None, shared=None):
        self.mir = mir
        self.shared = shared if shared is not None else {"alias": {}, "bool": {}}
        T.Extractor.__init__(self, src, file, fn_item, sinks=sinks, env=env, depth=depth)

    # ---- stability ---------------------------------------------------------------------------------
    def _mutated(self, body):
        mut = T.Extractor._mutated(self, body)
        if self.mir is None:
            return mut
        hard = set()

        def f(n, parents):
            k = n.get("k")
            if k == "assign" or (k == "bin" and n["op"] in T.ASSIGN_OPS):
                hard.add(T.canon(n["l"]))
            elif k == "ref" and n.get("mut") and "pat" not in n:
                hard.add(T.canon(n["e"]))
            elif k == "ident" and n.get("mut") and "by_ref" in n:
                hard.add(n["name"])
            elif k == "let" and n.get("pat", {}).get("k") == "ident" and n["pat"].get("mut"):
                hard.add(n["pat"]["name"])
        walk(body, f)
        for p in self.fn["sig"]["inputs"]:
            if p.get("pat") and p["pat"].get("mut") and p["pat"].get("name"):
                hard.add(p["pat"]["name"])
        by_name = {}
        for l, nm in self.mir.varnames.items():
            by_name.setdefault(nm, []).append(self.mir.local_ty(l))
        for nm in list(mut):
            if nm in hard or nm == "self" or not re.match(r"^[A-Za-z_]\w*$", nm):
                continue
            if any(T._overlap(nm, h) for h in hard):
                continue
            tys = by_name.get(nm)
            if tys and not any(_INTERIOR.search(ty) for ty in tys):
                mut.discard(nm)
        return mut

    # ---- `iter.for_each(|pat| body)` / `iter.try_for_each(|pat| body)` is `for pat in iter { body }` -----------------
    def _mcall(self, e, env):
        if e["m"] in ("for_each", "try_for_each") and len(e["args"]) == 1 and e["args"][0].get("k") == "closure" \
                and len(e["args"][0]["params"]) == 1 and not self.is_sink(e["recv"]) and self.mentions_sink(e["args"][0]["body"]):
            c = e["args"][0]
            body = c["body"]
            if body.get("k") != "block":
                body = {"k": "block", "stmts": [{"k": "expr", "e": body, "semi": False, "line": body.get("line", 0)}], "line": body.get("line", 0)}
            # a `return` inside the closure ends one iteration only; the loop template forbids return/break in a writing body anyway
            loop = {"k": "for", "label": None, "pat": c["params"][0], "iter": e["recv"], "body": body, "line": e.get("line", 0)}
            return self._loop(loop, env)
        return T.Extractor._mcall(self, e, env)

    # ---- normal form of resolved expressions -----------------------------------------------------------
    def resolve(self, node, env):
        r = T.Extractor.resolve(self, node, env)
        if isinstance(r, dict):
            return self._norm(r)
        return r

    def _norm(self, n):
        if isinstance(n, list):
            out = [self._norm(x) for x in n]
            return out if any(a is not b for a, b in zip(out, n)) else n
        if not isinstance(n, dict):
            return n
        changed = False
        out = {}
        for key, v in n.items():
            if key in ("tokens", "pat", "params") or not isinstance(v, (dict, list)):
                out[key] = v
                continue
            w = self._norm(v)
            changed = changed or (w is not v)
            out[key] = w
        if not changed:
            out = n
        k = out.get("k")
        if k == "mcall":
            m, recv, args = out["m"], out["recv"], out["args"]
            if m in _OPTION_TRANSPARENT and not args:
                return recv
            if m in _PAYLOAD_OF and len(args) <= 1:
                return {"k": "field", "e": recv, "name": "0", "line": out.get("line", 0)}
            if m == "map" and len(args) == 1:
                self.shared["alias"][T.canon(out)] = T.canon(recv)
            if m in ("is_some", "is_none") and not args:
                self.shared["bool"][T.canon(out)] = ("v:" + T.canon(recv), m == "is_some")
        if k == "field" and out.get("name") == "0" and isinstance(out.get("e"), dict):
            e = out["e"]
            if e.get("k") == "mcall" and e["m"] == "map" and len(e["args"]) == 1:
                payload = {"k": "field", "e": e["recv"], "name": "0", "line": out.get("line", 0)}
                f = e["args"][0]
                if f.get("k") == "path":
                    return {"k": "call", "f": f, "args": [payload], "line": out.get("line", 0)}
                if f.get("k") == "closure" and len(f["params"]) == 1 and f["params"][0].get("k") == "ident" and not f["params"][0].get("mut"):
                    return self._norm(T.Extractor.resolve(self, f["body"], {f["params"][0]["name"]: payload}))
        return out


def rekey(t, shared):
    """rewrite the case variables of a template through the aliases found by KExtractor (in place)"""
    alias, bools = shared["alias"], shared["bool"]

    def key_of(k):
        seen = 0
        while k.startswith("v:") and k[2:] in alias and seen < 8:
            k = "v:" + alias[k[2:]]
            seen += 1
        return k

    def pred(p):
        k = p[0]
        if k == "var":
            key, vals = p[1], p[2]
            if key.startswith("b:") and key[2:] in bools and vals <= {"T", "F"}:
                vkey, is_some = bools[key[2:]]
                q = T.p_var(key_of(vkey), {"Some"})
                if ("T" in vals) != is_some:
                    q = T.p_not(q)
                return q if len(vals) == 1 else (T.TRUE if len(vals) == 2 else T.FALSE)
            if key.startswith("v:") and vals <= {"Some", "None"}:
                return T.p_var(key_of(key), vals)
            return p
        if k == "not":
            return T.p_not(pred(p[1]))
        if k == "and":
            return T.p_and([pred(q) for q in p[1]])
        if k == "or":
            return T.p_or([pred(q) for q in p[1]])
        return p

    def go(x):
        if isinstance(x, T.Seq):
            for i in x.items:
                go(i)
        elif isinstance(x, T.Scope):
            go(x.body)
        elif isinstance(x, T.Alt):
            x.branches = [(pred(p), b) for p, b in x.branches]
            for _, b in x.branches:
                go(b)
        elif isinstance(x, T.Star):
            go(x.body)
        elif isinstance(x, T.Join):
            go(x.sep)
            go(x.item)
    go(t)
    return t


def inline_helpers(t, src, prog, file, impl_self, shared, budget=6):
    """replace helper calls that receive the sink (private fns of the same file / methods of the handler) by their templates"""
    def resolver(call):
        nm = call.name.split("::")[-1]
        if call.recv_node is not None:
            if T.canon(call.recv_node) != "self":
                return None
            return src.fn(nm, impl_self=re.escape(impl_self)) if impl_self else None
        return src.fn(nm, file=file, impl_self=None) if "::" not in call.name else (src.fn(nm, impl_self=re.escape(impl_self)) if call.name.startswith("Self::") and impl_self else None)

    def mir_of(fn_file, fn, recv):
        if recv:
            bs = prog.method(re.escape(impl_self) + "$", fn["name"], "*") if impl_self else []
        else:
            bs = [b for b in prog.find(r"(^|::)%s$" % re.escape(fn["name"])) if b.kind == "Fn" and b.file == fn_file]
        return bs[0] if len(bs) == 1 else None

    def go(x, budget):
        if isinstance(x, T.Seq):
            return T.Seq([go(i, budget) for i in x.items])
        if isinstance(x, T.Scope):
            return T.Scope(go(x.body, budget), x.name)
        if isinstance(x, T.Alt):
            return T.Alt([(p, go(b, budget)) for p, b in x.branches], line=x.line)
        if isinstance(x, T.Star):
            s = T.Star(go(x.body, budget), x.iter_text, x.names, kind=x.kind, iter_node=x.iter_node, line=x.line)
            if hasattr(x, "enumerated"):
                s.enumerated = x.enumerated
            return s
        if isinstance(x, T.Join):
            return T.Join(x.over, go(x.sep, budget), go(x.item, budget), star=x.star, line=x.line)
        if isinstance(x, T.Call):
            r = resolver(x)
            if r is None or budget <= 0:
                return x
            cfile, fn = r
            params = list(fn["sig"]["inputs"])
            env = {}
            sinks = []
            if params and params[0]["name"] == "self":
                if x.recv_node is None:
                    return x
                env["self"] = x.recv_node
                params = params[1:]
            elif x.recv_node is not None:
                return x
            if len(params) != len(x.args):
                return x
            for p, a in zip(params, x.args):
                nm = p.get("pat", {}).get("name") if p.get("pat") else None
                if nm is None:
                    return x
                if a is None:
                    sinks.append(nm)
                elif not p["pat"].get("mut"):
                    env[nm] = a
            ex = KExtractor(src, cfile, fn, sinks=sinks, env=env, mir=mir_of(cfile, fn, x.recv_node is not None), shared=shared)
            return go(ex.template(), budget - 1)
        return x
    return go(t, budget)


# ------------------------------------------------------------------------------------------------
# continuation flag: a condition over the chunk index I and the number of chunks N, decided by value
# ------------------------------------------------------------------------------------------------
class _NotArith(Exception):
    pass


def _arith(text, count_texts):
    """parse canonical expression text over `#index`, the chunk count and integer literals into a tuple tree"""
    s = text
    for ct in sorted(count_texts, key=len, reverse=True):
        s = s.replace(ct, "N")
    s = re.sub(r"#index\d*", "I", s)
    pos = [0]

    def peek():
        return s[pos[0]] if pos[0] < len(s) else ""

    def prim():
        c = peek()
        if c == "(":
            pos[0] += 1
            a = atom()
            if s.startswith(" as ", pos[0]):
                m = re.match(r" as (\w+)\)", s[pos[0]:])
                if not m or m.group(1) not in T.INT_TYPES:
                    raise _NotArith(text)
                pos[0] += m.end()
                return a
            op = peek()
            if op not in "+-*":
                raise _NotArith(text)
            pos[0] += 1
            b = atom()
            if peek() != ")":
                raise _NotArith(text)
            pos[0] += 1
            return (op, a, b)
        if c in ("N", "I"):
            pos[0] += 1
            return (c,)
        m = re.match(r"\d+", s[pos[0]:])
        if m:
            pos[0] += m.end()
            return ("num", int(m.group(0)))
        raise _NotArith(text)

    def atom():
        # postfix forms on an operand: a.saturating_sub(b), a.saturating_add(b), a.wrapping_add(b), a.min(b), a.max(b), a.abs_diff(b),
        # a.checked_sub(b).unwrap() (panics where `a - b` would: the same partial function), a.pred-like casts `a as T` are handled above
        a = prim()
        while True:
            m = re.match(r"\.(saturating_sub|saturating_add|wrapping_add|checked_add|checked_sub|min|max|abs_diff)\(", s[pos[0]:])
            if not m:
                return a
            pos[0] += m.end()
            b = atom()
            if peek() != ")":
                raise _NotArith(text)
            pos[0] += 1
            op = m.group(1)
            if op in ("checked_add", "checked_sub"):
                m2 = re.match(r"\.(unwrap\(\)|expect\([^()]*\)|0(?![\w.]))", s[pos[0]:])      # `.0`: the extractor's payload projection of unwrap()
                if not m2:
                    raise _NotArith(text)
                pos[0] += m2.end()
            a = ({"saturating_sub": "ssub", "saturating_add": "+", "wrapping_add": "+", "checked_add": "+", "checked_sub": "-"}.get(op, op), a, b)
    a = atom()
    if pos[0] != len(s):
        raise _NotArith(text)
    return a


def _arith_consts(a, out):
    if a[0] == "num":
        out.append(a[1])
    elif a[0] in ("+", "-", "*", "ssub", "min", "max", "abs_diff"):
        _arith_consts(a[1], out)
        _arith_consts(a[2], out)
        if a[0] == "*" and a[1][0] != "num" and a[2][0] != "num":
            raise _NotArith("non-linear")
    return out


def _arith_eval(a, i, n):
    k = a[0]
    if k == "num":
        return a[1]
    if k == "I":
        return i
    if k == "N":
        return n
    x, y = _arith_eval(a[1], i, n), _arith_eval(a[2], i, n)
    if k == "+":
        return x + y
    if k == "*":
        return x * y
    if k == "ssub":
        return max(x - y, 0)
    if k == "min":
        return min(x, y)
    if k == "max":
        return max(x, y)
    if k == "abs_diff":
        return abs(x - y)
    if x < y:
        raise _NotArith("unsigned underflow")      # would panic (debug) or wrap (release): not the flag
    return x - y


class MoreFlag:
    """Is a predicate over comparison variables `c:A,B` (A, B arithmetic in the chunk index and the chunk count) true exactly
    when another chunk follows, i.e. index + 1 < count, for every 0 <= index < count?  Atoms are linear with small constants, so
    evaluating on the grid 0 <= index < count <= 2*K+6 (K = largest constant) decides it."""

    def __init__(self, count_texts):
        self.count_texts = count_texts
        self.cache = {}

    def sides(self, key):
        if key not in self.cache:
            r = None
            if key.startswith("c:"):
                # the two sides are canonical texts joined by the comma that is at parenthesis depth 0
                body = key[2:]
                depth = 0
                for j, ch in enumerate(body):
                    if ch in "([":
                        depth += 1
                    elif ch in ")]":
                        depth -= 1
                    elif ch == "," and depth == 0:
                        try:
                            a, b = _arith(body[:j], self.count_texts), _arith(body[j + 1:], self.count_texts)
                            ks = _arith_consts(a, []) + _arith_consts(b, [])
                            if max(ks + [0]) <= 16:
                                r = (a, b, max(ks + [0]))
                        except _NotArith:
                            pass
                        if r is not None:
                            break
            self.cache[key] = r
        return self.cache[key]

    def order(self, key, i, n):
        a, b, _ = self.sides(key)
        x, y = _arith_eval(a, i, n), _arith_eval(b, i, n)
        return "lt" if x < y else ("gt" if x > y else "eq")

    def grid(self, keys):
        k = max([self.sides(key)[2] for key in keys] + [0])
        top = 2 * k + 6
        return [(i, n) for n in range(1, top + 1) for i in range(0, n)]

    def pred_is_flag(self, p):
        keys = {}
        T.pred_vars(p, keys)
        if not keys or any(self.sides(key) is None for key in keys):
            return False
        try:
            for (i, n) in self.grid(keys):
                val = {key: self.order(key, i, n) for key in keys}
                if T.pred_eval(p, val) != (i + 1 < n):
                    return False
        except _NotArith:
            return False
        return True

    def literal_is_flag(self, lit, val):
        """a literal 0/1 emitted under branch valuation `val`: right iff on every (index, count) consistent with the valuation
        the flag has that value (None: the valuation does not constrain index/count through understood comparisons)"""
        keys = [key for key in val if key.startswith("c:") and self.sides(key) is not None]
        if not keys:
            return None
        seen = False
        for (i, n) in self.grid(keys):
            try:
                if any(self.order(key, i, n) != val[key] for key in keys):
                    continue
            except _NotArith:
                continue
            seen = True
            if lit != ("1" if i + 1 < n else "0"):
                return False
        return True if seen else "infeasible"


# ------------------------------------------------------------------------------------------------
# expression trees of the id functions (built per returning path by `return_paths` below)
# ------------------------------------------------------------------------------------------------
def tree_text(t):
    k = t[0]
    if k == "const":
        return str(t[1])
    if k == "arg":
        return "arg%d" % t[1]
    if k == "field":
        return "%s.%s" % (tree_text(t[1]), t[2])
    if k == "call":
        return "%s(%s)" % (t[1].split("::")[-1], ", ".join(tree_text(a) for a in t[2]))
    if k == "adt":
        return "%s{%s}" % (t[1].split("::")[-1], ", ".join("%s: %s" % (n, tree_text(x)) for n, x in t[2]))
    if k == "?":
        return "?"
    return "(%s %s %s)" % (tree_text(t[1]), {"add": "+", "sub": "-", "mul": "*", "div": "/", "rem": "%", "bitor": "|"}.get(k, k), tree_text(t[2]))


# ---- path-sensitive trees (sa.sympath): one tree per returning path, with the branch facts of the path ----------
def st_tree(t):
    """sympath term -> the tuple trees used by the id-function rules (casts transparent, checked pairs unwrapped)"""
    if not isinstance(t, tuple) or not t:
        return ("?",)
    k = t[0]
    if k == "c":
        v = sympath.const_int(t)
        return ("const", v) if v is not None else ("?",)
    if k == "arg":
        return ("arg", t[1])
    if k == "f":
        inner = t[1]
        # payload of `x.checked_sub(c)` on the path where it is Some: x - c
        if t[2] == "0" and inner[0] == "dc" and inner[2] == "Some" and inner[1][0] == "call" and re.search(r"::checked_sub$", inner[1][1]) and len(inner[1][2]) == 2:
            return ("sub", st_tree(inner[1][2][0]), st_tree(inner[1][2][1]))
        b = st_tree(inner)
        return ("field", b, t[2]) if b[0] in ("arg", "field") else ("?",)
    if k == "bin":
        return (t[1].replace("WithOverflow", "").lower(), st_tree(t[2]), st_tree(t[3]))
    if k == "cast":
        return st_tree(t[2]) if not t[1].count(":") else ("?",)
    if k == "agg" and t[4] is not None:
        return ("adt", t[1], tuple(zip(t[4], [st_tree(f) for f in t[3]])))
    if k == "call":
        return ("call", t[1], tuple(st_tree(a) for a in t[2]))
    return ("?",)


def return_paths(prog, body, depth=0):
    """[(facts, tree)] of every path of the function that returns (diverging paths, e.g. a failing debug_assert!, are not
    results); helpers with this function as only caller are seen through.  [] when the function is not loop-free."""
    b = prog.inlined(body.path) or body
    try:
        ps = sympath.evaluator(b, max_paths=400).paths()
    except sympath.TooManyPaths:
        return []
    out = []
    for p in ps:
        if p.end[0] == "loop":
            return []
        if p.end[0] == "return":
            out.append((p.facts, expand_calls(prog, st_tree(p.ret), depth)))
    return out


def _subst_args(t, args):
    if not isinstance(t, tuple):
        return t
    if t[0] == "arg":
        return args[t[1] - 1] if 0 < t[1] <= len(args) else ("?",)
    if t[0] == "adt":
        return ("adt", t[1], tuple((n, _subst_args(x, args)) for n, x in t[2]))
    if t[0] == "call":
        return ("call", t[1], tuple(_subst_args(x, args) for x in t[2]))
    if t[0] == "field":
        b = _subst_args(t[1], args)
        if b[0] == "adt":
            d = dict(b[2])
            return d.get(t[2], ("?",))
        return ("field", b, t[2]) if b[0] in ("arg", "field") else ("?",)
    return (t[0],) + tuple(_subst_args(x, args) if isinstance(x, tuple) else x for x in t[1:])


def expand_calls(prog, t, depth=0):
    """replace calls of small crate-local functions that have exactly one returning path (constructors such as
    `Position::new`, shared arithmetic helpers) by their value"""
    if not isinstance(t, tuple) or depth > 3:
        return t
    if t[0] == "adt":
        return ("adt", t[1], tuple((n, expand_calls(prog, x, depth)) for n, x in t[2]))
    if t[0] == "call":
        args = tuple(expand_calls(prog, a, depth) for a in t[2])
        b = prog.body(t[1]) if isinstance(t[1], str) else None
        if b is not None and b.kind in ("Fn", "AssocFn") and b.file.startswith("src/") and len(b.blocks) <= 12 and b.arg_count == len(args):
            rps = return_paths(prog, b, depth + 1)
            if len(rps) == 1 and "?" not in repr(rps[0][1]):
                return _subst_args(rps[0][1], args)
        return ("call", t[1], args)
    return (t[0],) + tuple(expand_calls(prog, x, depth) if isinstance(x, tuple) else x for x in t[1:])


def excluded_by_lower_bound(facts, arg, lo):
    """do the path facts contradict `arg >= lo`?  (`arg < c` with c <= lo, `arg == c` with c < lo, `arg.checked_sub(c)` is None with c <= lo)"""
    a = ("arg", arg)
    for f in facts:
        if f[0] == "lt" and f[1] == a and sympath.const_int(f[2]) is not None and sympath.const_int(f[2]) <= lo:
            return True
        if f[0] == "eq" and f[1] == a and sympath.const_int(f[2]) is not None and sympath.const_int(f[2]) < lo:
            return True
        if f[0] == "is" and f[2] == "0" and f[1][0] == "call" and re.search(r"::checked_sub$", f[1][1]) and len(f[1][2]) == 2 \
                and f[1][2][0] == a and sympath.const_int(f[1][2][1]) is not None and 0 < sympath.const_int(f[1][2][1]) <= lo:
            return True
    return False


def visibly_nonzero(t):
    """structural: the unsigned value cannot be 0 because of an added positive constant / max(c) / |c"""
    k = t[0]
    if k == "const":
        return t[1] is not None and t[1] > 0
    if k == "add":
        return visibly_nonzero(t[1]) or visibly_nonzero(t[2])
    if k == "bitor":
        return visibly_nonzero(t[1]) or visibly_nonzero(t[2])
    if k == "call" and re.search(r"(::max|::clamp)$", t[1]) and len(t[2]) >= 2:
        return visibly_nonzero(t[2][1])
    if k == "call" and re.search(r"NonZero.*::get$", t[1]):
        return True
    if k == "call" and re.search(r"::saturating_add$", t[1]) and len(t[2]) == 2:
        return visibly_nonzero(t[2][0]) or visibly_nonzero(t[2][1])
    if k == "mul":
        return visibly_nonzero(t[1]) and visibly_nonzero(t[2])
    return False


def additive_terms(t, out):
    if t[0] == "add":
        additive_terms(t[1], out)
        additive_terms(t[2], out)
    else:
        out.append(t)
    return out


def mixed_radix(t):
    """off + (A % D1) [* 1] + (B % D2) * M  ->  {"off", "low": (field, D), "high": (field, D, M)} or None"""
    off = 0
    digits = []
    for term in additive_terms(t, []):
        if term[0] == "const":
            off += term[1]
        elif term[0] == "rem" and term[2][0] == "const" and term[1][0] == "field":
            digits.append((term[1][2], term[2][1], 1))
        elif term[0] == "mul":
            a, b = term[1], term[2]
            if a[0] == "const":
                a, b = b, a
            if b[0] == "const" and a[0] == "rem" and a[2][0] == "const" and a[1][0] == "field":
                digits.append((a[1][2], a[2][1], b[1]))
            else:
                return None
        else:
            return None
    if len(digits) != 2:
        return None
    digits.sort(key=lambda d: d[2])
    if digits[0][2] != 1:
        return None
    return {"off": off, "low": digits[0], "high": digits[1]}


def drop_floor(t, lo):
    """t restricted to arguments >= lo: `max(x, c)` / `clamp(x, c, _)`-free forms with c <= lo are x itself there (both operand orders,
    method or `cmp::max` spelling); applied only directly on an argument, which is where the lower bound is known"""
    if lo is None:
        return t
    while t[0] == "call" and re.search(r"(::max|^std::cmp::max|^core::cmp::max)$", t[1]) and len(t[2]) == 2:
        a, b = t[2]
        if a[0] == "arg" and b[0] == "const" and b[1] is not None and b[1] <= lo:
            t = a
        elif b[0] == "arg" and a[0] == "const" and a[1] is not None and a[1] <= lo:
            t = b
        else:
            break
    return t


def strip_offset(t, lo=None):
    """x - c / saturating_sub(x, c) / wrapping_sub(x, c) -> (x, c); else (t, 0).  With lo (every argument is >= lo), a floor below it
    on the argument (`x.max(c) - c`, c <= lo: the checked spelling of saturating_sub) is dropped."""
    if t[0] == "sub" and t[2][0] == "const":
        return drop_floor(t[1], lo), t[2][1]
    if t[0] == "call" and re.search(r"::(saturating_sub|wrapping_sub)$", t[1]) and len(t[2]) == 2 and t[2][1][0] == "const":
        return drop_floor(t[2][0], lo), t[2][1][1]
    if t[0] == "call" and re.search(r"::unwrap_or(_default)?$", t[1]) and t[2] and (len(t[2]) == 1 or t[2][1] == ("const", 0)):
        c = t[2][0]
        if c[0] == "call" and re.search(r"::checked_sub$", c[1]) and len(c[2]) == 2 and c[2][1][0] == "const":
            return drop_floor(c[2][0], lo), c[2][1][1]
    return t, 0


# ------------------------------------------------------------------------------------------------
# value provenance in a MIR body (helpers inlined): where does this operand come from
# ------------------------------------------------------------------------------------------------
_IDENTITY_CALLS = TRANSPARENT_CALLS + [r"IntoIterator>::into_iter$", r"^std::iter::IntoIterator::into_iter$", r"Iterator::by_ref$",
                                       r"Iterator::(copied|cloned)$", r"^std::clone::Clone::clone$", r"Option::<.*>::(copied|cloned|as_ref)$"]
_OK_VARIANTS = ("Ok", "Some", "Continue")


def _is_error_def(d):
    bb, si, rv = d
    if si == "term":
        return call_matches(rv, r"FromResidual.*::from_residual$")
    return rv["k"] == "agg" and rv.get("variant") in ("Err", "None", "Break")


def chase(body, o, depth=0):
    """Follow an operand through copies, moves, references, unsizing, `?`/From/Into/into_iter, and success payloads
    (`Ok(x)` built in one place and unwrapped in another, e.g. across an inlined helper's return) to its definition:
        ("call", (bb, term), projs) | ("arg", n, projs) | ("const", operand, projs) | ("rv", (bb, rvalue), projs) | ("multi", local, projs)
    projs = the non-deref projections still applied to that definition (innermost first).  Error-producing definitions of a
    local (`Err(..)`, `from_residual`) are not values that flow on: a local defined once apart from those is single-definition."""
    projs = []
    while depth < 60:
        depth += 1
        if o["k"] == "const":
            return ("const", o, projs)
        pl = o["place"]
        l = pl["l"]
        projs = [e for e in pl["p"] if e["k"] != "deref"] + projs
        if 0 < l <= body.arg_count:
            return ("arg", l, projs)
        ds = body.defs_of(l)
        if len(ds) != 1:
            good = [d for d in ds if not _is_error_def(d)]
            if len(good) != 1:
                return ("multi", l, projs)
            ds = good
        bb, si, rv = ds[0]
        if si == "term":
            if rv["args"] and any(call_matches(rv, rx) for rx in _IDENTITY_CALLS):
                o = rv["args"][0]
                continue
            return ("call", (bb, rv), projs)
        k = rv["k"]
        if k == "use":
            o = rv["a"]
            continue
        if k in ("ref", "rawptr"):
            o = {"k": "copy", "place": rv["place"]}
            continue
        if k == "cast" and rv["ck"].startswith("PointerCoercion"):
            o = rv["a"]
            continue
        if k == "agg" and rv["ak"] == "adt" and rv.get("variant") in _OK_VARIANTS and len(rv["fields"]) == 1 and len(projs) >= 2 \
                and projs[0]["k"] == "downcast" and projs[0].get("variant") in _OK_VARIANTS and projs[1]["k"] == "field" and projs[1]["i"] == 0:
            projs = projs[2:]
            o = rv["fields"][0]
            continue
        return ("rv", (bb, rv), projs)
    return ("multi", -1, projs)


def root_local(body, o, depth=0):
    """the local whose storage an operand (a value or a reference) denotes: `&mut _161`, `&mut (*_179)` -> 161"""
    while depth < 40 and o["k"] != "const":
        depth += 1
        pl = o["place"]
        l = pl["l"]
        if any(e["k"] not in ("deref",) for e in pl["p"]):
            return None
        if 0 < l <= body.arg_count:
            return l
        ds = body.defs_of(l)
        if len(ds) != 1 or ds[0][1] == "term":
            return l
        rv = ds[0][2]
        if rv["k"] in ("ref", "rawptr"):
            o = {"k": "copy", "place": rv["place"]}
        elif rv["k"] == "use" and rv["a"]["k"] != "const":
            o = rv["a"]           # a moved value is the same object; a copied reference points to the same storage
        else:
            return l
    return None


def _payload_projs(projs, extra=()):
    """is the projection list exactly `as Some/Ok/Continue` `.0` followed by the field names in extra"""
    want = 2 + len(extra)
    if len(projs) != want or projs[0]["k"] != "downcast" or projs[0].get("variant") not in _OK_VARIANTS or projs[1]["k"] != "field" or projs[1]["i"] != 0:
        return False
    return all(e["k"] == "field" and e["name"] == nm for e, nm in zip(projs[2:], extra))


def payload_rule(ctx, prog, refs, file_d, site_d, where_d, cmds):
    """(e) on MIR with helpers inlined: one Base64Encoder; it is fed once per item of the image's own iterator (a loop over
    `next()` or a closure given to for_each/try_for_each) with the whole `to_rgba()` array of that item; what is chunked is the
    encoder's finish(); bytes per pixel match the declared format; Shape::nth is row-major."""
    db = prog.inlined(DRAW, multi=True)      # a private helper shared with another caller (e.g. Serialize) is still expanded
    img_args = [l for l in range(1, db.arg_count + 1) if re.match(r"^&(\'\w+ )?image::Image$", db.local_ty(l))]

    def line(t):
        return ["%s:%s" % (file_d, t.get("line"))] if t.get("line") else site_d

    news = [(bb, t) for bb, t in db.calls() if call_matches(t, r"Base64Encoder::<.*>::new$|Base64Encoder::new$")]
    ctx.instance("PAYLOAD", {"encoder_new_blocks": [bb for bb, _ in news], "helpers_inlined": db.j.get("inlined_calls", 0)})
    if len(news) != 1 or news[0][1]["dest"]["p"]:
        ctx.violation("PAYLOAD", where_d, "encoder", "draw does not create exactly one Base64Encoder (found %d)" % len(news), sites=site_d)
        news = []
    enc_new = news[0] if news else None
    enc_l = enc_new[1]["dest"]["l"] if enc_new else None

    # ---- every use of the encoder --------------------------------------------------------------------------
    feeds = []        # (body, bb, term, closure_use | None)
    finishes = []
    other = []

    def classify(body, bb, t, is_enc, via):
        hit = [i for i, a in enumerate(t["args"]) if is_enc(a)]
        if not hit:
            return
        if call_matches(t, r"Base64Encoder::<.*>::finish$|Base64Encoder::finish$") and hit == [0]:
            finishes.append((body, bb, t))
        elif call_matches(t, r"io::Write::write_all$|Write>::write_all$") and hit == [0]:
            feeds.append((body, bb, t, via))
        else:
            other.append((body, bb, t))

    if enc_l is not None:
        for bb, t in db.calls():
            if t is enc_new[1]:
                continue
            classify(db, bb, t, lambda a: a["k"] != "const" and root_local(db, a) == enc_l, None)
        # closures capturing the encoder
        for bb, si, st in db.assigns():
            rv = st["rv"]
            if rv["k"] == "agg" and rv["ak"] == "closure":
                caps = [i for i, f in enumerate(rv["fields"]) if f["k"] != "const" and root_local(db, f) == enc_l]
                cb = prog.body(rv["def"])
                if not caps:
                    continue
                if cb is None or st["place"]["p"]:
                    other.append((db, bb, {"fn": {"path": "closure " + rv["def"]}, "line": st.get("line")}))
                    continue
                # where the closure value goes
                users = [(ub, ut, [i for i, a in enumerate(ut["args"]) if a["k"] != "const" and chase(db, a)[0] == "rv" and chase(db, a)[1][1] is rv])
                         for ub, ut in db.calls()]
                users = [(ub, ut, ix) for ub, ut, ix in users if ix]

                def is_cap(a, caps=caps, cb=cb):
                    if a["k"] == "const":
                        return False
                    r = chase(cb, a)
                    return r[0] == "arg" and r[1] == 1 and len(r[2]) == 1 and r[2][0]["k"] == "field" and r[2][0]["i"] in caps
                for cbb, ct in cb.calls():
                    classify(cb, cbb, ct, is_cap, (users, rv))
    for body, bb, t in other:
        ctx.violation("PAYLOAD", where_d, "encoder-use", "the base64 encoder is passed to %s, which this rule does not understand (fail closed)" % (callee_name(t) or t["fn"].get("path")), sites=line(t))

    # ---- the chunked value is the encoder's finish() ---------------------------------------------------------
    chunk_calls = [(bb, t) for bb, t in db.calls() if call_matches(t, r"^core::slice::<impl \[T\]>::chunks$|\[T\]>::chunks$")]
    fin_ok = False
    what = "?"
    if len(chunk_calls) == 1 and enc_new is not None:
        r = chase(db, chunk_calls[0][1]["args"][0])
        what = callee_name(r[1][1]) if r[0] == "call" else r[0]
        if r[0] == "call" and _payload_projs(r[2]) and any(r[1][1] is f[2] for f in finishes):
            a0 = chase(db, r[1][1]["args"][0])
            fin_ok = a0[0] == "call" and a0[1][1] is enc_new[1] and not a0[2]
    ctx.instance("PAYLOAD", {"chunks_calls": len(chunk_calls), "chunked_value_from": what, "is_finish_of_the_encoder": fin_ok})
    if enc_new is not None and not fin_ok:
        ctx.violation("PAYLOAD", where_d, "chunks-not-of-encoder-output", "the chunked value comes from `%s`, not from the Ok value of `<encoder>.finish()`" % what,
                      sites=line(chunk_calls[0][1]) if chunk_calls else site_d)

    # ---- the feeds: each once per item of the image's iterator, the whole to_rgba() array; alternatives (a fast path and a
    #      general path in the two arms of a branch) are allowed when at most one of them can run ---------------------------
    bpps = set()
    lp = site_d
    if enc_new is not None and not feeds:
        ctx.instance("PAYLOAD", {"feeds": 0})
        ctx.violation("PAYLOAD", where_d, "pixel-loop", "nothing writes into the base64 encoder", sites=site_d)
    drivers = []
    for body, fbb, ft, via in (feeds if enc_new is not None else []):
        lp = line(ft)
        data = chase(body, ft["args"][1])
        rgba = data[1][1] if data[0] == "call" and call_matches(data[1][1], r"Color>::to_rgba$|::to_rgba$") else None
        whole = rgba is not None and not data[2]
        item = chase(body, rgba["args"][0]) if rgba is not None else None
        iter_src = None       # (body, operand) of the iterator that yields the items
        every = False
        form = "?"
        driver = None         # block of draw that runs this feed's iteration
        if item is not None and via is None and item[0] == "call" and call_matches(item[1][1], r"Iterator>::next$|^std::iter::Iterator::next$"):
            nbb, nt = item[1]
            form = "loop over next()"
            driver = nbb
            extra = ()
            src_o = nt["args"][0]
            r = chase(body, src_o)
            if r[0] == "call" and call_matches(r[1][1], r"Iterator::enumerate$") and not r[2]:
                extra = ("1",)
                src_o = r[1][1]["args"][0]
            if _payload_projs(item[2], extra):
                iter_src = (body, src_o)
            ok, wit = body.cfg().must_pass([fbb], exits=[nbb], start=nt["t"])
            every = ok
        elif item is not None and via is not None and item[0] == "arg" and item[1] == body.arg_count and not item[2]:
            users, crv = via
            form = "closure"
            if len(users) == 1 and users[0][2] == [len(users[0][1]["args"]) - 1] and call_matches(users[0][1], r"^std::iter::Iterator::(for_each|try_for_each)$"):
                form = "closure given to " + callee_name(users[0][1]).split("::")[-1]
                iter_src = (db, users[0][1]["args"][0])
                driver = users[0][0]
            ok, wit = body.cfg().must_pass([fbb], start=0)
            every = ok
        itx = None
        if iter_src is not None:
            r = chase(iter_src[0], iter_src[1])
            itx = callee_name(r[1][1]) if r[0] == "call" else r[0]
            if r[0] == "call" and call_matches(r[1][1], r"^surface::Surface::iter$") and not r[2]:
                a = chase(iter_src[0], r[1][1]["args"][0])
                itx = "surface::Surface::iter(%s)" % ("img" if a[0] == "arg" and a[1] in img_args and not a[2] else "?")
        drivers.append(driver)
        ctx.instance("PAYLOAD", {"feed": form, "iterator": itx, "writes": callee_name(data[1][1]) if data[0] == "call" else data[0], "once_per_item": every})
        if itx != "surface::Surface::iter(img)":
            ctx.violation("PAYLOAD", where_d, "pixel-order", "pixels are taken from `%s`, not from the image's row-major iterator `img.iter()`" % itx, sites=lp)
        if not whole or not every:
            ctx.violation("PAYLOAD", where_d, "pixel-bytes", "each item must write exactly the whole `color.to_rgba()` array once; writes %s%s"
                          % ((callee_name(data[1][1]) or "?") + ("".join(flow_proj(e) for e in data[2])) if data[0] == "call" else data[0], "" if every else " (not on every path of an iteration)"), sites=lp)
        if rgba is not None:
            ty = body.local_ty(rgba["dest"]["l"])
            m = re.match(r"^\[u8; (\d+)\]$", ty or "")
            bpps.add(int(m.group(1)) if m else ty)
    if len(drivers) > 1:
        dcfg = db.cfg()
        clash = [(x, y) for i, x in enumerate(drivers) for y in drivers[i + 1:] if x is None or y is None or x == y or y in dcfg.reachable_from(x) or x in dcfg.reachable_from(y)]
        if clash:
            ctx.violation("PAYLOAD", where_d, "pixel-loop", "%d places write into the base64 encoder and more than one of them can run in one draw (blocks %s): pixels would be encoded twice"
                          % (len(drivers), clash[0]), sites=site_d)
    bpp = bpps.pop() if len(bpps) == 1 else (sorted(map(str, bpps)) or None)
    # to_rgba() yields [u8; 4]  <->  f=32
    fvals = {c.keys.get("f") for (_, _, c) in cmds.get(("draw", "transmit-first"), [])}
    ctx.instance("PAYLOAD", {"bytes_per_pixel": bpp, "declared_format": sorted(map(str, fvals))})
    for f in fvals:
        want = refs["pixel_format"].get(f if isinstance(f, str) else "", {}).get("bytes_per_pixel")
        if want is None or want != bpp:
            ctx.violation("PAYLOAD", where_d, "format-vs-pixel-bytes", "declared format f=%s means %s bytes per pixel but the loop writes %s" % (hole_text(f) if f is not None else None, want, bpp), sites=lp)

    # ---- Shape::nth is row-major: every Position it can return is {row: n / width, col: n - row * width | n % width} ------------
    nth = prog.body("surface::Shape::nth")
    found, ok_nth = 0, nth is not None
    if nth is not None:
        try:
            ps = sympath.evaluator(prog.inlined(nth.path) or nth, max_paths=400).paths()
        except sympath.TooManyPaths:
            ps = []
        n, w = ("arg", 2), ("f", ("arg", 1), "width")
        for p in ps:
            if p.end[0] != "return":
                continue
            for st in sympath.subterms(sympath.strip(p.ret)):
                if st[0] == "agg" and st[1].endswith("Position") and st[4] and set(st[4]) == {"row", "col"}:
                    found += 1
                    fs = dict(zip(st[4], st[3]))
                    row, col = fs["row"], fs["col"]
                    ok_row = row == ("bin", "Div", n, w)
                    ok_col = col in (("bin", "Sub", n, ("bin", "Mul", row, w)), ("bin", "Sub", n, ("bin", "Mul", w, row)), ("bin", "Rem", n, w))
                    if not (ok_row and ok_col):
                        ok_nth = False
    ok_nth = ok_nth and found > 0
    ctx.instance("PAYLOAD", {"shape_nth_positions": found, "shape_nth_row_major": ok_nth})
    if not ok_nth:
        ctx.violation("PAYLOAD", "surface::Shape::nth", "not-row-major", "Shape::nth is not `row = n / width; col = n - row * width`")


def sole_immutable_let(fn_item, name):
    """init expression of `let <name> = <init>;` when that is the only binding of the name in the function, it is not `mut`, and the name
    is never assigned, mutably borrowed or bound by another pattern (closure parameter, match arm, loop pattern); else None"""
    lets, other = [], [0]

    def f(n, parents):
        k = n.get("k")
        if k == "let":
            pat = n.get("pat") or {}
            if pat.get("k") == "ident" and pat.get("name") == name and not pat.get("mut") and not pat.get("by_ref") and n.get("init") is not None and n.get("else") is None:
                lets.append(n)
            elif name in T.pat_names(pat):
                other[0] += 1
        elif k in ("assign", "bin") and (k == "assign" or n.get("op") in T.ASSIGN_OPS) and T.canon(n["l"]).split(".")[0].split("[")[0] == name:
            other[0] += 1
        elif k == "ref" and n.get("mut") and "pat" not in n and T.canon(n["e"]).split(".")[0] == name:
            other[0] += 1
        elif k == "closure":
            if any(name in T.pat_names(p_) for p_ in n.get("params", [])):
                other[0] += 1
        elif k in ("for", "letcond") and n.get("pat") is not None and name in T.pat_names(n["pat"]):
            other[0] += 1
        elif k == "match":
            for arm in n.get("arms", []):
                if arm.get("pat") is not None and name in T.pat_names(arm["pat"]):
                    other[0] += 1
    walk(fn_item["body"], f)
    for p_ in fn_item["sig"]["inputs"]:
        if (p_.get("pat") or {}).get("name") == name or p_.get("name") == name:
            other[0] += 1
    return lets[0]["init"] if len(lets) == 1 and not other[0] else None


def flow_proj(e):
    k = e["k"]
    return "." + e["name"] if k == "field" else ("@" + e.get("variant", "?") if k == "downcast" else "<%s>" % k)


# ------------------------------------------------------------------------------------------------
def load_refs():
    return json.load(open(REFS))


def param_env(fn):
    env = {}
    for p in fn["sig"]["inputs"]:
        ty = (p.get("ty") or "").replace(" ", "")
        if not p.get("pat") or p["pat"].get("mut"):
            continue
        if ty in ("&Image", "Image"):
            env[p["pat"]["name"]] = T.mkpath("$img")
        elif ty in ("Position", "Option<Position>"):
            env[p["pat"]["name"]] = T.mkpath("$pos")
    return env


def hole_text(v):
    return v.text() if isinstance(v, T.Hole) else repr(v)


def run(ctx):
    src, prog = ctx.src, ctx.prog
    ctx.explanation = (
        "Decides structural clauses of C11 on the current tree: (a) every byte written by KittyImageHandler::draw/erase lies inside an APC "
        "graphics command ESC _ G <key=value,..> [; payload] ESC \\ on every path, each command has exactly the keys of its reference shape "
        "with the reference literal values (a=t f=32 / a=p C=1 / a=d d=i) and each variable key is fed from the right source (v <- image "
        "height, s <- image width, i <- image id function of the image, p <- placement id function of the position, m <- more flag, payload "
        "<- the chunk); (b) the base64 payload is cut by `.chunks(N)` with N % 4 == 0 and N <= 4096 and the flag is index+1 < number of "
        "chunks; (c) draw, erase and the cache key use the same id functions on the same arguments, the placement id is a two-digit mixed "
        "radix number whose radix equals the low digit's modulus, its inverse uses the same constants and offset, and the largest id fits "
        "the protocol's 32-bit limit; the ids are visibly non-zero; (d) transmission commands occur only on the Entry::Vacant branch of the "
        "cache lookup keyed by the image id, that branch reaches VacantEntry::insert on every Ok path (MIR), the put command ends every Ok "
        "path, an empty image cannot reach the put command without a transmit, handle() removes the cached id before re-drawing (MIR); (e) "
        "the pixel loop iterates the image's own row-major iterator writing to_rgba() = [u8; 4] per pixel into the base64 encoder whose "
        "finish() value is what is chunked, and the declared format is 32. NOT decided: base64 correctness (C14), numeric id ranges beyond "
        "the constant bound, uniqueness of the hash, terminal behaviour.")
    ctx.assume("I/O errors abort the command; functions in hole expressions are pure; Surface::iter is row-major per C07 (only Shape::nth's formula is re-checked here)")
    ctx.trust("refs/kitty_graphics.json", "key table and command shapes written by hand from the kitty graphics protocol specification")

    ctx.rule("FRAMING", "draw/erase: every path consists only of complete APC graphics commands (ESC _ G .. ESC \\)", floor=2)
    ctx.rule("TEMPLATE", "each emitted command has the keys, literal values and argument sources of its reference shape", floor=5)
    ctx.rule("KEYS", "every key=value of every command is in the protocol's key table with a value of the key's domain", floor=21)
    ctx.rule("CHUNK", "chunk size constant (multiple of 4, <= 4096) and continuation flag (index + 1 < count)", floor=2)
    ctx.rule("PAIRING", "draw/erase/cache use the same id functions and arguments; placement id <-> position inverse agree on constants", floor=5)
    ctx.rule("TRANSMIT-ONCE", "transmit only on Entry::Vacant + insert; put on every Ok path; no put without transmit; handle removes before re-draw", floor=5)
    ctx.rule("PAYLOAD", "payload = base64 of row-major RGBA (4 bytes per pixel), format declared 32", floor=5)
    ctx.rule("ID-NONZERO", "image id and placement id cannot be 0 (0 means 'unspecified' in the protocol)", floor=2)

    try:
        refs = load_refs()
    except Exception as e:
        ctx.anchor("TEMPLATE", "refs/kitty_graphics.json", "reference table unreadable: %s" % e)
        return

    fns = {}
    for nm in ("draw", "erase", "handle"):
        r = src.fn(nm, impl_self=HANDLER)
        if r is None:
            ctx.anchor("FRAMING", "%s::%s" % (HANDLER, nm))
            return
        fns[nm] = r
    bodies = {"draw": prog.body(DRAW), "erase": prog.body(ERASE), "handle": prog.body(HANDLE)}
    if any(b is None for b in bodies.values()):
        ctx.anchor("FRAMING", "MIR bodies of KittyImageHandler")
        return

    # ---------------- (a) templates --------------------------------------------------------------
    tmpl = {}
    rows = {}
    shared = {"alias": {}, "bool": {}}
    for nm in ("draw", "erase"):
        file, fn = fns[nm]
        where = "%s::%s" % (HANDLER, nm)
        try:
            ex = KExtractor(src, file, fn, env=param_env(fn), mir=bodies[nm], shared=shared)
            t = rekey(inline_helpers(ex.template(), src, prog, file, HANDLER, shared), shared)
        except T.Unsupported as e:
            ctx.instance("FRAMING", {"fn": where})
            ctx.violation("FRAMING", where, "unsupported-construct", "construct outside the template subset (fail closed): %s" % e, sites=["%s:%d" % (file, fn["line"])])
            continue
        tmpl[nm] = t
        out, problems = [], []
        try:
            commands_of(t, "top", out, problems)
        except T.Unsupported as e:
            problems.append(("top", {}, "unsupported-construct", str(e)))
        rows[nm] = out
        ctx.instance("FRAMING", {"fn": where, "template": t.text()[:400], "paths": len(out)})
        for (cx, val, reason, msg) in problems:
            ctx.violation("FRAMING", where, reason, "%s [%s, %s]: %s" % (where, cx, T.val_text(val), msg), sites=["%s:%d" % (file, fn["line"])])
        for a in T.atoms_in(t):
            if isinstance(a, T.Call):
                ctx.violation("FRAMING", where, "unresolved-helper", "%s passes the sink to %s" % (where, a.text()), sites=["%s:%s" % (file, a.line)])
    if "draw" not in tmpl or "erase" not in tmpl:
        return

    # distinct commands by kind
    cmds = {}     # (fn, kind) -> [(ctx, val, Cmd)]
    for nm in ("draw", "erase"):
        for (cx, val, row, atoms) in rows[nm]:
            for c in row:
                if isinstance(c, Cmd):
                    cmds.setdefault((nm, c.kind if not c.error else "malformed"), []).append((cx, val, c))
    file_d, fn_d = fns["draw"]
    file_e, fn_e = fns["erase"]
    site = {"draw": ["%s:%d" % (file_d, fn_d["line"])], "erase": ["%s:%d" % (file_e, fn_e["line"])]}

    for (nm, kind), lst in sorted(cmds.items()):
        if kind in ("malformed", "unknown"):
            for cx, val, c in lst:
                ctx.violation("TEMPLATE", "%s::%s" % (HANDLER, nm), kind + "-command", "command %s: %s" % (c.text(), c.error or "action not one of t/p/d and no m key"), sites=site[nm])

    # roles discovered from the put command of draw
    put = cmds.get(("draw", "put"), [])
    image_id = placement_id = None
    if put:
        iv, pv = put[0][2].keys.get("i"), put[0][2].keys.get("p")
        if isinstance(iv, T.Hole) and iv.node is not None and iv.node.get("k") == "call" and [T.canon(a) for a in iv.node["args"]] == ["$img"]:
            image_id = iv
        if isinstance(pv, T.Hole) and pv.node is not None and pv.node.get("k") == "call" and [T.canon(a) for a in pv.node["args"]] == ["$pos"]:
            placement_id = pv
    image_id_fn = T.canon(image_id.node["f"]) if image_id else None
    placement_id_fn = T.canon(placement_id.node["f"]) if placement_id else None

    def role_ok(role, v, nm, cx, val, more_key):
        """does value v (str literal or Hole) play the reference role?  returns (ok, expectation text)"""
        if role == "IMAGE_ID":
            return (isinstance(v, T.Hole) and image_id is not None and v.expr == image_id.expr and v.spec == ""), "{%s($img)}" % (image_id_fn or "<image id fn>")
        if role == "PLACEMENT_ID":
            want = "%s(%s)" % (placement_id_fn or "<placement id fn>", "$pos" if nm == "draw" else "$pos.0")
            return (isinstance(v, T.Hole) and placement_id is not None and v.expr == want and v.spec == ""), "{%s}" % want
        if role == "WIDTH":
            return (isinstance(v, T.Hole) and v.expr in ("$img.width()", "$img.size().width", "$img.shape().width") and v.spec == ""), "{$img.width()}"
        if role == "HEIGHT":
            return (isinstance(v, T.Hole) and v.expr in ("$img.height()", "$img.size().height", "$img.shape().height") and v.spec == ""), "{$img.height()}"
        if role == "QUIET":
            if isinstance(v, T.Hole):
                return (v.spec == "" and "$img" not in v.expr and "$pos" not in v.expr), "{quiet level}"
            return v in refs["keys"]["q"]["values"], "0|1|2"
        if role == "MORE":
            if more_key is None:
                return False, "{index + 1 < count} (not inside the chunk loop)"
            if isinstance(v, T.Hole):
                n = v.node
                inner = None
                while n is not None and n.get("k") in ("call", "mcall", "cast"):
                    # bool -> integer conversions print 0/1: `iN::from(b)`, `b as iN`, `b.into()`, `iN::from(b) as iM`
                    if n["k"] == "call" and re.match(r"^(i|u)(\d+|size)::from$", T.canon(n["f"])) and len(n["args"]) == 1:
                        n = inner = n["args"][0]
                    elif n["k"] == "cast" and n["ty"] in T.INT_TYPES:
                        n = inner = n["e"]
                    elif n["k"] == "mcall" and n["m"] == "into" and not n["args"]:
                        n = inner = n["recv"]
                    else:
                        break
                if inner is None or v.spec != "":
                    return False, "{i32::from(index + 1 < count)}"
                p, _ = T.cond_pred(inner)
                return more_key.pred_is_flag(p), "{i32::from(#index + 1 < <chunks>.len())} or an equivalent condition"
            # literal 0/1 selected by a value conditional: must agree with index + 1 < count wherever the valuation holds
            r = more_key.literal_is_flag(v, val)
            return (r is True or r == "infeasible"), "1 iff index + 1 < count"
        return False, role

    nkeys = 0
    for kind, ref in refs["commands"].items():
        nm = "draw" if kind in ("transmit-first", "transmit-cont", "put") else "erase"
        where = "%s::%s" % (HANDLER, nm)
        lst = cmds.get((nm, kind), [])
        ctx.instance("TEMPLATE", {"fn": where, "command": kind, "occurrences": len(lst), "example": lst[0][2].text() if lst else None})
        if not lst:
            ctx.violation("TEMPLATE", where, kind + "-missing", "%s never emits the %s command (%s)" % (where, kind, ref["cite"]), sites=site[nm])
            continue
        seen_keys = set()
        for (cx, val, c) in lst:
            more_key = None
            if cx.startswith("loop:"):
                it = cx[len("loop:"):]
                counts = [it + ".len()"]
                m = re.match(r"^(.*)\.chunks\((.*)\)$", it)
                if m:
                    counts.append("%s.len().div_ceil(%s)" % (m.group(1), m.group(2)))
                more_key = MoreFlag(counts)
            allowed = dict(ref["require"])
            allowed.update(ref.get("optional", {}))
            for key, want in ref["require"].items():
                if key not in c.keys:
                    ctx.violation("TEMPLATE", where, "%s-%s-missing" % (kind, key), "%s lacks required key %s: %s (%s)" % (kind, key, c.text(), ref["cite"]), sites=site[nm])
            for key in c.order:
                v = c.keys[key]
                if (kind, key) not in seen_keys:
                    seen_keys.add((kind, key))
                    nkeys += 1
                    kd = refs["keys"].get(key)
                    ctx.instance("KEYS", {"command": kind, "key": key, "value": hole_text(v)})
                    if kd is None:
                        ctx.violation("KEYS", where, "%s-%s-unknown-key" % (kind, key), "key %s of %s is not a key of the graphics protocol" % (key, c.text()), sites=site[nm])
                    elif isinstance(v, str):
                        okv = (v in kd["values"]) if "values" in kd else bool(re.match(r"^\d+$", v))
                        if okv and kd.get("min") is not None and int(v) < kd["min"]:
                            okv = False
                        if not okv:
                            ctx.violation("KEYS", where, "%s-%s-value" % (kind, key), "value %s of key %s is outside its domain (%s)" % (v, key, kd.get("cite", "")), sites=site[nm])
                if key not in allowed:
                    ctx.violation("TEMPLATE", where, "%s-%s-unexpected" % (kind, key), "%s carries key %s which its reference shape does not allow: %s (%s)" % (kind, key, c.text(), ref["cite"]), sites=site[nm])
                    continue
                want = allowed[key]
                if want.isupper():
                    ok, expect = role_ok(want, v, nm, cx, val, more_key)
                    if not ok:
                        ctx.violation("TEMPLATE", where, "%s-%s" % (kind, key), "%s: key %s must be fed from %s, found %s in %s under [%s] (%s)" % (kind, key, expect, hole_text(v), c.text(), T.val_text(val), ref["cite"]), sites=site[nm])
                elif v != want:
                    ctx.violation("TEMPLATE", where, "%s-%s" % (kind, key), "%s: key %s must be %s, found %s in %s (%s)" % (kind, key, want, hole_text(v), c.text(), ref["cite"]), sites=site[nm])
            # payload
            pl = c.payload
            if ref["payload"] is None:
                if pl:
                    ctx.violation("TEMPLATE", where, kind + "-payload", "%s must not carry a payload: %s" % (kind, c.text()), sites=site[nm])
            else:
                okp = pl is not None and len(pl) == 1 and isinstance(pl[0], T.Raw) and re.match(r"^#item\d*$", pl[0].expr) and cx.startswith("loop:")
                if not okp:
                    ctx.violation("TEMPLATE", where, kind + "-payload", "%s: payload must be exactly the current chunk, found %s" % (kind, c.text()), sites=site[nm])

    # ---------------- (b) chunking ---------------------------------------------------------------
    stars = [a for a in T.atoms_in(tmpl["draw"]) if isinstance(a, T.Star) and T.writes(a.body)]
    chunk_star = stars[0] if len(stars) == 1 else None
    chunk_recv = None
    where = "%s::draw" % HANDLER
    if chunk_star is None:
        ctx.anchor("CHUNK", "chunk-loop", "draw has %d writing loops, expected exactly the chunk loop" % len(stars))
    else:
        n = chunk_star.iter_node

        def strip_enumerate(n):
            while n is not None and n.get("k") == "mcall" and n["m"] in ("enumerate", "into_iter", "by_ref") and not n["args"]:
                n = n["recv"]
            return n
        n = strip_enumerate(n)
        # a hoisted local (`let chunks = payload.chunks(N);`) which the extractor did not substitute (it is careful about every name that is
        # also bound mutably somewhere, e.g. a shadowed `payload`): the size argument is a constant whatever the receiver is, and that the
        # receiver is the encoder's output is decided on MIR by PAYLOAD.  Only an immutable, never re-bound, never assigned local is followed.
        for _ in range(4):
            if n is None or n.get("k") != "path" or "::" in n.get("p", ""):
                break
            init = sole_immutable_let(fn_d, n["p"])
            if init is None:
                break
            n = strip_enumerate(init)
        size = None
        if n is not None and n.get("k") == "mcall" and n["m"] == "chunks" and len(n["args"]) == 1:
            a = n["args"][0]
            chunk_recv = n["recv"]
            if a.get("k") == "lit" and a["t"] == "int":
                size = int(a["v"])
            elif a.get("k") == "path":
                c = src.const(a["p"].split("::")[-1])
                if c and c[1]["expr"].get("k") == "lit" and c[1]["expr"]["t"] == "int":
                    size = int(c[1]["expr"]["v"])
        if size is None and chunk_recv is not None:
            # named / computed constant: rustc has evaluated the argument
            ks = {op_const_int(t["args"][1]) for bb, t in (prog.inlined(DRAW, multi=True) or bodies["draw"]).calls() if call_matches(t, r"\[T\]>::chunks$") and len(t["args"]) == 2}
            if len(ks) == 1:
                size = ks.pop()
        ctx.instance("CHUNK", {"loop": chunk_star.iter_text, "size": size})
        ln = ["%s:%s" % (file_d, chunk_star.line)]
        if size is None:
            ctx.violation("CHUNK", where, "chunk-size-unknown", "the transmit loop does not iterate `<payload>.chunks(<constant>)`: %s" % chunk_star.iter_text, sites=ln)
        else:
            if size <= 0 or size % refs["chunking"]["multiple_of"] != 0:
                ctx.violation("CHUNK", where, "chunk-size-not-multiple-of-4", "chunks(%d): every chunk but the last must be a multiple of 4 base64 bytes (%s)" % (size, refs["chunking"]["cite"]), sites=ln)
            if size > refs["chunking"]["max"]:
                ctx.violation("CHUNK", where, "chunk-size-exceeds-4096", "chunks(%d) exceeds the protocol's 4096 byte limit (%s)" % (size, refs["chunking"]["cite"]), sites=ln)
        # the continuation flag itself is checked as role MORE of key m; count it as an instance here
        ms = [c.keys.get("m") for (cx, val, c) in cmds.get(("draw", "transmit-first"), []) + cmds.get(("draw", "transmit-cont"), [])]
        ctx.instance("CHUNK", {"more_flag": sorted({hole_text(m) for m in ms if m is not None})})
        if not ms or any(m is None for m in ms):
            ctx.violation("CHUNK", where, "more-flag-missing", "a transmit command has no m key", sites=ln)

    # ---------------- (c) pairing ----------------------------------------------------------------
    where_d, where_e = "%s::draw" % HANDLER, "%s::erase" % HANDLER
    cg = prog.callgraph()
    for role, fnname, hole in (("image-id", image_id_fn, image_id), ("placement-id", placement_id_fn, placement_id)):
        ctx.instance("PAIRING", {"role": role, "function": fnname})
        if hole is None:
            ctx.violation("PAIRING", where_d, role + "-source", "the put command's %s is not `<fn>(%s)` of a crate function" % ("i" if role == "image-id" else "p", "$img" if role == "image-id" else "$pos"), sites=site["draw"])
            continue
        path = "image::" + fnname.split("::")[-1]
        b = prog.body(path)
        if b is None:
            ctx.violation("PAIRING", where_d, role + "-source", "id function %s has no MIR body" % path, sites=site["draw"])
            continue
        callers = set()
        todo = [path]
        while todo:
            for c in cg.callers(todo.pop()):
                cb = prog.body(c)
                root = (cb.closure_root or cb.path) if cb is not None else c
                if root not in callers:
                    callers.add(root)
                    rb = prog.body(root)
                    # a private free function / inherent method that only serves one caller is part of that caller
                    if rb is not None and rb.kind in ("Fn", "AssocFn") and not rb.impl_trait and len({(prog.body(x).closure_root or x) if prog.body(x) is not None else x for x in cg.callers(root)}) == 1:
                        todo.append(root)
        for need, w, nm in ((DRAW, where_d, "draw"), (ERASE, where_e, "erase")):
            if need not in callers:
                ctx.violation("PAIRING", w, role + "-not-called", "%s does not call %s, which %s uses for the %s" % (nm, path, "draw" if nm == "erase" else "erase", role), sites=site[nm])
    # the cache key is the image id
    cache_keys = set()
    vs = {}
    T.collect_vars(tmpl["draw"], vs, deep=True)
    for k in vs:
        m = re.match(r"^v:(self\.\w+)\.entry\((.*)\)$", k)
        if m:
            cache_keys.add((m.group(1), m.group(2), k, "Vacant"))
        # the same lookup spelled `if !self.<cache>.contains_key(&id) { ..; self.<cache>.insert(id, ..) }`
        m = re.match(r"^b:(self\.\w+)\.contains_key\((.*)\)$", k)
        if m:
            cache_keys.add((m.group(1), m.group(2), k, "F"))
    ctx.instance("PAIRING", {"cache_lookup": sorted(k[2] for k in cache_keys)})
    cache_var = cache_absent = None
    if len(cache_keys) != 1:
        ctx.violation("PAIRING", where_d, "cache-lookup", "draw does not branch on exactly one `self.<cache>.entry(<id>)` / `.contains_key(<id>)` lookup (found %d)" % len(cache_keys), sites=site["draw"])
    else:
        field, keyexpr, cache_var, cache_absent = list(cache_keys)[0]
        if image_id is None or keyexpr != image_id.expr:
            ctx.violation("PAIRING", where_d, "cache-key", "the cache is keyed by %s but commands identify the image by %s" % (keyexpr, image_id.expr if image_id else "?"), sites=site["draw"])

    # placement id function and its inverse (MIR shape)
    fwd = prog.body("image::" + placement_id_fn.split("::")[-1]) if placement_id_fn else None
    inv = None
    hb = prog.inlined(HANDLE) or bodies["handle"]
    inv_names = set()
    for b2 in [hb] + [prog.body(p) for p in cg.edges.get(HANDLE, ()) if prog.body(p) is not None and "closure" in p]:
        for bb, t in b2.calls():
            for a in t["args"]:
                if a["k"] == "const" and "fn" in a["c"] and a["c"]["fn"]["path"].startswith("image::"):
                    inv_names.add(a["c"]["fn"]["path"])
            if call_matches(t, r"^image::\w+$") and len(t["args"]) == 1:
                inv_names.add(callee_name(t))       # whatever it is called: what makes it the inverse is `-> Position` (below)
    inv_names = {n for n in inv_names if prog.body(n) is not None and prog.body(n).local_ty(0) == "terminal::Position"}
    ctx.instance("PAIRING", {"placement_id": fwd.path if fwd else None, "inverse": sorted(inv_names)})
    mr = None
    if fwd is None:
        ctx.violation("PAIRING", where_d, "placement-id-shape", "placement id function not found", sites=site["draw"])
    else:
        fps = return_paths(prog, fwd)
        ft = fps[0][1] if fps else ("?",)
        mrs = [mixed_radix(tr) for _, tr in fps]
        mr = mrs[0] if mrs and all(m == mrs[0] for m in mrs) else None
        floc = [fwd.loc] if hasattr(fwd, "loc") else []
        if mr is None:
            ctx.violation("PAIRING", fwd.path, "placement-id-shape", "placement id is not `[c +] (a %% D) + (b %% D') * M`: %s" % tree_text(ft), sites=floc)
        else:
            (lf, ld, _), (hf, hd, hm) = mr["low"], mr["high"]
            if hm != ld:
                ctx.violation("PAIRING", fwd.path, "radix-differs-from-modulus", "low digit is %s %% %d but the high digit is multiplied by %d: ids of different positions collide or leave gaps" % (lf, ld, hm), sites=floc)
            top = mr["off"] + (ld - 1) + (hd - 1) * hm
            if top > refs["keys"]["p"]["max"]:
                ctx.violation("PAIRING", fwd.path, "exceeds-max-id", "largest placement id %d exceeds the protocol limit %d" % (top, refs["keys"]["p"]["max"]), sites=floc)
            if {lf, hf} != {"row", "col"}:
                ctx.violation("PAIRING", fwd.path, "placement-id-shape", "placement id does not combine pos.row and pos.col: %s" % tree_text(ft), sites=floc)
        if len(inv_names) != 1:
            ctx.violation("PAIRING", HANDLE, "inverse-not-found", "handle does not map the reported placement id back with exactly one image::*placement* function (found %s)" % sorted(inv_names))
        elif mr is not None:
            inv = prog.body(list(inv_names)[0])
            iloc = [inv.loc] if hasattr(inv, "loc") else []
            (lf, ld, _), (hf, hd, hm) = mr["low"], mr["high"]
            # every returning path that an id produced by the forward function (id >= offset) can take must undo it
            ips = [(fs, it) for fs, it in return_paths(prog, inv) if not excluded_by_lower_bound(fs, 1, mr["off"])]
            bad = None if ips else "no returning path of the inverse is understood"
            for fs, it in ips:
                okshape = it[0] == "adt" and it[1].startswith("terminal::Position")
                fields = dict(it[2]) if okshape else {}
                lo, hi = fields.get(lf), fields.get(hf)
                if not okshape or lo is None or hi is None:
                    bad = "inverse does not build Position{row, col}: %s" % tree_text(it)
                else:
                    if not (lo[0] == "rem" and lo[2] == ("const", ld)):
                        bad = "%s must be (id - %d) %% %d, found %s" % (lf, mr["off"], ld, tree_text(lo))
                    else:
                        x, off = strip_offset(lo[1], mr["off"])
                        if off != mr["off"] or x != ("arg", 1):
                            bad = "%s must be (id - %d) %% %d, found %s" % (lf, mr["off"], ld, tree_text(lo))
                    if bad is None:
                        h = hi
                        if h[0] == "rem" and h[2][0] == "const":
                            h = h[1]
                        if not (h[0] == "div" and h[2] == ("const", hm)):
                            bad = "%s must be (id - %d) / %d, found %s" % (hf, mr["off"], hm, tree_text(hi))
                        else:
                            x, off = strip_offset(h[1], mr["off"])
                            if off != mr["off"] or x != ("arg", 1):
                                bad = "%s must be (id - %d) / %d, found %s" % (hf, mr["off"], hm, tree_text(hi))
                if bad:
                    break
            if bad:
                ctx.violation("PAIRING", inv.path, "inverse-disagrees", "placement id is %s but its inverse differs: %s" % (tree_text(ft), bad), sites=iloc)
    # erase addresses the placement of the same position argument: role PLACEMENT_ID above compares `fn($pos.0)`; count it
    dp = cmds.get(("erase", "delete-placement"), [])
    ctx.instance("PAIRING", {"erase_placement": [hole_text(c.keys.get("p")) for _, _, c in dp][:2], "erase_when": [T.val_text(v) for _, v, _ in dp][:2]})
    for (cx, val, c) in dp:
        if val.get("v:$pos") != "Some":
            ctx.violation("PAIRING", where_e, "placement-without-position", "erase addresses a placement on a path where no position was given [%s]" % T.val_text(val), sites=site["erase"])
    for (cx, val, row, atoms) in rows["erase"]:
        kinds = [c.kind for c in row if isinstance(c, Cmd)]
        want = {"Some": ["delete-placement"], "None": ["delete-image"]}.get(val.get("v:$pos"))
        if want is not None and kinds != want:
            ctx.violation("PAIRING", where_e, "erase-shape", "erase with position %s must emit exactly %s, emits %s" % (val.get("v:$pos"), want, kinds), sites=site["erase"])

    # ---------------- ID-NONZERO -----------------------------------------------------------------
    for role, fnname in (("image id", image_id_fn), ("placement id", placement_id_fn)):
        b = prog.body("image::" + fnname.split("::")[-1]) if fnname else None
        if b is None:
            ctx.instance("ID-NONZERO", {"role": role})
            ctx.anchor("ID-NONZERO", role.replace(" ", "-") + "-function")
            continue
        rps = return_paths(prog, b)
        tr = rps[0][1] if rps else ("?",)
        nz = bool(rps) and all(visibly_nonzero(x) for _, x in rps)
        ctx.instance("ID-NONZERO", {"fn": b.path, "value": tree_text(tr), "visibly_nonzero": nz, "returning_paths": len(rps)})
        if not nz:
            ctx.violation("ID-NONZERO", b.path, "may-be-zero",
                          "the %s is %s, which can be 0; the protocol reads 0 as 'unspecified' (%s)" % (role, tree_text(tr), refs["keys"]["i" if role == "image id" else "p"]["cite"]),
                          sites=[b.loc] if hasattr(b, "loc") else [])

    # ---------------- (d) transmit once ----------------------------------------------------------
    draw_b = prog.inlined(DRAW, multi=True) or bodies["draw"]      # bookkeeping moved into a private helper is still draw's
    # d1: transmit commands only under the Vacant valuation of the cache variable
    n_tx = 0
    bad_tx = []
    for (cx, val, row, atoms) in rows["draw"]:
        if cx != "top":
            continue
        has_loop = any(isinstance(c, T.Star) for c in row)
        has_tx = any(isinstance(c, Cmd) and c.kind in ("transmit-first", "transmit-cont") for c in row)
        if has_loop or has_tx:
            n_tx += 1
            if cache_var is None or val.get(cache_var) != cache_absent:
                bad_tx.append(T.val_text(val))
    ctx.instance("TRANSMIT-ONCE", {"transmitting_paths": n_tx, "cache_var": cache_var})
    if bad_tx:
        ctx.violation("TRANSMIT-ONCE", where_d, "transmit-when-cached", "pixel data is transmitted on a path where the image is already in the cache: [%s]" % "; ".join(bad_tx), sites=site["draw"])
    if n_tx == 0:
        ctx.violation("TRANSMIT-ONCE", where_d, "never-transmits", "no path of draw transmits pixel data", sites=site["draw"])
    # d2: MIR — Vacant branch must pass VacantEntry::insert before any Ok return
    cache_field = list(cache_keys)[0][0].split(".")[-1] if len(cache_keys) == 1 else "imgs"
    vac_blocks = []
    ins_alt = []
    if cache_absent == "F":
        # contains_key form: the absent branch is the false edge of the test; the insert is HashMap::insert with the same key
        on_cache = lambda t: bool(re.search(r"\.%s$" % re.escape(cache_field), arg_place(draw_b, t, 0) or ""))
        for bb, t in draw_b.calls():
            if call_matches(t, r"HashMap::<.*>::contains_key$") and on_cache(t) and not t["dest"]["p"]:
                cur, neg, x = t["dest"]["l"], False, t["t"]
                for _ in range(8):
                    blk = draw_b.blocks[x]
                    for st in blk["stmts"]:
                        if st["k"] == "assign" and not st["place"]["p"] and st["rv"]["k"] == "un" and st["rv"]["op"] == "Not" and op_local(st["rv"]["a"]) == cur:
                            cur, neg = st["place"]["l"], not neg
                        elif st["k"] == "assign" and not st["place"]["p"] and st["rv"]["k"] == "use" and op_local(st["rv"]["a"]) == cur:
                            cur = st["place"]["l"]
                    tm = blk["term"]
                    if tm["k"] == "switch" and op_local(tm["d"]) == cur and tm["vals"] == ["0"]:
                        vac_blocks.append(tm["otherwise"] if neg else tm["targets"][0])
                        break
                    if tm["k"] != "goto":
                        break
                    x = tm["t"]
                key = expr(draw_b, t["args"][1])
                ins_alt += [b2 for b2, t2 in draw_b.calls() if call_matches(t2, r"HashMap::<.*>::insert$") and on_cache(t2) and expr(draw_b, t2["args"][1]) == key]
    for i, si, s in draw_b.assigns() if cache_absent != "F" else ():
        rv = s["rv"]
        if rv["k"] == "use" and rv["a"]["k"] in ("copy", "move"):
            pr = rv["a"]["place"]["p"]
            if any(e["k"] == "downcast" and e.get("variant") == "Vacant" for e in pr):
                vac_blocks.append(i)
    ins = ins_alt + [bb for bb, t in draw_b.calls() if call_matches(t, r"VacantEntry::<.*>::(insert|insert_entry)$") or call_matches(t, r"hash_map::VacantEntry.*::insert")]
    okret = ok_return_blocks(draw_b)
    ctx.instance("TRANSMIT-ONCE", {"vacant_blocks": vac_blocks, "insert_blocks": ins, "ok_returns": sorted(okret)})
    if len(vac_blocks) != 1:
        ctx.violation("TRANSMIT-ONCE", DRAW, "vacant-branch", "draw does not have exactly one branch for an image that is not in the cache (Entry::Vacant / !contains_key) in MIR (found %d)" % len(vac_blocks), sites=site["draw"])
    else:
        ok, wit = draw_b.cfg().must_pass(ins, exits=okret, start=vac_blocks[0])
        if not ins or not ok:
            ctx.violation("TRANSMIT-ONCE", DRAW, "vacant-without-insert",
                          "an Ok path from the Entry::Vacant branch returns without VacantEntry::insert: the image would be transmitted again on the next draw (blocks %s)" % (wit,), sites=site["draw"])
    # d3: put is the last command of every Ok path and occurs once
    nput = 0
    for (cx, val, row, atoms) in rows["draw"]:
        if cx != "top":
            continue
        kinds = [c.kind if isinstance(c, Cmd) else "loop" for c in row]
        if not kinds and any(isinstance(a, T.Exit) for a in atoms):
            continue        # silent early return (nothing drawn, nothing placed)
        nput += 1
        if kinds.count("put") != 1 or kinds[-1] != "put":
            ctx.violation("TRANSMIT-ONCE", where_d, "put-not-on-every-path", "an Ok path of draw [%s] emits %s instead of ending with exactly one put command" % (T.val_text(val), kinds), sites=site["draw"])
    ctx.instance("TRANSMIT-ONCE", {"ok_paths_with_put": nput})
    for (cx, val, row, atoms) in rows["draw"]:
        if cx.startswith("loop:") and any(isinstance(c, Cmd) and c.kind == "put" for c in row):
            ctx.violation("TRANSMIT-ONCE", where_d, "put-inside-loop", "the put command is emitted per chunk", sites=site["draw"])
    # d4: every placement refers to a transmitted image: the transmit loop may run zero times (empty payload)
    guard = False
    top = tmpl["draw"].body if isinstance(tmpl["draw"], T.Scope) else tmpl["draw"]
    items = top.items if isinstance(top, T.Seq) else [top]
    for it in items:
        if isinstance(it, T.Alt):
            keys = {}
            for p, b in it.branches:
                T.pred_vars(p, keys)
            if cache_var in keys:
                break
            exits = any(any(isinstance(a, T.Exit) for a in T.atoms_in(b, into_loops=False)) and not T.writes(b) for p, b in it.branches)
            if exits and any("$img" in k for k in keys):
                guard = True
    tx_outside_loop = any(cx == "top" and any(isinstance(c, Cmd) and c.kind == "transmit-first" for c in row) for (cx, val, row, atoms) in rows["draw"])
    ctx.instance("TRANSMIT-ONCE", {"empty_image_guard": guard, "transmit_outside_loop": tx_outside_loop})
    if not guard and not tx_outside_loop:
        ctx.violation("TRANSMIT-ONCE", where_d, "empty-image-put-without-transmit",
                      "all transmit commands are inside `for .. in %s`, which runs zero times for an image with no pixels, yet the put command (and the cache insert) "
                      "still happen: the placement refers to an image id that was never transmitted" % (chunk_star.iter_text if chunk_star else "?"), sites=site["draw"])
    # d5: handle removes the cached id before re-drawing (MIR)
    hcfg = hb.cfg()
    draws = [bb for bb, t in hb.calls() if call_matches(t, r"ImageHandler>::draw$|KittyImageHandler::draw$")]
    removes = [bb for bb, t in hb.calls() if call_matches(t, r"HashMap::<.*>::(remove|remove_entry)$") and re.search(r"\.%s$" % re.escape(cache_field), arg_place(hb, t, 0) or "")]
    ctx.instance("TRANSMIT-ONCE", {"handle_draw_blocks": draws, "handle_remove_blocks": removes})
    if not draws:
        ctx.violation("TRANSMIT-ONCE", HANDLE, "no-redraw", "handle never re-draws after an error response")
    for d in draws:
        if not any(hcfg.dominates(r, d) for r in removes):
            ctx.violation("TRANSMIT-ONCE", HANDLE, "redraw-without-remove", "handle re-draws an image without first removing its id from the cache: draw would skip the transmission")
    # every error response invalidates the cached id, with or without a placement: the `error.is_some()` edge must lead to the removal on all paths
    err_tests = []
    for bb, t in hb.calls():
        if call_matches(t, r"Option::<T>::(is_some|is_none)$") and re.search(r"KittyImage\.error$|\.error$", expr(hb, t["args"][0])):
            sw = hb.blocks[t["t"]]["term"]
            if sw["k"] == "switch" and sw["vals"] == ["0"] and op_local(sw["d"]) == t["dest"]["l"]:
                err_tests.append((t["t"], sw["otherwise"] if call_matches(t, r"is_some$") else sw["targets"][0]))
    if not err_tests:
        # `if let Some(..) = error` / match forms: a discriminant switch over the error field
        for x, blk in enumerate(hb.blocks):
            sw = blk["term"]
            if sw["k"] == "switch" and re.fullmatch(r"discr\(.*\.error\)", expr(hb, sw["d"])):
                yes = [tg for v, tg in zip(sw["vals"], sw["targets"]) if v == "1"] or ([sw["otherwise"]] if sw["vals"] == ["0"] else [])
                err_tests += [(x, y) for y in yes]
    if not err_tests:
        ctx.anchor("TRANSMIT-ONCE", "handle/error-test", "cannot find the test of the response's error field in handle()")
    for x, y in err_tests:
        ok, wit = hcfg.must_pass(removes, start=y, exits=hcfg.returns) if removes else (False, None)
        ctx.instance("TRANSMIT-ONCE", {"error_edge": "bb%d->bb%d" % (x, y), "cache_removed_on_every_path": ok})
        if not ok:
            ctx.violation("TRANSMIT-ONCE", HANDLE, "error-without-remove", "an error response can be handled without removing the image id from the cache (path %s): "
                          "a failed transmission (error without placement) leaves the id cached and later draws only place an image the terminal never received" % wit)

    # ---------------- (e) payload ----------------------------------------------------------------
    payload_rule(ctx, prog, refs, file_d, site["draw"], where_d, cmds)

    ctx.exhaustive = False
    obligations(ctx)


def obligations(ctx):
    """HOOK for the numeric POST conditions of C11 (1 <= image id, placement id <= 2^32-1 for all inputs; injectivity for
    coordinates < KITTY_MAX_DIM) to be discharged by the abstract interpreter / bit-provenance engine; not implemented here."""
    pass
