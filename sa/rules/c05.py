"""C05 — encoded commands mean what was commanded: part (a) template agreement of `TTYEncoder::encode`
with refs/ecma48_cmds.json and framing completeness of every path (DESIGN.md §5 C05).

Part (b) (no panic on extreme values: the `-col`, `+ 1` overflow obligations) is NOT here: see `obligations`."""
import json
import os
import re

from .. import templates as T

CLAIM = {
    "text": "For each of the 27 TerminalCommand variants the output template of its TTYEncoder::encode arm (every branch valuation; helpers "
            "inlined, lets and pattern bindings substituted) equals the reference template written from ECMA-48 / xterm ctlseqs / kitty "
            "keyboard protocol: literal bytes and final bytes, hole expressions (row+1, col+1, negated deltas), format specs (two hex digits "
            "per byte for XTGETTCAP), DEC private marker, OSC/DCS framing with ST, alt-screen keyboard-level bracketing under "
            "caps.kitty_keyboard, empty output for Image/ImageErase; variant field types are those the holes assume; every path is a "
            "concatenation of complete control sequences with no non-I/O exit inside one; DecMode discriminants equal xterm's mode numbers; (b) every overflow/negation/bounds/unwrap obligation reachable from TTYEncoder::encode is discharged (abstract interpretation, "
            "CHUNKS-INV and FINITE-COLOR lemmas). "
            "Not decided: the SGR parameter table (C06; only CSI..m framing and ';' joining), colour reduction (C20), absence of panics on "
            "extreme values (clause (b), hook `obligations` left for the abstract interpreter), control bytes in the ground-state payloads of "
            "Char/Raw (values inside OSC/DCS strings are classified: numeric, hex, trusted Display or control-filtered characters), "
            "what a real terminal does beyond the reference templates.",
    "technique": "output-template extraction from the syntax tree (template language per path), comparison with hand-written reference "
                 "templates over all branch valuations, ECMA-48 framing automaton on templates, enum discriminant table; abstract interpretation "
                 "of MIR for the panic obligations",
    "design_ref": "DESIGN.md §5 C05 (a); §4 output templates, reference tables",
}

REFS = os.path.join(os.path.dirname(os.path.dirname(os.path.abspath(__file__))), "refs", "ecma48_cmds.json")

ENUM = "TerminalCommand"
ENUM_PATH = "terminal::TerminalCommand"
N_VARIANTS = 27      # counted by hand in src/terminal.rs on the pinned tree
N_DECMODES = 9


def load_refs():
    d = json.load(open(REFS))
    rows = {}
    for r in d["commands"]:
        if r["variant"] in rows:
            raise ValueError("duplicate reference row " + r["variant"])
        alts = r["any_of"] if "any_of" in r else [r["template"]]
        r["_alts"] = [T.ref_template(a) for a in alts]
        rows[r["variant"]] = r
    return d, rows


def field_type(prog, refs, variant, path):
    """type of `$.a.b` for a variant of TerminalCommand from the MIR ADT facts"""
    adt = prog.adts.get(ENUM_PATH)
    v = [x for x in adt["variants"] if x["name"] == variant]
    if not v:
        return None
    parts = path.split(".")[1:]
    fields = {f["name"]: f["ty"] for f in v[0]["fields"]}
    ty = None
    for i, p in enumerate(parts):
        if p not in fields:
            return None
        ty = fields[p]
        if i + 1 < len(parts):
            a = prog.adts.get(ty)
            if a is None:
                m = re.match(r"^std::option::Option<(.*)>$", ty)
                if m and parts[i + 1] == "0":
                    fields = {"0": m.group(1)}
                    continue
                return None
            if a["kind"] == "Struct":
                fields = {f["name"]: f["ty"] for f in a["variants"][0]["fields"]}
            else:
                # payload of an enum: `$.name.0` -> the single variant that has such a field
                cands = [vv for vv in a["variants"] if any(f["name"] == parts[i + 1] for f in vv["fields"])]
                if len(cands) != 1:
                    return None
                fields = {f["name"]: f["ty"] for f in cands[0]["fields"]}
    return ty


def make_resolver(src, impl_self):
    st = src.struct(impl_self)
    ftypes = {}
    if st:
        for f in st[1]["fields"]:
            ftypes[f["name"]] = re.sub(r"^&(mut)?", "", f["ty"])

    def resolver(call):
        if call.recv == "self":
            return src.fn(call.name, impl_self=re.escape(impl_self))
        m = re.match(r"^self\.(\w+)$", call.recv or "")
        if m and m.group(1) in ftypes:
            return src.fn(call.name, impl_self=re.escape(ftypes[m.group(1)]))
        return None
    return resolver


def pattern_cases(pat):
    """[(variant name or None for catch-all, case pattern)]"""
    k = pat.get("k")
    if k == "or":
        out = []
        for c in pat["cases"]:
            out += pattern_cases(c)
        return out
    if k in ("tstruct", "struct"):
        return [(pat["path"].split("::")[-1], pat)]
    if k == "path":
        return [(pat["p"].split("::")[-1], pat)]
    if k == "ident" and not pat.get("sub"):
        if pat["name"][:1].isupper():
            return [(pat["name"], pat)]
        return [(None, pat)]
    if k == "wild":
        return [(None, pat)]
    raise T.Unsupported("arm pattern %s" % T.pat_text(pat))


def check_complete(t, where, report):
    """every valuation of template t is a concatenation of complete sequences / ground text"""
    n = 0
    for val in T.valuations([t]):
        try:
            atoms = T.evaluate(t, val)
        except T.Undefined:
            continue
        n += 1
        for a in atoms:
            if isinstance(a, T.Call):
                report("unresolved-helper", "helper call %s receives the sink and could not be inlined" % a.text(), a.line)

        def nested(a):
            for b in ([a.sep, a.item] if isinstance(a, T.Join) else [a.body]):
                check_complete(b, where, report)
        try:
            T.split_sequences(atoms, nested_ground=nested)
        except T.Malformed as e:
            report(e.reason, "under [%s] the arm writes %s: %s" % (T.val_text(val), T.seq_text(atoms), e), None)
    return n


HEX_SPEC = re.compile(r"^0?\d*[xXob]$")


def _sanitising_filter(node):
    """iterator expression contains `.filter(|c| !c.is_control())` (any parameter name, `&c`/`*c` tolerated)"""
    hit = [False]

    def f(n, parents):
        if n.get("k") == "mcall" and n["m"] == "filter" and len(n["args"]) == 1 and n["args"][0].get("k") == "closure":
            body = n["args"][0]["body"]
            if re.match(r"^!\w+\.is_control\(\)$", T.canon(body)):
                hit[0] = True
    from ..src import walk
    walk(node, f)
    return hit[0]


def payload_class(prog, refdoc, variant, atom, loops):
    """('safe'|'string'|'unknown', reason) for a hole written inside a control string"""
    sp = refdoc["string_payload"]
    if isinstance(atom, T.Hole) and HEX_SPEC.match(atom.spec or ""):
        return "safe", "radix format of an integer writes digits only"
    expr = atom.expr
    kinds = []
    for m in re.finditer(r"#(?:item|index|pair)(\d*)", expr):
        depth = int(m.group(1) or "1")
        lp = loops[depth - 1] if 0 < depth <= len(loops) else None
        if m.group(0).startswith("#index"):
            kinds.append(("safe", "loop index"))
        elif lp is None or getattr(lp, "iter_node", None) is None:
            kinds.append(("unknown", "loop item of an unknown loop"))
        else:
            it = T.canon(lp.iter_node)
            if re.search(r"\.(as_bytes|bytes)\(\)", it) and isinstance(atom, T.Hole):
                kinds.append(("safe", "u8 printed as a number"))
            elif re.search(r"\.chars\(\)", it):
                kinds.append(("safe", "characters filtered by !is_control()") if _sanitising_filter(lp.iter_node) else ("string", "characters of a string"))
            else:
                kinds.append(("unknown", "loop item of `%s`" % it))
    for m in re.finditer(r"\$(?:\.\w+)+", expr):
        path = m.group(0)
        ty = None
        parts = path.split(".")
        # longest prefix that is a declared field path (method names may follow)
        for n in range(len(parts), 1, -1):
            ty = field_type(prog, refdoc, variant, ".".join(parts[:n]))
            if ty is not None:
                rest = parts[n:]
                break
        if ty is None:
            kinds.append(("unknown", "type of %s" % path))
        elif ty in sp["numeric"] or (prog.adts.get(ty, {}).get("kind") == "Enum" and re.search(r"\bas (%s)\b" % "|".join(T.INT_TYPES), expr)):
            kinds.append(("safe", "%s is numeric" % ty))
        elif ty in sp["safe_display"]:
            kinds.append(("safe", sp["safe_display"][ty]))
        elif ty in sp["string_like"]:
            kinds.append(("string", "%s: %s" % (path, ty)))
        else:
            kinds.append(("unknown", "%s: %s" % (path, ty)))
    if not kinds:
        if re.match(r"^[A-Za-z_][\w:]*$", expr) and expr.split("::")[-1].isupper():
            return "safe", "named constant"
        return "unknown", "expression `%s`" % expr
    for cls in ("string", "unknown", "safe"):
        for k, why in kinds:
            if k == cls:
                return k, why
    return "unknown", expr


def string_payloads(t, found, loops=()):
    """(sequence kind, atom, enclosing loops) for every hole/raw written inside a control string, any valuation"""
    for val in T.valuations([t]):
        try:
            atoms = T.evaluate(t, val)
        except T.Undefined:
            continue
        nested = []
        try:
            seqs = T.split_sequences(atoms, nested_ground=lambda a: nested.append(a))
        except T.Malformed:
            continue          # reported by COMPLETE
        for a in nested:
            for b in ([a.sep, a.item] if isinstance(a, T.Join) else [a.body]):
                string_payloads(b, found, loops + (a.star if isinstance(a, T.Join) else a,))
        for sq in seqs:
            if sq.kind not in ("OSC", "DCS", "APC", "PM", "SOS"):
                continue

            def visit(parts, lps):
                for p in parts:
                    if isinstance(p, (T.Hole, T.Raw)):
                        found.append((sq.kind, p, lps))
                    elif isinstance(p, T.Join):
                        inner = lps + (p.star,)
                        visit([x for x in T.atoms_in(p.sep, into_loops=False)], inner)
                        visit([x for x in T.atoms_in(p.item, into_loops=False)], inner)
                    elif isinstance(p, T.Star):
                        visit([x for x in T.atoms_in(p.body, into_loops=False)], lps + (p,))
            visit(sq.parts, loops)


def run(ctx):
    src, prog = ctx.src, ctx.prog
    ctx.explanation = (
        "Decides C05(a): for every variant of TerminalCommand the output template of its `TTYEncoder::encode` arm (helpers kitty_level and "
        "Chunks::drain inlined, immutable lets and pattern bindings substituted) equals the reference template written from ECMA-48 / xterm "
        "ctlseqs / kitty keyboard protocol on every valuation of the branch conditions: literal bytes, hole expressions (row+1, col+1, "
        "negation on the Less branches, final bytes), format specs (two-digit hex for XTGETTCAP), DEC private marker, OSC/DCS framing; the "
        "declared field types of the variants are those the decimal/Display holes assume; every path is a concatenation of complete "
        "control sequences with no non-I/O failure exit inside a sequence; DecMode discriminants equal the xterm mode numbers. "
        "NOT decided: the SGR parameter table of Face/FaceModify (C06; only CSI..m framing and ';' joining here), colour depth reduction "
        "(C20), behaviour of a real terminal beyond "
        "the reference templates, control bytes inside the ground-state payloads of Char/Raw. Values written inside OSC/DCS strings are "
        "classified (STRING-PAYLOAD): numeric / hex / trusted Display / control-filtered characters pass, raw strings are reported.")
    ctx.assume("I/O errors of the sink abort the command: Err paths of write!/write_all are not part of the template language")
    ctx.assume("functions called inside hole expressions are pure; Display of usize/i32/char/String/RGBA is the std/rasterize one")
    ctx.trust("refs/ecma48_cmds.json", "reference templates written by hand from ECMA-48 5th ed., xterm ctlseqs, kitty keyboard protocol")

    ctx.rule("TEMPLATE", "encode arm template == reference template (per TerminalCommand variant, every branch valuation)", floor=N_VARIANTS)
    ctx.rule("COMPLETE", "every path of an encode arm is a concatenation of complete control sequences (no exit inside a sequence)", floor=N_VARIANTS)
    ctx.rule("STRING-PAYLOAD", "a value written inside an OSC/DCS/APC string cannot contain bytes that end or corrupt the string (numeric, hex, "
                               "trusted Display, or characters filtered by !is_control())", floor=4)
    ctx.rule("DECMODE", "DecMode discriminants == xterm DECSET/DECRST mode numbers; KEYBOARD_LEVEL within the kitty flag range", floor=N_DECMODES + 1)

    try:
        refdoc, rows = load_refs()
    except Exception as e:  # malformed reference table: fail closed
        ctx.anchor("TEMPLATE", "refs/ecma48_cmds.json", "reference table unreadable: %s" % e)
        return

    # ---------------- variants ------------------------------------------------------------------
    en = src.enum(ENUM)
    mv = prog.enum_variants(ENUM_PATH)
    if en is None or mv is None:
        ctx.anchor("TEMPLATE", "enum-TerminalCommand")
        return
    variants = [v["name"] for v in en[1]["variants"]]
    if variants != [n for n, _ in mv]:
        ctx.anchor("TEMPLATE", "enum-TerminalCommand", "src.json and mir.json disagree on the variants of TerminalCommand")
        return

    r = src.fn("encode", impl_self="TTYEncoder", impl_trait="Encoder")
    if r is None:
        ctx.anchor("TEMPLATE", "TTYEncoder::encode")
        return
    file, fn = r
    where = "<encoder::TTYEncoder as encoder::Encoder>::encode"
    try:
        ex = T.Extractor(src, file, fn)
        others = [p["pat"]["name"] for p in fn["sig"]["inputs"] if p.get("pat") and p["pat"].get("name") and p["pat"]["name"] not in ex.sinks]
        if len(others) != 1:
            raise T.Unsupported("encode has parameters %s besides self and the sink" % others)
        cmd = others[0]
        m = ex.match_arms(cmd)
    except T.Unsupported as e:
        ctx.anchor("TEMPLATE", "TTYEncoder::encode", "encode is not `match cmd {..}` over a sink: %s" % e)
        return

    arm_of = {}
    catch_all = None
    try:
        for arm in m["arms"]:
            for name, case in pattern_cases(arm["pat"]):
                if name is None:
                    if catch_all is None:
                        catch_all = (arm, case)
                elif name not in arm_of and catch_all is None:
                    arm_of[name] = (arm, case)
    except T.Unsupported as e:
        ctx.anchor("TEMPLATE", "TTYEncoder::encode", str(e))
        return

    resolver = make_resolver(src, "TTYEncoder")
    enumerated = 0
    for v in variants:
        got = arm_of.get(v) or catch_all
        line = None
        sites = []
        if got is None:
            ctx.instance("TEMPLATE", {"variant": v, "arm": None})
            ctx.violation("TEMPLATE", v, "no-arm", "no arm of encode handles %s" % v, sites=["%s:%d" % (file, m["line"])])
            continue
        arm, case = got
        sites = ["%s:%d" % (file, arm["line"])]
        if arm.get("guard") is not None:
            ctx.instance("TEMPLATE", {"variant": v})
            ctx.violation("TEMPLATE", v, "unsupported-construct", "arm of %s has a guard" % v, sites=sites)
            continue
        try:
            t = ex.arm_template(case, arm["body"], T.mkpath("$"))
            t = T.inline_calls(t, resolver, src)
        except T.Unsupported as e:
            ctx.instance("TEMPLATE", {"variant": v})
            ctx.instance("COMPLETE", {"variant": v})
            ctx.violation("TEMPLATE", v, "unsupported-construct", "the arm of %s uses a construct outside the template subset (fail closed): %s" % (v, e), sites=sites)
            continue
        enumerated += 1
        row = rows.get(v)
        if row is None:
            ctx.instance("TEMPLATE", {"variant": v, "template": t.text()})
            ctx.violation("TEMPLATE", v, "no-reference", "TerminalCommand::%s has no row in refs/ecma48_cmds.json; its arm writes %s" % (v, t.text() or "(nothing)"), sites=sites)
        else:
            try:
                ms, n = T.compare(t, row["_alts"])
            except T.Unsupported as e:
                ms, n = None, 0
                ctx.violation("TEMPLATE", v, "unsupported-construct", str(e), sites=sites)
            ctx.instance("TEMPLATE", {"variant": v, "reference": row["name"], "template": t.text()[:300], "valuations": n})
            for mm in ms or []:
                ctx.violation("TEMPLATE", v, mm.shape,
                              "%s (%s): %s; reference: %s" % (v, row["name"], mm, row["cite"]), sites=sites,
                              detail={"valuation": mm.val, "expected": mm.expected, "found": mm.actual})
            if ms is not None and n == 0:
                ctx.violation("TEMPLATE", v, "structure", "no branch valuation on which both the arm and the reference are defined", sites=sites)
            for path, ty in sorted(row.get("types", {}).items()):
                have = field_type(prog, refdoc, v, path)
                if have != ty:
                    ctx.violation("TEMPLATE", v, "field-type",
                                  "%s: the reference template assumes %s: %s but the variant declares %s" % (v, path, ty, have), sites=sites)

        def report(reason, msg, ln, v=v, sites=sites):
            ctx.violation("COMPLETE", v, reason, "%s: %s" % (v, msg), sites=sites if ln is None else ["%s:%s" % (file, ln)])
        try:
            nval = check_complete(t, v, report)
        except T.Unsupported as e:
            nval = 0
            ctx.violation("COMPLETE", v, "unsupported-construct", str(e), sites=sites)
        ctx.instance("COMPLETE", {"variant": v, "valuations": nval})
        # values written inside control strings
        found = []
        try:
            string_payloads(t, found)
        except T.Unsupported as e:
            ctx.violation("STRING-PAYLOAD", v, "unsupported-construct", str(e), sites=sites)
        seen_p = set()
        for kind, a, lps in found:
            key = (kind, a.text())
            if key in seen_p:
                continue
            seen_p.add(key)
            cls, why = payload_class(prog, refdoc, v, a, lps)
            ctx.instance("STRING-PAYLOAD", {"variant": v, "in": kind, "hole": a.text(), "class": cls, "why": why})
            ln = ["%s:%s" % (file, a.line)] if getattr(a, "line", None) else sites
            if cls == "string":
                ctx.violation("STRING-PAYLOAD", v, "unescaped-string-in-%s" % kind,
                              "%s writes %s (%s) unescaped inside an %s string: a payload containing BEL, ESC or another control character ends or "
                              "corrupts the sequence, so the command stream does not parse back into this command (%s)"
                              % (v, a.text(), why, kind, refdoc["string_payload"]["cite"]), sites=ln)
            elif cls == "unknown":
                ctx.violation("STRING-PAYLOAD", v, "unclassified-payload-in-%s" % kind,
                              "%s writes %s inside an %s string and its byte range could not be classified (%s)" % (v, a.text(), kind, why), sites=ln)
            elif "trusted" in why:
                ctx.trust("Display of rasterize::RGBA", why)
        if any(isinstance(a, (T.Hole, T.Raw)) for a in T.atoms_in(t)) and row is not None and v in ("Char", "Raw"):
            ctx.note("%s passes its payload through in ground state: C0 controls are legitimate data-stream content there and Raw is an explicit "
                     "escape hatch, so no escaping is required by the reference" % v)
    for name in rows:
        if name not in variants:
            ctx.note("reference row %s has no variant in the repository (constrains nothing)" % name)
    ctx.exhaustive = (enumerated == len(variants))
    ctx.extra["variants"] = len(variants)

    # ---------------- DEC private mode numbers ------------------------------------------------
    dm = prog.enum_variants("terminal::DecMode")
    if dm is None:
        ctx.anchor("DECMODE", "enum-DecMode")
    else:
        want = {r["variant"]: r for r in refdoc["dec_modes"]["rows"]}
        for name, discr in dm:
            ctx.instance("DECMODE", {"mode": name, "code": discr})
            if name not in want:
                ctx.violation("DECMODE", "terminal::DecMode", "%s-no-reference" % name, "DecMode::%s = %s has no row in the reference mode table" % (name, discr))
            elif discr != want[name]["code"]:
                ctx.violation("DECMODE", "terminal::DecMode", name,
                              "DecMode::%s = %s but xterm's mode number is %d (%s)" % (name, discr, want[name]["code"], want[name]["cite"]))
    kl = src.const("KEYBOARD_LEVEL")
    val = T.canon(kl[1]["expr"]) if kl else None
    ctx.instance("DECMODE", {"const": "KEYBOARD_LEVEL", "value": val})
    if kl is None or not re.match(r"^\d+$", val or ""):
        ctx.anchor("DECMODE", "KEYBOARD_LEVEL")
    elif int(val) > refdoc["consts"]["KEYBOARD_LEVEL"]["max"]:
        ctx.violation("DECMODE", "decoder::KEYBOARD_LEVEL", "range", "KEYBOARD_LEVEL = %s exceeds the defined kitty keyboard flags (<= %d)" % (val, refdoc["consts"]["KEYBOARD_LEVEL"]["max"]))

    obligations(ctx)


def obligations(ctx):
    """C05(b) "encoding never panics": every overflow/neg/bounds/unwrap obligation reachable from TTYEncoder::encode is discharged by the
    abstract interpreter (extreme values: `-col`, `pos.row + 1`, ...), by the CHUNKS-INV lemma (structurally checked here) or by the
    FINITE-COLOR lemma (colours are RGBA)."""
    import re
    from .. import oblrules
    from ..mir import call_matches, callee_name
    from ..flow import resolve_place, expr, arg_place as arg_place_of
    prog = ctx.prog
    ENC = "<encoder::TTYEncoder as encoder::Encoder>::encode"
    lemmas = {}
    # ---- CHUNKS-INV: offsets are non-decreasing and <= buffer.len() ---------------------------------------------------------
    ctx.rule("CHUNKS-INV", "encoder::Chunks: offsets only grows by push(buffer.len()), buffer only grows, both are cleared together; "
                           "Chunks::iter walks offsets in order starting from 0 — so buffer[start..end] is in range", floor=5)
    ALLOWED = {"offsets": [r"^std::vec::Vec::<T, A>::push$", r"^std::vec::Vec::<T, A>::clear$", r"^std::vec::Vec::<T, A>::(reserve|reserve_exact|try_reserve|shrink_to_fit)$"],
               "buffer": [r"Extend<&'a T>>::extend$|as std::iter::Extend<.*>>::extend$", r"^std::vec::Vec::<T, A>::(extend_from_slice|push|reserve|reserve_exact|try_reserve|shrink_to_fit)$", r"(as std::io::Write>|impl std::io::Write for std::vec::Vec<u8, A>>)::write(_all)?$", r"^std::vec::Vec::<T, A>::clear$"]}
    ok_inv = True
    n_mut = 0
    clears = {}
    for b in prog.bodies:
        own = re.sub(r"<.*$", "", b.impl_self or "") == "encoder::Chunks" or (b.closure_root or "").startswith("encoder::Chunks::") or b.path.startswith("<encoder::Chunks as ")
        for bb, si, st in b.assigns():
            rp = resolve_place(b, st["place"])
            m = re.search(r"\.(buffer|offsets)$", rp)
            base_ty = b.local_ty(st["place"]["l"])
            if m and "Chunks" in base_ty:
                ok_inv = False
                ctx.violation("CHUNKS-INV", b.path, "assign-" + m.group(1), "Chunks.%s is overwritten directly" % m.group(1), sites=["%s:%d" % (b.file, st["line"])])
            rv = st["rv"]
            if rv["k"] == "ref" and rv["mut"]:
                rp = resolve_place(b, rv["place"])
                m = re.search(r"\.(buffer|offsets)$", rp)
                if not m or "Chunks" not in b.local_ty(rv["place"]["l"]):
                    continue
                n_mut += 1
                fld = m.group(1)
                l = st["place"]["l"]
                users = [(ub, t) for ub, t in b.calls() if any(a.get("k") in ("copy", "move") and a["place"]["l"] == l for a in t["args"])]
                good = own and len(users) == 1 and any(call_matches(users[0][1], p) for p in ALLOWED[fld])
                what = callee_name(users[0][1]) if users else None
                if good and call_matches(users[0][1], r"Vec::<T, A>::push$"):
                    good = expr(b, users[0][1]["args"][1]) in ("Vec::len(arg1.buffer)", "len(arg1.buffer)")
                    what = "push(%s)" % expr(b, users[0][1]["args"][1])
                if good and call_matches(users[0][1], r"Vec::<T, A>::clear$"):
                    clears.setdefault(b.path, set()).add(fld)
                ctx.instance("CHUNKS-INV", {"fn": b.path, "field": fld, "mutated_by": what, "allowed": bool(good)})
                if not good:
                    ok_inv = False
                    ctx.violation("CHUNKS-INV", b.path, "mutation-" + fld, "Chunks.%s is mutated by %s (%s): offsets may then exceed buffer.len() or decrease"
                                  % (fld, what, "outside Chunks' methods" if not own else "not push(buffer.len())/extend/write/clear"), sites=["%s:%d" % (b.file, st["line"])])
    for path, flds in clears.items():
        if flds != {"buffer", "offsets"}:
            ok_inv = False
            ctx.violation("CHUNKS-INV", path, "partial-clear", "%s clears %s but not the other vector" % (path, sorted(flds)), sites=[prog.body(path).loc])
    it = prog.body("encoder::Chunks::iter")
    itc = prog.body("encoder::Chunks::iter::{closure#0}")
    if it is None or itc is None or n_mut < 4:
        ctx.anchor("CHUNKS-INV", "Chunks::iter")
        ok_inv = False
    else:
        # closure environment initialised with (0, self, 0); start := offsets[index]; index += 1
        init = [expr(it, {"k": "copy", "place": st["place"]}) for bb, si, st in it.assigns() if st["rv"]["k"] == "agg" and st["rv"].get("ak") == "closure"]
        ok_init = len(init) == 1 and len(re.findall(r"\b0\b", init[0])) >= 2
        writes = sorted("%s := %s" % (resolve_place(itc, st["place"]), expr(itc, st["rv"]["a"]) if st["rv"]["k"] == "use" else st["rv"]["k"])
                        for bb, si, st in itc.assigns() if resolve_place(itc, st["place"]).startswith("(*_1)."))
        idx_calls = [t for bb, t in itc.calls() if call_matches(t, r"ops::Index<I>>::index$")]
        ok_w = len(writes) == 2 and len(idx_calls) == 2
        ctx.instance("CHUNKS-INV", {"iter_env_init": init, "closure_state_writes": writes, "ok": ok_init and ok_w})
        if not (ok_init and ok_w):
            ok_inv = False
            ctx.violation("CHUNKS-INV", itc.path, "iter-shape", "Chunks::iter is not the in-order walk (index, start from 0; start := offsets[index]; index += 1): %s / %s" % (init, writes), sites=[itc.loc])
    if ok_inv:
        lemmas[("encoder::Chunks::iter::{closure#0}", "RANGEIDX")] = ("CHUNKS-INV", "offsets is non-decreasing and every element <= buffer.len() (CHUNKS-INV), start is the previous offset")
    # ---- SCRATCH-RESET: the SGR parameter buffer kept in the encoder is emptied before each command uses it -----------------------
    ctx.rule("SCRATCH-RESET", "TTYEncoder::encode: every use of the persistent scratch buffer self.chunks (push/mark/write/drain, or handing it to a helper) is dominated by "
                              "self.chunks.clear() in the same call — parameters left behind by a command that failed with an I/O error cannot leak into the next one", floor=4)
    enc = prog.body(ENC)
    if enc is None:
        ctx.anchor("SCRATCH-RESET", "TTYEncoder::encode")
    else:
        ecfg = enc.cfg()
        uses, clears = [], []
        for bb, t in enc.calls():
            for i, a in enumerate(t["args"]):
                if a.get("k") not in ("copy", "move"):
                    continue
                ap = arg_place_of(enc, t, i)
                if ap == "(*_1).chunks":
                    if call_matches(t, r"^encoder::Chunks::clear$"):
                        clears.append(bb)
                    elif call_matches(t, r"^encoder::Chunks::is_empty$"):
                        pass
                    else:
                        uses.append((bb, t))
        for bb, t in uses:
            ok = any(ecfg.dominates(c, bb) and c != bb for c in clears)
            ctx.instance("SCRATCH-RESET", {"use": (callee_name(t) or "").split("::")[-1], "line": t["line"], "dominated_by_clear": ok})
            if not ok:
                ctx.violation("SCRATCH-RESET", ENC, "use-without-clear", "self.chunks is used by %s without a preceding self.chunks.clear() in this call: SGR parameters left in the buffer by an "
                              "earlier Face/FaceModify that failed on I/O would be emitted in front of this command's parameters" % (callee_name(t) or "?"), sites=["%s:%d" % (enc.file, t["line"])])
        if not uses:
            ctx.anchor("SCRATCH-RESET", "chunks-uses")
    # ---- FINITE-COLOR: partial_cmp(..).unwrap() in `nearest` ---------------------------------------------------------
    ctx.rule("FINITE-COLOR", "nearest() is only called by color_sgr_encode, which is only instantiated with rasterize::RGBA (8-bit channels: finite linear components)", floor=2)
    ok_fin = True
    n_calls = 0
    for b in prog.bodies:
        for bb, t in b.calls():
            if call_matches(t, r"^encoder::nearest$"):
                n_calls += 1
                good = b.path == "encoder::color_sgr_encode"
                ctx.instance("FINITE-COLOR", {"nearest_called_from": b.path, "ok": good})
                ok_fin &= good
            if call_matches(t, r"^encoder::color_sgr_encode$"):
                n_calls += 1
                good = t["fn"].get("generics") == ["rasterize::RGBA"]
                ctx.instance("FINITE-COLOR", {"color_sgr_encode_called_from": b.path, "generics": t["fn"].get("generics"), "ok": good})
                ok_fin &= good
    if ok_fin and n_calls:
        lemmas[("encoder::nearest::{closure#0}", "UNWRAP")] = ("FINITE-COLOR", "f32::partial_cmp is None only for NaN; table entries are finite literals and the probe derives from u8 channels")
        ctx.trust("FINITE-COLOR", "rasterize's LinColor::from(RGBA) yields finite components (sRGB transfer function on 8-bit channels)")
    elif n_calls:
        ctx.violation("FINITE-COLOR", "encoder::nearest", "callers", "nearest()/color_sgr_encode is used with a colour type whose components may be NaN: partial_cmp(..).unwrap() can panic", sites=[])
    oblrules.run(ctx, "TOTAL", [ENC], lossy=False, lemmas=lemmas, floor_bodies=4,
                 scope=lambda b: b.file.endswith(("encoder.rs", "terminal.rs", "face.rs")),
                 desc="encoding never panics: no reachable overflow/negation/bounds/unwrap failure from TTYEncoder::encode")
